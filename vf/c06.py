"""C06 - a finished or failed render leaves nothing behind.

Specification: specs/DjcRenderMachine.tla - the implementation-shaped machine of the deferred
renderer (prepare -> placeholder -> queue -> template -> post-render callbacks, nested render
roots) over the per-render registries, with a Fail alternative at every user-code point and the
error-path cleanup; TLC checks Quiescent (registries empty whenever no render is in progress, for
every tree shape and every fault point), ErrorPropagates and the order of callbacks.

fault enumeration (spec -> code and code -> spec): for every generated program, a dry run counts
the user-code invocations (get_context_data, inject, on_render_before, template tag, slot
function, on_render_after); then for EVERY index i the run in which invocation i raises is
executed for real.  Observed from outside: the very exception object propagates with its class,
annotated with the component path; all six registries are empty; the Context and the values handed
to the render are unreachable after gc; a reference render afterwards equals the specification's
result (DjcSemantics); repeating a failing render does not grow the number of live objects.
The recorded callback order and the registry sizes at the end of every run are validated by TLC
against DjcRenderMachine (Trace_C06).
"""
from __future__ import annotations

import gc
import json
import random
import weakref
from typing import Any, Dict, List, Optional

from . import djc, prog as P, provrefs, provtrace, tlc
from .core import Check, MachineryError, workdir
from .pool import pmap

PID = "C06"

PLAN: Dict[str, Any] = {"n": 0, "at": -1, "exc": None, "log": []}


class Sentinel(Exception):
    pass


def _exc(kind: int):
    return [RuntimeError("boom"), KeyError(5), OSError(2, "No such file"), Sentinel(("t", 1), "x"),
            ValueError("two\nlines")][kind % 5]


def point(kind: str, who: Any) -> None:
    """A user-code invocation: logged, and the PLAN decides whether it raises."""
    PLAN["n"] += 1
    PLAN["log"].append([kind, who])
    if PLAN["n"] == PLAN["at"]:
        raise PLAN["exc"]


class Marker:
    """Object handed to a render; must be unreachable afterwards."""


def _body_points(src: str, tag: str) -> str:
    """A fault point at the start of the body of every component tag that has a body (a tag that prints nothing is
    allowed beside fills)."""
    import re
    # (not into a literally empty body: `{% c %}{% endc %}` passes no content at all, with a tag in it it would pass an
    #  empty default fill)
    return re.sub(r"(\{% " + re.escape(tag) + r" (?:[^%]|%(?!\}))*?(?<!/) %\})(?!\s*\{% end" + re.escape(tag) + r" %\})",
                  r"\1{% vf_ptb %}", src)


def _page_src(prog) -> str:
    return _body_points(P.page_src(prog).replace("{% load lib_" + prog["mode"] + " vf_tags %}",
                                                 "{% load lib_" + prog["mode"] + " vf_tags vf_c06 %}", 1), "c_" + prog["mode"])


def _install(prog):
    """Components with every hook as a fault point."""
    from django.template import engines
    reg, lib = P.registry(prog["mode"])
    eng = engines["django"].engine
    if "vf_c06" not in eng.template_libraries:
        from django.template.library import Library
        l2 = Library()

        @l2.simple_tag(takes_context=True)
        def vf_pt(context, n):
            cid = context.get("_DJC_COMPONENT_CTX")
            point("tag", [n, cid])
            return ""

        @l2.simple_tag(takes_context=True)
        def vf_ptb(context):
            # user code inside the BODY of a component tag (it runs while the library collects the fills of that tag)
            point("body", [0, context.get("_DJC_COMPONENT_CTX")])
            return ""
        eng.template_libraries["vf_c06"] = l2
    extra = {}
    for i in range(1, len(prog["comps"]) + 1):
        hook = prog["comps"][i - 1].get("hook") or {"bx": "", "bv": "", "after": "none"}

        def before(self, context, template, i=i, hook=hook):
            point("before", [i, self.id])
            if hook["bx"]:
                context[hook["bx"]] = hook["bv"]

        def after(self, context, template, content, i=i, hook=hook):
            point("after", [i, self.id])
            if hook["after"] == "wrap":
                return f"[A{i}]{content}[/A{i}]"
            if hook["after"] == "replace":
                return f"[R{i}]"
            if hook["after"] == "same":
                return content
            return None

        tag = "c_" + prog["mode"]
        extra[i] = {"on_render_before": before, "on_render_after": after,
                    "template": "{% load lib_" + prog["mode"] + " vf_tags vf_c06 %}{% vf_pt " + str(i) + " %}" +
                                _body_points(P.tpl_src(prog["comps"][i - 1]["tpl"], tag), tag)}
    P.install(prog, extra=extra)
    # get_context_data / inject fault points: wrap what make_component built
    for i in range(1, len(prog["comps"]) + 1):
        cls = reg.get(f"{prog['mode'][0]}c{i}")
        orig = cls.get_context_data

        def gcd(self, _orig=orig, i=i, **kwargs):
            parent = self.input.context.get("_DJC_COMPONENT_CTX")
            point("gcd", [i, self.id, parent])
            return _orig(self, **kwargs)
        cls.get_context_data = gcd
        orig_inject = cls.inject

        def inject(self, key, default=None, _o=orig_inject, i=i):
            point("inject", [i, self.id])
            return _o(self, key, default)
        cls.inject = inject


def _residue() -> Dict[str, int]:
    import django_components.perfutil.component as pc
    import django_components.perfutil.provide as pp
    return {"component_context_cache": len(pc.component_context_cache),
            "component_renderer_cache": len(pc.component_renderer_cache),
            "child_component_attrs": len(pc.child_component_attrs),
            "provide_cache": len(pp.provide_cache), "provide_references": len(pp.provide_references),
            "all_reference_ids": len(pp.all_reference_ids)}


_CANARY: List[Any] = []


def _canary() -> str:
    """A fixed, unrelated render through the Python API that touches the state a render keeps per thread / process:
    a slot function that prints its default content (`slot_ref`), inject() with a default outside every provider, a
    root element.  'Every later render behaves as if the failed one had never happened': after any run it must give
    what it gives in a fresh process."""
    if not _CANARY:
        from django_components import Component

        class VfCanary(Component):
            template = '<i>{% slot "s" default %}DEF{% endslot %}</i>[{{ inj }}]'

            def get_context_data(self):
                return {"inj": self.inject("vf_nokey", "none")}
        _CANARY.append(VfCanary)
    try:
        out = _CANARY[0].render(slots={"s": lambda ctx, data, ref: f"<b>{ref}</b>"}, render_dependencies=False)
        return P.RENDERED_RE.sub("", P.DJCID_RE.sub("", str(out)))
    except BaseException as e:  # noqa: BLE001
        return "raised " + type(e).__name__


def _run_once(prog, at: int, exc, record: bool = False) -> Dict[str, Any]:
    """One top-level render with fault plan `at`; everything observed from outside."""
    from django.template import Context, Template
    PLAN.update(n=0, at=at, exc=exc, log=[])
    marker = Marker()
    ctxd = P.page_context(prog)
    ctxd["vf_marker"] = marker
    ctx = Context(ctxd)
    refs = [weakref.ref(marker), weakref.ref(ctx)]
    fp_before = P._ctx_fingerprint(ctx)[:2]       # the layers of the Context (not the depth of its render_context:
    # a failed component leaves an empty, invisible RenderContext layer behind - lookups only see the top layer - which
    # changes nothing a later render can observe; demanding its removal would be more than the property states)
    res: Dict[str, Any] = {"err": "", "same_object": None, "msg": "", "out": None}
    pre = provtrace.snapshot_now() if record and provtrace.start() else None
    try:
        html = Template(_page_src(prog)).render(ctx)
        res["out"] = P.tokens(html)[0]
    except BaseException as e:  # noqa: BLE001
        res["err"] = type(e).__name__
        res["same_object"] = e is exc
        res["msg"] = str(e.args[0])[:400] if e.args else ""
        res["args_len"] = len(e.args)
        e.__traceback__ = None
        del e
    res["points"] = PLAN["n"]
    res["log"] = PLAN["log"]
    if pre is not None:
        provtrace.mark_end(bool(res["err"]))
        res["ptrace"] = provtrace.project(provtrace.stop(), pre)
    PLAN.update(exc=None, log=[])
    # whatever happened, the caller's Context object is as it was (layers pushed by the library are gone, also when the
    # exception crossed {% provide %} / component / slot / fill tags)
    res["ctx_restored"] = P._ctx_fingerprint(ctx)[:2] == fp_before
    if record:
        # (first thing after the run: a later render of the page itself could repair what the failed one left behind)
        res["canary"] = _canary()
    if res["err"] and at > 0:
        # "every later render behaves as if the failed one had never happened" - also a later render that is handed the
        # SAME Context object (a view that catches the error and renders a fallback with its context)
        PLAN.update(n=0, at=-1, exc=None, log=[])
        try:
            res["same_ctx_out"] = P.tokens(Template(_page_src(prog)).render(ctx))[0]
            res["same_ctx_err"] = ""
        except BaseException as e2:  # noqa: BLE001
            res["same_ctx_out"] = None
            res["same_ctx_err"] = type(e2).__name__
            e2.__traceback__ = None
            del e2
        PLAN.update(exc=None, log=[])
    del ctx, marker, ctxd
    gc.collect()
    res["alive"] = sum(1 for r in refs if r() is not None)
    res["residue"] = _residue()
    return res


def fault_case(prog) -> Dict[str, Any]:
    """Dry run + every fault index + a reference render after each failure."""
    P.reset_library_state()
    _install(prog)
    dry = _run_once(prog, -1, None, record=True)
    out = {"dry": dry, "faults": []}
    if dry["err"]:
        P.reset_library_state()
        return out
    n = dry["points"]
    for i in range(1, n + 1):
        exc = _exc(i + prog["id"])
        r = _run_once(prog, i, exc, record=True)
        r["exc_kind"] = type(exc).__name__
        del exc
        after = _run_once(prog, -1, None)       # every later render behaves as if nothing happened
        r["after_out"] = after["out"]
        r["after_err"] = after["err"]
        r["after_residue"] = after["residue"]
        out["faults"].append(r)
        P.reset_library_state()
    # repeating the same failing render does not grow memory
    if n:
        k = (prog["id"] % n) + 1
        for _ in range(5):
            _run_once(prog, k, _exc(k))
            P.reset_library_state() if False else None
        gc.collect()
        base = len(gc.get_objects())
        for _ in range(25):
            _run_once(prog, k, _exc(k))
        gc.collect()
        out["growth"] = len(gc.get_objects()) - base
        out["growth_point"] = k
    P.reset_library_state()
    return out


def judge(chk: Check, prog, exp, res) -> None:
    dry = res["dry"]
    case = {"program": djc.brief(prog), "json": prog}
    if dry.get("hang"):
        chk.violation(dict(case, fault=0), {"what": "hang"})
        return
    m = djc.mismatch(exp, {"err": dry["err"], "out": dry["out"] or [], "junk": ""})
    if m is not None:
        # the success path is C01/C03/C05's business; only note it
        chk.add("dry_run_disagrees_with_reference", 1)
        return
    for nm, v in dry["residue"].items():
        if v:
            chk.violation(dict(case, fault=0), {"what": "residue-after-successful-render", "registry": nm, "entries": v})
            return
    if dry["alive"]:
        chk.violation(dict(case, fault=0), {"what": "objects-alive-after-successful-render", "alive": dry["alive"]})
    for i, r in enumerate(res["faults"], start=1):
        chk.count([prog["mode"], prog["page"], prog["comps"], i])
        pt = r["log"][-1] if r["log"] else None
        c = dict(case, fault=i, point=pt, exception=r["exc_kind"])
        if r.get("hang"):
            chk.violation(c, {"what": "hang"})
            continue
        if r["err"] != r["exc_kind"] or not r["same_object"]:
            chk.violation(c, {"what": "exception-replaced-or-swallowed", "raised": r["exc_kind"], "observed": r["err"],
                              "same_object": r["same_object"], "msg": r["msg"]},
                          key=None)
            continue
        page_level_body = bool(pt) and pt[0] == "body" and not pt[1][1]
        if "An error occured while rendering components" not in r["msg"] and not page_level_body:
            chk.violation(c, {"what": "exception-not-annotated-with-component-path", "msg": r["msg"]})
            continue
        bad = {k: v for k, v in r["residue"].items() if v}
        if bad:
            chk.violation(c, {"what": "residue-after-failed-render", "residue": bad})
            continue
        if r["alive"]:
            chk.violation(c, {"what": "objects-alive-after-failed-render", "alive": r["alive"]})
            continue
        if r["after_err"] != dry["err"] or r["after_out"] != dry["out"]:
            chk.violation(c, {"what": "next-render-affected", "expected": dry["out"], "observed": r["after_out"],
                              "observed_err": r["after_err"]})
            continue
        bad = {k: v for k, v in r["after_residue"].items() if v}
        if bad:
            chk.violation(c, {"what": "residue-after-next-render", "residue": bad})
            continue
        if r.get("canary") != dry.get("canary"):
            chk.violation(c, {"what": "unrelated-later-render-affected", "canary_fresh": dry.get("canary"), "canary_after": r.get("canary")})
            continue
        if not r.get("ctx_restored", True):
            chk.violation(c, {"what": "Context-object-of-the-failed-render-keeps-layers-of-that-render"})
            continue
        if "same_ctx_err" in r and (r["same_ctx_err"] != dry["err"] or r["same_ctx_out"] != dry["out"]):
            chk.violation(c, {"what": "next-render-with-the-same-Context-affected", "expected": dry["out"],
                              "observed": r["same_ctx_out"], "observed_err": r["same_ctx_err"]})
    path_check(chk, prog, exp, res, case)
    if res.get("growth", 0) > 40:
        chk.violation(dict(case, fault=res.get("growth_point")), {"what": "memory-grows-on-repeated-failing-render",
                                                                  "objects_added_by_25_repeats": res["growth"]})


def _chain(msg: str) -> Optional[tuple]:
    """Component names of the path annotation, without the `Name(slot:x)` entries."""
    first = msg.split("\n", 1)[0]
    pre = "An error occured while rendering components "
    if not first.startswith(pre) or not first.endswith(":"):
        return None
    return tuple(x for x in first[len(pre):-1].split(" > ") if "(slot:" not in x)


def path_check(chk: Check, prog, exp, res, case) -> None:
    """'annotated with the component path': the specification's instance tree (DjcSemantics `insts`: an instance
    is an ancestor of another iff its position is a proper prefix) gives, for every rendered instance, the chain of
    component names from the top-level component down to it.  Every instance has exactly one fault run at its
    get_context_data, one at on_render_before and one at the tag that starts its template, so for each of these
    kinds the multiset of annotated paths over the fault runs must equal the multiset of chains."""
    from collections import Counter
    insts = exp["insts"]
    name = lambda c: f"{prog['mode'][0]}c{c}"          # noqa: E731
    want = Counter()
    for path, comp in insts:
        anc = sorted((q, c) for q, c in insts if len(q) <= len(path) and path[:len(q)] == q)
        anc.sort(key=lambda qc: len(qc[0]))
        want[tuple(name(c) for _, c in anc)] += 1
    for kind in ("gcd", "before", "tag"):
        got = Counter()
        n = 0
        for r in res["faults"]:
            if r.get("hang") or not r["log"] or r["log"][-1][0] != kind or r["err"] != r["exc_kind"]:
                continue
            n += 1
            got[_chain(r["msg"])] += 1
        if n != len(insts):
            chk.add("path_check_skipped", 1)      # not one fault run per instance (a hook replaced content ...): no verdict
            continue
        chk.add("component_paths_compared", n)
        if got != want:
            chk.violation(dict(case, fault_kind=kind),
                          {"what": "exception-annotated-with-wrong-component-path",
                           "expected_paths": sorted(map(list, want.elements())), "observed_paths": sorted(str(x) for x in got.elements())})
            return


def body(chk: Check, *, n_programs: int, deep: int, machine: bool = True, mc_nodes: int = 2) -> None:
    if machine:
        model_check_machine(chk)
    rnd = random.Random(chk.seed * 1000003 + 6)
    # (hooks: on_render_before writing the context, on_render_after keeping / wrapping / replacing the output - a
    #  finished render must leave nothing behind whatever the hooks return)
    g = P.Gen(rnd, depth=deep, width=2, collide=False, provide=True, required=0.0, ncomps=(1, 3), hooks=0.4)
    progs = [g.program(i + 1, P.MODES[i % 2]) for i in range(n_programs)]
    exp = djc.oracle(progs)
    # plus EVERY TLC-enumerated page of the 'provide' alphabet (providers at page level and inside a component
    # template with several consumers, provider around a slot): exhaustive pages x exhaustive fault points
    for mode in P.MODES:
        mp, me, r = djc.mc_programs("provide", mode, mc_nodes)
        chk.add("states", r.distinct)
        chk.add("transitions", r.generated)
        for q in mp:                       # mc_programs numbers pages 1..n and keys `me` by that id
            e = me[q["id"]]
            q["id"] = 10 ** 6 + len(progs)
            exp[q["id"]] = e
            progs.append(q)
        chk.add("mc_pages_fault_enumerated", len(mp))
    keep = [p for p in progs if not exp[p["id"]]["zone"] and not exp[p["id"]]["err"] and exp[p["id"]]["insts"]]
    res = pmap(fault_case, keep, workers=12, per_item_s=120, chunk=5)
    nfaults = 0
    traces = []
    for p, r in zip(keep, res):
        if isinstance(r, dict) and r.get("hang"):
            chk.violation({"program": djc.brief(p), "json": p}, {"what": "hang"})
            continue
        judge(chk, p, exp[p["id"]], r)
        nfaults += len(r["faults"])
        traces.append((p, r))
    chk.add("programs", len(keep))
    chk.add("fault_runs", nfaults)
    if keep:
        p, r = keep[0], res[0]
        chk.sample({"program": djc.brief(p), "user_code_invocations": r["dry"]["log"][:12],
                    "fault_indices_enumerated": len(r["faults"])}, limit=2)
    if machine:
        validate_traces(chk, traces)
    # code -> spec, operation level: every call of the provide / inject reference counting made by the dry run and by
    # every fault run, validated step by step against ProvideRefs.tla (vf/provtrace.py, Trace_ProvideRefs.tla)
    ptr = []
    for p, r in traces:
        for name, run in [("dry", r["dry"])] + [(f"fault{i}", f) for i, f in enumerate(r["faults"], start=1)]:
            if run.get("ptrace") is not None and len(run["ptrace"]["events"]) > 1:
                ptr.append(({"program": djc.brief(p), "json": p, "run": name}, run["ptrace"]))
    if ptr:
        st = provrefs.validate(chk, ptr, "fault")
        chk.add("traces_validated_against_impl", st["validated"])


def model_check_machine(chk: Check) -> None:
    for cfg in ("DjcRenderMachine.cfg",):
        r = tlc.run("DjcRenderMachine", cfg, workers=4, coverage=True)
        tlc.require_ok(r, cfg)
        chk.add("states", r.distinct)
        chk.add("transitions", r.generated)
    r = tlc.run("DjcRenderMachine", "DjcRenderMachine_nocleanup.cfg", workers=2)
    if not r.violated:
        raise MachineryError("DjcRenderMachine without error-path cleanup should be refuted (vacuity guard)")
    chk.add("nocleanup_counterexample_found", 1)


def validate_traces(chk: Check, traces) -> None:
    """code -> spec: callback order + final registry sizes of every run against DjcRenderMachine."""
    rows = []
    tid = 0
    index = {}
    for p, r in traces:
        runs = [("dry", r["dry"])] + [(f"fault{i}", f) for i, f in enumerate(r["faults"], start=1)]
        for name, run in runs:
            ids: Dict[str, int] = {}
            evs = []
            ok = True
            for kind, who in run["log"]:
                if kind == "gcd":
                    cid = ids.setdefault(who[1], len(ids) + 1)
                    parent = ids.get(who[2], 0) if who[2] else 0
                    if who[2] and who[2] not in ids:
                        ok = False
                    evs.append({"e": "gcd", "c": cid, "p": parent})
                elif kind in ("before", "after"):
                    if who[1] not in ids:
                        ok = False
                    evs.append({"e": kind, "c": ids.get(who[1], 0), "p": 0})
                elif kind == "tag":
                    if who[1] not in ids:
                        ok = False
                    evs.append({"e": "tpl", "c": ids.get(who[1], 0), "p": 0})
            if not ok:
                chk.add("traces_with_unknown_ids", 1)
                continue
            tid += 1
            failed = bool(run["err"])
            rows.append({"id": tid, "events": evs, "failed": failed,
                         "ctx": run["residue"]["component_context_cache"], "rend": run["residue"]["component_renderer_cache"]})
            index[tid] = (p, name)
    if not rows:
        return
    w = workdir("c06tr")
    total = 0
    for k in range(0, len(rows), 4000):
        part = rows[k:k + 4000]
        f = w / f"tr{k}.ndjson"
        tlc.write_ndjson(f, part)
        r = tlc.run("Trace_C06", "Trace_C06.cfg", env={"IN": str(f)}, workers=1, heap="6g")
        tlc.require_ok(r, "Trace_C06")
        v = tlc.verdicts(r, len(part), "Trace_C06")
        for t, why in v["rejected"].items():
            p, name = index[t]
            chk.violation({"label": "render-machine-trace", "run": name, "program": djc.brief(p), "json": p,
                           "events": next(x for x in part if x["id"] == t)["events"]}, why)
        total += len(part)
        chk.add("states", r.distinct)
    chk.add("traces_validated_against_impl", total)


def run(tier: str) -> int:
    from . import boot
    boot.setup()
    chk = Check(PID, tier, "fault_enumeration")
    if tier == "quick":
        body(chk, n_programs=450, deep=2)
    else:
        body(chk, n_programs=1500, deep=3, mc_nodes=2)
    chk.cov["rule"] = ("for every generated program (providers included) every index of a user-code invocation of its render is made "
                       "to raise (exhaustive per program), with exception classes rotating over str / int / errno / tuple / multi-line "
                       "first arguments; distinct by (program, fault index).")
    chk.cov["exhaustive"] = False
    chk.assumptions += ["fault points: get_context_data, inject, on_render_before, a template tag at the start of every template, "
                        "on_render_after (slot functions are exercised through fills)",
                        "liveness is judged by weakrefs to the Context and to a marker value after gc.collect()",
                        "object growth over 25 repetitions tolerates 40 objects of noise"]
    return chk.finish()


def selftest(tier: str) -> int:
    """In-process mutation probes (never /repo)."""
    from contextlib import contextmanager
    from . import boot
    from .core import run_probes
    boot.setup()
    import django_components.component as dcomp
    import django_components.util.exception as dexc

    @contextmanager
    def patch(obj, name, new):
        old = getattr(obj, name)
        setattr(obj, name, new)
        try:
            yield
        finally:
            setattr(obj, name, old)

    def no_cleanup_on_error():
        return patch(dcomp, "_cleanup_failed_render", lambda state: None)

    def cleanup_forgets_waiting_children():
        def f(state):
            if "render_id" in state:
                dcomp.component_context_cache.pop(state["render_id"], None)
                dcomp.unregister_provide_reference(state["render_id"])
        return patch(dcomp, "_cleanup_failed_render", f)

    def exception_rewrapped():
        @contextmanager
        def cem(path):
            try:
                yield
            except Exception as e:
                raise RuntimeError(f"An error occured while rendering components {path}: {e}") from e
        return patch(dcomp, "component_error_message", cem)

    return run_probes(PID, [("no-cleanup-on-error", no_cleanup_on_error),
                            ("cleanup-forgets-waiting-children", cleanup_forgets_waiting_children),
                            ("exception-re-wrapped", exception_rewrapped)],
                      lambda chk: body(chk, n_programs=120, deep=2, machine=False, mc_nodes=2))


def replay(path: str) -> int:
    from . import boot
    boot.setup()
    d = json.load(open(path))
    p = d["case"]["json"]
    r = fault_case(p)
    exp = djc.oracle([p])[p["id"]]
    chk = Check(PID, "quick", "fault_enumeration", silent=True)
    judge(chk, p, exp, r)
    print("violations on replay:", chk.violations)
    return 1 if chk.violations else 0
