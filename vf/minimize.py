"""Delta-debugging of a disagreeing component program (triage tool, not part of the checks)."""
from __future__ import annotations

import copy
import json
import sys
from typing import Any, Dict, List


def _lists(p):
    """Yield (container, key) for every node list of the program."""
    def walk(nodes_holder, key):
        yield nodes_holder, key
        for n in nodes_holder[key]:
            for k in ("a", "b"):
                if isinstance(n.get(k), list):
                    yield from walk(n, k)
    yield from walk(p, "page")
    for c in p["comps"]:
        yield from walk(c, "tpl")


def candidates(p) -> List[Dict[str, Any]]:
    out = []
    lists = list(_lists(p))
    for li in range(len(lists)):
        holder, key = lists[li]
        for i in range(len(holder[key])):
            q = copy.deepcopy(p)
            h2, k2 = list(_lists(q))[li]
            node = h2[k2][i]
            del h2[k2][i]
            if not (h2.get("t") == "comp" and h2.get("body") == "fills" and not h2[k2]):
                out.append(q)
            # hoist children (only when types are compatible: not for fills / comps with fills)
            if node.get("t") in ("if", "for", "with", "slot", "provide", "elem") or \
                    (node.get("t") == "comp" and node.get("body") == "impl"):
                q = copy.deepcopy(p)
                h2, k2 = list(_lists(q))[li]
                h2[k2][i:i + 1] = node.get("a", [])
                out.append(q)
            if node.get("t") == "comp":
                if node["kw"]:
                    q = copy.deepcopy(p)
                    h2, k2 = list(_lists(q))[li]
                    h2[k2][i]["kw"] = []
                    out.append(q)
                if node["only"]:
                    q = copy.deepcopy(p)
                    h2, k2 = list(_lists(q))[li]
                    h2[k2][i]["only"] = False
                    out.append(q)
                if node["body"] != "none":
                    q = copy.deepcopy(p)
                    h2, k2 = list(_lists(q))[li]
                    h2[k2][i]["body"] = "none"
                    h2[k2][i]["a"] = []
                    out.append(q)
            if node.get("t") == "fill" and (node["dv"] or node["fv"]):
                q = copy.deepcopy(p)
                h2, k2 = list(_lists(q))[li]
                h2[k2][i]["dv"] = ""
                h2[k2][i]["fv"] = ""
                out.append(q)
            if node.get("t") == "slot" and node["data"]:
                q = copy.deepcopy(p)
                h2, k2 = list(_lists(q))[li]
                h2[k2][i]["data"] = []
                out.append(q)
    for ci, c in enumerate(p["comps"]):
        for di in range(len(c["data"])):
            q = copy.deepcopy(p)
            del q["comps"][ci]["data"][di]
            out.append(q)
    return out


def minimize(p, devs, real_fn=None, max_rounds=60, pred=None):
    from . import djc
    real_fn = real_fn or (lambda progs: djc.real_variant(progs, dyn=p.get("dyn", False)))

    def failing(progs):
        for i, q in enumerate(progs):
            q["id"] = i + 1
            q["devs"] = devs
        exp = djc.oracle(progs)
        obs = real_fn(progs)
        res = []
        for q, o in zip(progs, obs):
            e = exp[q["id"]]
            res.append((not e["zone"]) and ((djc.mismatch(e, o) is not None) if pred is None else bool(pred(q, e, o))))
        return res

    assert failing([copy.deepcopy(p)])[0], "program does not fail under these deviations"
    cur = copy.deepcopy(p)
    for _ in range(max_rounds):
        cands = candidates(cur)
        if not cands:
            break
        res = failing(cands)
        nxt = [c for c, r in zip(cands, res) if r]
        if not nxt:
            break
        cur = min(nxt, key=lambda c: len(json.dumps(c)))
    return cur


if __name__ == "__main__":
    from . import boot
    boot.setup()
    from . import djc
    d = json.load(open(sys.argv[1]))
    devs = sys.argv[2].split(",") if len(sys.argv) > 2 and sys.argv[2] else []
    p = minimize(d["case"]["json"], devs)
    print(json.dumps(djc.brief(p), indent=1))
    p["devs"] = devs
    e = djc.oracle([p])[p["id"]]
    o = djc.real_variant([p], dyn=p.get("dyn", False))[0]
    print("expected", e["out"], e["err"])
    print("observed", o.get("out"), o.get("err"), o.get("msg"))
    json.dump(p, open("/verif/.work/t/min.json", "w"))
