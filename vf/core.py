"""Shared plumbing: paths, work dirs, evidence files, violations, known findings."""
from __future__ import annotations

import atexit
import hashlib
import json
import os
import random
import re
import shutil
import sys
import time
from pathlib import Path
from typing import Any, Callable, Dict, List, Optional

ROOT = Path(__file__).resolve().parent.parent
SPECS = ROOT / "specs"
EVIDENCE = ROOT / "evidence"
REPLAYS = ROOT / "replays"
# (VF_KNOWN_FILE: tooling only - lets tools/ evaluate a candidate repair against a findings file without the
#  lines it is meant to retire; no registered command sets it)
KNOWN = Path(os.environ.get("VF_KNOWN_FILE") or ROOT / "KNOWN_FINDINGS.txt")
REPO = Path(os.environ.get("VERIF_REPO", "/repo"))

_workdirs: List[Path] = []
PRINTED_VIOLATIONS = [0]      # VIOLATION lines printed by this process (see vf/main.py)


def workdir(tag: str = "w") -> Path:
    """Scratch directory under /verif/.work (never /tmp); removed at exit."""
    base = ROOT / ".work"
    base.mkdir(exist_ok=True)
    d = base / f"{tag}-{os.getpid()}-{random.SystemRandom().randrange(1 << 32):08x}"
    d.mkdir()
    _workdirs.append(d)
    return d


@atexit.register
def _cleanup() -> None:
    if os.environ.get("VERIF_KEEP_WORK"):
        return
    for d in _workdirs:
        shutil.rmtree(d, ignore_errors=True)


def seed() -> int:
    try:
        return int(os.environ.get("VERIF_SEED", "0"))
    except ValueError:
        return 0


class MachineryError(Exception):
    """The check itself is broken (TLC failed, parse error ...): exit 2, never a VIOLATION."""


def canon(x: Any) -> str:
    return json.dumps(x, sort_keys=True, ensure_ascii=False, default=repr)


def sha(x: Any) -> str:
    return hashlib.sha1(canon(x).encode()).hexdigest()[:12]


class KnownFindings:
    """Parsed KNOWN_FINDINGS.txt.  Lines:
    finding: property=<id> key=<matcher key> <what fails>
    fixed:   property=<id> <commit> <what failed>          (suppresses nothing)
    """

    def __init__(self) -> None:
        self.findings: Dict[tuple, str] = {}
        if KNOWN.exists():
            for line in KNOWN.read_text().splitlines():
                m = re.match(r"finding:\s+property=(\S+)\s+key=(\S+)\s+(.*)", line)
                if m:
                    self.findings[(m.group(1), m.group(2))] = m.group(3)

    def lookup(self, pid: str, key: Optional[str]) -> Optional[str]:
        if key is None:
            return None
        return self.findings.get((pid, key))


class Check:
    """One run of one property check: collects coverage, violations, writes evidence."""

    def __init__(self, pid: str, tier: str, level: str, silent: bool = False):
        self.silent = silent          # probe mode: count violations, print/write nothing
        self.pid = pid
        self.tier = tier
        self.level = level
        self.seed = seed()
        self.t0 = time.time()
        self.cov: Dict[str, Any] = {"samples": []}
        self.assumptions: List[str] = []
        self.violations = 0
        self.known_hit: Dict[str, int] = {}
        self.known = KnownFindings()
        self._printed_known: set = set()
        self._distinct: set = set()
        self.evals = 0
        self.max_violation_files = 25

    # ---- counting -----------------------------------------------------
    def count(self, case: Any, nontrivial: bool = True) -> None:
        self.evals += 1
        if nontrivial:
            self._distinct.add(sha(case))

    def sample(self, case: Any, limit: int = 5) -> None:
        if len(self.cov["samples"]) < limit:
            self.cov["samples"].append(case)

    def add(self, key: str, n: int = 1) -> None:
        self.cov[key] = self.cov.get(key, 0) + n

    # ---- verdicts -----------------------------------------------------
    def violation(self, case: Any, detail: Any, key: Optional[str] = None) -> None:
        """Report that the real code contradicts the specification on `case`.
        `key` is the matcher key of a named deviation (shape of the case plus the
        outcome the deviation predicts); if KNOWN_FINDINGS.txt lists it the case is
        a known finding, otherwise a VIOLATION."""
        what = self.known.lookup(self.pid, key)
        if self.silent:
            if what is None:
                self.violations += 1
            return
        if what is not None:
            self.known_hit[key] = self.known_hit.get(key, 0) + 1
            if key not in self._printed_known:
                self._printed_known.add(key)
                print(f"KNOWN-FINDING: property={self.pid} key={key} {what}", flush=True)
            return
        self.violations += 1
        if self.violations > self.max_violation_files:
            return
        d = REPLAYS / self.pid
        d.mkdir(parents=True, exist_ok=True)
        path = d / f"{sha([case, detail])}.json"
        path.write_text(json.dumps({"property": self.pid, "key": key, "case": case, "detail": detail},
                                   indent=1, ensure_ascii=False, default=repr))
        print(f"VIOLATION property={self.pid} replay={path}", flush=True)
        PRINTED_VIOLATIONS[0] += 1

    def finish(self) -> int:
        self.cov.setdefault("evaluations", self.evals)
        self.cov.setdefault("distinct_nontrivial", len(self._distinct))
        self.cov["known_findings_hit"] = self.known_hit
        _djc = sys.modules.get("vf.djc")
        if _djc is not None and getattr(_djc.oracle, "timeouts", 0):
            self.cov["oracle_timeouts_skipped"] = _djc.oracle.timeouts
        ev = {
            "property_id": self.pid,
            "tier": self.tier,
            "seed": self.seed,
            "level": self.level,
            "coverage": self.cov,
            "assumptions": self.assumptions,
            "wall_s": round(time.time() - self.t0, 2),
            "violations": self.violations,
        }
        # extension checks (ids X01..: behaviour beyond the listed properties) keep their evidence apart
        evdir = EVIDENCE if not self.pid.startswith("X") else ROOT / "evidence_ext"
        evdir.mkdir(exist_ok=True)
        (evdir / f"{self.pid}.json").write_text(json.dumps(ev, indent=1, ensure_ascii=False, default=repr) + "\n")
        print(f"{self.pid} tier={self.tier} evaluations={self.cov['evaluations']} "
              f"distinct={self.cov['distinct_nontrivial']} violations={self.violations} "
              f"known={sum(self.known_hit.values())} wall={ev['wall_s']}s", flush=True)
        return 1 if self.violations else 0


def run_probes(pid: str, probes, body: Callable[["Check"], None]) -> int:
    """Selftest: `probes` is a list of (name, contextmanager-factory) that monkeypatch the library
    in-process with a realistic bug; `body(chk)` runs the check's core.  A probe is killed when the
    body reports at least one (non-known) violation.  Exit 0 iff every probe is killed and the
    unpatched library is clean."""
    base = Check(pid, "quick", "other", silent=True)
    body(base)
    print(f"selftest {pid}: unpatched violations={base.violations}")
    ok = base.violations == 0
    for name, cm in probes:
        chk = Check(pid, "quick", "other", silent=True)
        try:
            with cm():
                body(chk)
            state = "killed" if chk.violations else "SURVIVED"
        except MachineryError as e:
            state = f"machinery-error ({str(e)[:80]})"
        except Exception as e:  # a probe that makes the harness itself crash counts as noticed
            state = f"killed (harness exception {type(e).__name__})"
        print(f"  probe {name}: {state} (violations={chk.violations})")
        ok = ok and state.startswith("killed")
    return 0 if ok else 1
