"""C09 - the template lexer partitions the source exactly, with right positions and lines.

Specification (specs/): Lexer.tla (layer A: sources as sequences of segments, Flat, Tokens,
PartitionOK, a transcription of Django's Lexer = StockTokens, theorems Partition / StockEqual /
OnlyQuotedClosersDiffer / SingleLineSame), LexerHandover.tla (layer B: the index_start /
lineno_offset loop of parse_template with four NAMED deviations), LexerAtoms.tla (25 concrete
segments + 10 near misses of the verbatim state machine), MC_C09.tla, MC_C09H.tla, Trace_C09.tla.

spec -> code: TLC enumerates every source of <= N atoms (quick: N=3 over the 25 base atoms, N=3 over
              the near-miss atoms + three followers, N=2 over all 35 atoms), checks the
              theorems and that the deviation-free hand-over loop refines Tokens, and exports each
              source with the token stream the specification expects.  Every exported source is run
              through django_components.util.template_parser.parse_template, through the patched
              Template (engine.debug on and off; tokens seen by the Parser), with tag_re DOTALL
              (multiline_tags=True, default) and with the stock tag_re, and compared; the real stock
              Lexer/DebugLexer is compared with the StockTokens transcription.  MC_C09H runs the
              loop as a state machine: invariants lineno_offset = newlines before index_start etc.
              hold without deviations; with one deviation switched on TLC must produce a
              counterexample, which is replayed on the real code.
code -> spec: a seeded generator builds much deeper sources from the segment grammar (4..14
              segments, random whitespace / strings / escapes / verbatim / tails), runs the real
              code (three channels, both tag_re settings) and records source + observed tokens (+
              the observed passes of the hand-over loop); Trace_C09 validates all records in one TLC
              batch: ACCEPT (explained by Tokens), DEV D (explained only with the named deviations D
              of layer B, smallest D first -> KNOWN-FINDING per deviation) or REJECT (-> VIOLATION).
              Every mismatch of the spec -> code direction is classified by the same batch.

Verbatim near misses (atoms 26..35, Gen.nearmiss / Gen.near_closer): block tags whose name has
`verbatim` / `endverbatim` as a proper prefix or suffix (verbatim_js, verbatimx, xverbatim,
endverbatimx ...), `verbatim` followed by tab / newline / CR / a quote instead of a space, an
`endverbatim ...` where no block is open, and - inside a verbatim block - end tags that are not
exactly "end" + the contents of the opening tag (other name, other arguments, other whitespace
between name and arguments); each with and without quoted arguments, followed by further tags.
Whether such a tag opens / closes a block is decided by the specification alone (OpensVerbatim,
SegOK, BodySegOK of Lexer.tla = stock Django's contents[:9] in ("verbatim", "verbatim ") and
contents == "end" + opening contents; the property makes stock Django the reference for everything but a quoted
"%}"): the generator only proposes the segment structure and TLC rejects an ill-formed proposal as
MACHINERY.

Oracle zones (no single answer is determined; TemplateSyntaxError or any faithful partition is
accepted): a block tag with an unbalanced quote; an unterminated tag containing a quoted "%}";
with multiline_tags=False, a quoted tag that spans a line break.  Avoided by the generator:
a quoted "%}" inside a verbatim body, "{" as last character of a
text run, complete tags inside an unterminated tail, whitespace other than space/tab/CR/newline.
"""
from __future__ import annotations

import json
import random
import re
from contextlib import contextmanager
from pathlib import Path
from typing import Any, Dict, List, Optional, Tuple

from . import tlc
from .core import Check, MachineryError, workdir

PID = "C09"
DEVS = ["lineno-double-offset", "lineno-stripped-newlines", "verbatim-quoted-reset", "percent-swallows-closer"]
JOBS = [4]      # concurrent single-worker TLC runs for trace validation


# ---------------------------------------------------------------- real code: observation
class Env:
    """Handles on the real code, created once after boot.setup()."""

    def __init__(self) -> None:
        from . import boot
        import django.template.base as tb
        from django.template import Engine, Library
        from django.template.base import TextNode
        import django_components.util.template_parser as tp
        import django_components.util.django_monkeypatch as dm

        self.tb, self.tp, self.dm = tb, tp, dm
        self.re_sl = boot.STOCK["tag_re"]
        self.re_ml = re.compile(self.re_sl.pattern, re.DOTALL)
        if not (tb.tag_re.flags & re.DOTALL):
            raise MachineryError("expected default multiline_tags=True (tag_re DOTALL) after setup")
        if not getattr(tb.Template, "_djc_patched", False):
            raise MachineryError("Template is not monkeypatched")
        lib = Library()

        def noop(parser, token):
            return TextNode("")
        for name in ["c", "x", "k", "y"] + Gen.NM_NAMES:
            lib.tag(name, noop)
        self.engines = {}
        for dbg in (False, True):
            eng = Engine(debug=dbg)
            eng.template_builtins.append(lib)
            self.engines[dbg] = eng
        self.channel_unavailable: Dict[str, int] = {}
        self.hangs = 0


_env: Optional[Env] = None


def env() -> Env:
    global _env
    if _env is None:
        from . import boot
        boot.setup()
        _env = Env()
    return _env


def text_of(chars: List[int]) -> str:
    return "".join(map(chr, chars))


def tok_rows(tokens) -> List[Dict[str, Any]]:
    out = []
    for t in tokens:
        pos = t.position if t.position is not None else (0, 0)
        out.append({"t": t.token_type.name, "c": [ord(ch) for ch in t.contents],
                    "s": int(pos[0]), "e": int(pos[1]), "l": int(t.lineno if t.lineno is not None else 0)})
    return out


def err_code(e: BaseException) -> str:
    from django.template.exceptions import TemplateSyntaxError
    if isinstance(e, Hang):
        env().hangs += 1
        return "hang"
    if isinstance(e, TemplateSyntaxError):
        msg = str(e)
        if "unterminated {% tag" in msg:
            return "unterminated-tag"
        if "unterminated" in msg and "string" in msg:
            return "unterminated-string"
        return "TemplateSyntaxError"
    return "exception:" + type(e).__name__


class Hang(Exception):
    pass


HANG_BUDGET_S = 4.0      # a lexer call takes ~50 microseconds; > 10^4 times that is a hang
MAX_HANGS = 4


@contextmanager
def watchdog():
    """SIGALRM budget around one real-code call (main thread only) - an endless loop in the
    hand-over logic would otherwise eat the machine."""
    import signal
    import threading
    if threading.current_thread() is not threading.main_thread():
        yield
        return

    def onalarm(signum, frame):
        raise Hang()
    old = signal.signal(signal.SIGALRM, onalarm)
    signal.setitimer(signal.ITIMER_REAL, HANG_BUDGET_S)
    try:
        yield
    finally:
        signal.setitimer(signal.ITIMER_REAL, 0)
        signal.signal(signal.SIGALRM, old)


def too_many_hangs() -> bool:
    return env().hangs >= MAX_HANGS


@contextmanager
def tag_re_mode(ml: bool):
    """multiline_tags on/off = what apps.py does to django.template.base.tag_re."""
    E = env()
    old = E.tb.tag_re
    E.tb.tag_re = E.re_ml if ml else E.re_sl
    try:
        yield
    finally:
        E.tb.tag_re = old


def observe_parse(text: str, ml: bool) -> Dict[str, Any]:
    """parse_template(text) plus, through rebinding two names of its module (auxiliary channel,
    no source hook), the passes of its loop: where each Django pass started and which token it
    handed over."""
    E = env()
    tp = E.tp
    trail: List[Dict[str, Any]] = []
    ok_names = hasattr(tp, "DebugLexer") and hasattr(tp, "_detailed_tag_parser")
    if ok_names:
        orig_lexer, orig_detail = tp.DebugLexer, tp._detailed_tag_parser
        n = len(text)

        class RecLexer(orig_lexer):
            def __init__(self, template_string):
                trail.append({"idx": n - len(template_string), "hb": False, "bs": 0, "bl": 0})
                super().__init__(template_string)

        def rec_detail(sub, lineno, start_index):
            if trail:
                trail[-1].update({"hb": True, "bs": int(start_index), "bl": int(lineno)})
            return orig_detail(sub, lineno, start_index)
        tp.DebugLexer, tp._detailed_tag_parser = RecLexer, rec_detail
    else:
        E.channel_unavailable["handover-trail"] = E.channel_unavailable.get("handover-trail", 0) + 1
    try:
        with tag_re_mode(ml):
            try:
                with watchdog():
                    toks = tp.parse_template(text)
                obs = {"err": "", "toks": tok_rows(toks)}
            except Exception as e:  # noqa: BLE001
                obs = {"err": err_code(e), "toks": [], "msg": str(e)[:200]}
    finally:
        if ok_names:
            tp.DebugLexer, tp._detailed_tag_parser = orig_lexer, orig_detail
    obs["trail"] = trail
    obs["hastrail"] = bool(ok_names and (trail or not text))
    return obs


def observe_template(text: str, ml: bool, debug: bool) -> Dict[str, Any]:
    """Compile through the patched django.template.base.Template and capture the token list its
    Parser is constructed with; also the line named by the TemplateSyntaxError, if any."""
    E = env()
    dm = E.dm
    captured: List[Any] = []
    orig = dm.Parser

    class RecParser(orig):
        def __init__(self, tokens, *a, **kw):
            captured.append(list(tokens))
            super().__init__(tokens, *a, **kw)
    dm.Parser = RecParser
    exc: Optional[BaseException] = None
    try:
        with tag_re_mode(ml):
            try:
                with watchdog():
                    E.tb.Template(text, engine=E.engines[debug])
            except Exception as e:  # noqa: BLE001
                exc = e
    finally:
        dm.Parser = orig
    obs: Dict[str, Any] = {"trail": [], "hastrail": False}
    if captured:
        obs.update({"err": "", "toks": tok_rows(captured[0])})
    elif exc is not None:
        obs.update({"err": err_code(exc), "toks": [], "msg": str(exc)[:200]})
    else:
        raise MachineryError("Template compiled without constructing a Parser (channel lost)")
    if exc is not None:
        m = re.search(r"on line (\d+)", str(exc))
        obs["msg"] = str(exc)[:200]
        obs["msg_line"] = int(m.group(1)) if m else None
        td = getattr(exc, "template_debug", None)
        if td:
            obs["debug_line"] = td.get("line")
            obs["debug_during"] = td.get("during")
    return obs


def observe(text: str, ml: bool, channel: str) -> Dict[str, Any]:
    if channel == "parse":
        return observe_parse(text, ml)
    if channel == "tmpl-debug":
        return observe_template(text, ml, True)
    if channel == "tmpl-nodebug":
        return observe_template(text, ml, False)
    raise MachineryError(f"unknown channel {channel}")


def stock_tokens(text: str, ml: bool) -> Tuple[List[Dict[str, Any]], List[Dict[str, Any]]]:
    """Real stock Django: DebugLexer (positions) and Lexer (none)."""
    E = env()
    with tag_re_mode(ml):
        a = tok_rows(E.tb.DebugLexer(text).tokenize())
        b = tok_rows(E.tb.Lexer(text).tokenize())
    return a, b


def same_stream(a: List[Dict[str, Any]], b: List[Dict[str, Any]], positions: bool = True) -> bool:
    if len(a) != len(b):
        return False
    for x, y in zip(a, b):
        if x["t"] != y["t"] or x["c"] != y["c"] or x["l"] != y["l"]:
            return False
        if positions and (x["s"] != y["s"] or x["e"] != y["e"]):
            return False
    return True


# ---------------------------------------------------------------- TLC plumbing
def _java_env(w: Path) -> Dict[str, str]:
    # keep TLC's unpacked standard modules out of /tmp
    return {"_JAVA_OPTIONS": f"-Djava.io.tmpdir={w}"}


def trace_line(tid: int, case: Dict[str, Any], obs: Dict[str, Any]) -> Dict[str, Any]:
    return {"id": tid, "useids": "ids" in case, "ids": case.get("ids", []), "segs": case.get("segs", []),
            "chars": case["chars"], "ml": bool(case["ml"]), "err": obs["err"], "toks": obs["toks"],
            "hastrail": bool(obs.get("hastrail")), "trail": obs.get("trail", [])}


def validate_parallel(lines: List[Dict[str, Any]], tag: str, jobs: int) -> Dict[int, Dict[str, Any]]:
    """Split `lines` (ids 1..n) over up to `jobs` concurrent single-worker TLC runs."""
    from concurrent.futures import ThreadPoolExecutor
    if len(lines) < 400 or jobs <= 1:
        return validate_batch(lines, tag)
    size = max(300, -(-len(lines) // jobs))
    size = min(size, 4000)
    chunks = [lines[k:k + size] for k in range(0, len(lines), size)]
    out: Dict[int, Dict[str, Any]] = {}

    def work(chunk):
        local = [dict(ln, id=j + 1) for j, ln in enumerate(chunk)]
        v = validate_batch(local, tag)
        return {chunk[j]["id"]: v[j + 1] for j in range(len(chunk))}
    with ThreadPoolExecutor(max_workers=jobs) as ex:
        for part in ex.map(work, chunks):
            out.update(part)
    return out


def validate_batch(lines: List[Dict[str, Any]], tag: str = "c09tr") -> Dict[int, Dict[str, Any]]:
    """One TLC run of Trace_C09 over `lines`; verdict per trace id."""
    if not lines:
        return {}
    w = workdir(tag)
    f = w / "traces.ndjson"
    tlc.write_ndjson(f, lines)
    cfg = w / "trace.cfg"
    cfg.write_text("SPECIFICATION TrSpec\n")
    env_ = {"IN": str(f)}
    env_.update(_java_env(w))
    r = tlc.require_ok(tlc.run("Trace_C09", str(cfg), env=env_, workers=1, heap="3g"), "Trace_C09")
    out: Dict[int, Dict[str, Any]] = {}
    for line in r.out.splitlines():
        m = re.match(r'"V\|(\d+)\|(\w+)\|([^|]*)\|([^|]*)\|([^|]*)"$', line.strip())
        if m:
            out[int(m.group(1))] = {"kind": m.group(2), "devs": sorted(x for x in m.group(3).split(",") if x),
                                    "clauses": sorted(x for x in m.group(4).split(",") if x), "note": m.group(5)}
    if len(out) != len(lines):
        tail = "\n".join(r.out.splitlines()[-30:])
        raise MachineryError(f"Trace_C09: {len(out)} verdicts for {len(lines)} traces\n{tail}")
    return out


def apply_verdicts(chk: Check, cases: List[Dict[str, Any]], obss: List[Dict[str, Any]],
                   verdicts: Dict[int, Dict[str, Any]], counters: Dict[str, int]) -> None:
    for i, (case, obs) in enumerate(zip(cases, obss)):
        v = verdicts[i + 1]
        counters[v["kind"]] = counters.get(v["kind"], 0) + 1
        if v["note"] == "drift":
            chk.add("model_drift", 1)
        if v["note"].startswith("zone-"):
            chk.add("zone_" + v["note"][5:], 1)
        if v["kind"] == "ACCEPT":
            continue
        shown = {"kind": case.get("kind", "trace"), "text": text_of(case["chars"]), "ml": case["ml"],
                 "channel": case.get("channel", "parse")}
        for k in ("ids", "segs"):
            if k in case:
                shown[k] = case[k]
        shown["chars"] = case["chars"]
        detail = {"verdict": v, "observed": {"err": obs["err"], "msg": obs.get("msg"),
                                             "toks": [[t["t"], text_of(t["c"]), t["s"], t["e"], t["l"]] for t in obs["toks"]]}}
        if "expect" in case:
            detail["expected"] = [[t["t"], text_of(t["c"]), t["s"], t["e"], t["l"]] for t in case["expect"]]
        if v["kind"] == "MACHINERY":
            raise MachineryError(f"Trace_C09 says the harness is wrong: {v['note']} on {shown['text']!r}")
        if v["kind"] == "DEV":
            for d in v["devs"]:
                chk.violation(shown, detail, key=d)
        else:
            chk.violation(shown, detail)


# ---------------------------------------------------------------- spec -> code
NATOMS = 35
BASE = list(range(1, 26))            # the 25 base atoms
NEAR = list(range(26, NATOMS + 1))   # near misses of the verbatim state machine
ALL = BASE + NEAR


def _set(xs) -> str:
    return "{" + ",".join(str(a) for a in xs) + "}"


def _bounds(ex) -> Dict[str, Any]:
    """(MaxSegs, atoms or None = all[, FocusSegs, focus atoms[, pair atoms]]) -> the constants of MC_C09 / MC_C09H."""
    n, atoms, fn, fatoms, pairs = (tuple(ex) + (0, [], [])[len(ex) - 2:])[:5]
    return {"n": n, "atoms": list(atoms or ALL), "fn": fn, "fatoms": list(fatoms or []), "pairs": list(pairs or [])}


def _bounds_cfg(b: Dict[str, Any]) -> str:
    return (f"  MaxSegs = {b['n']}\n  AtomSet = {_set(b['atoms'])}\n  FocusSegs = {b['fn']}\n"
            f"  FocusSet = {_set(b['fatoms'])}\n  PairSet = {_set(b['pairs'])}\n")


def export_cases(chk: Check, ex, workers: int) -> List[Dict[str, Any]]:
    w = workdir("c09mc")
    out = w / "cases.ndjson"
    cfg = w / "mc.cfg"
    b = _bounds(ex)
    maxsegs = f"{b['n']}/{b['fn']}/2"
    cfg.write_text("SPECIFICATION MCSpec\nCONSTANTS\n" + _bounds_cfg(b) +
                   "INVARIANT GeneratorWellFormed\nINVARIANT Partition\nINVARIANT StockEqual\n"
                   "INVARIANT OnlyQuotedClosersDiffer\nINVARIANT SingleLineSame\nINVARIANT HandoverRefines\n"
                   "INVARIANT HandoverOffset\nINVARIANT Export\n")
    env_ = {"OUT": str(out)}
    env_.update(_java_env(w))
    r = tlc.require_ok(tlc.run("MC_C09", str(cfg), env=env_, workers=workers, heap="6g"), f"MC_C09 MaxSegs={maxsegs}")
    rows = tlc.read_ndjson(out)
    if len(rows) != r.distinct or len({tuple(x["ids"]) for x in rows}) != len(rows):
        raise MachineryError(f"MC_C09 export incomplete: {len(rows)} rows for {r.distinct} states")
    rows.sort(key=lambda x: (len(x["ids"]), x["ids"]))
    chk.add("states", r.distinct)
    chk.add("transitions", r.generated)
    chk.cov["theorems_checked_per_source"] = ["GeneratorWellFormed", "Partition", "StockEqual", "OnlyQuotedClosersDiffer",
                                              "SingleLineSame", "HandoverRefines", "HandoverOffset"]
    return rows


def replay_rows(chk: Check, rows: List[Dict[str, Any]], template_every: int = 1) -> None:
    """Run every exported source on the real code; mismatches are collected and classified by TLC."""
    pend_cases: List[Dict[str, Any]] = []
    pend_obs: List[Dict[str, Any]] = []
    n_zone = 0
    for n, row in enumerate(rows):
        if too_many_hangs():
            chk.add("aborted_after_hangs", 1)
            break
        text = text_of(row["chars"])
        nontrivial = len(row["toks"]) > 1
        chk.count(row["ids"], nontrivial=nontrivial)
        # --- the transcription of stock Django in the spec is faithful (else the theorems mean nothing)
        st_dbg, st_plain = stock_tokens(text, True)
        if not same_stream(st_dbg, st_plain, positions=False):
            raise MachineryError(f"stock Lexer and DebugLexer disagree on {text!r}")
        if not row["zone"]:
            agrees = same_stream(st_dbg, row["toks"])
            if agrees == bool(row["closer"]):
                # no quoted closer: must be equal; with a quoted closer: must differ (that is the feature)
                raise MachineryError(f"StockTokens transcription drift on {text!r}: stock={st_dbg} spec={row['toks']}")
        if row["sl"] == "stock":
            sl_dbg, _ = stock_tokens(text, False)
            if not same_stream(sl_dbg, row["sltoks"]):
                raise MachineryError(f"StockTokens(single-line) transcription drift on {text!r}")
        # --- the library
        for ml in (True, False):
            if ml:
                expect = None if row["zone"] else row["toks"]
            else:
                expect = {"same": None if row["zone"] else row["toks"], "stock": row["sltoks"], "open": None}[row["sl"]]
            obs = observe_parse(text, ml)
            case = {"kind": "mc-row", "ids": row["ids"], "chars": row["chars"], "ml": ml, "channel": "parse"}
            if expect is None:
                n_zone += 1
                pend_cases.append(case)
                pend_obs.append(obs)           # TLC decides: error or faithful partition
            elif obs["err"] or not same_stream(obs["toks"], expect):
                case["expect"] = expect
                pend_cases.append(case)
                pend_obs.append(obs)
            elif ml and obs["hastrail"] and len(obs["trail"]) != row["passes"]:
                chk.add("model_drift", 1)
            chk.add("replayed_parse_template", 1)
            # --- the patched Template compiles from the same stream, debug on and off
            if n % template_every == 0:
                for dbg in (False, True):
                    ch = "tmpl-debug" if dbg else "tmpl-nodebug"
                    o2 = observe_template(text, ml, dbg)
                    if o2["err"] != obs["err"] or not same_stream(o2["toks"], obs["toks"]):
                        c2 = dict(case, channel=ch)
                        if expect is not None:
                            c2["expect"] = expect
                        pend_cases.append(c2)
                        pend_obs.append(o2)
                    chk.add("replayed_template_compile", 1)
        if n % 997 == 0:
            chk.sample({"mc_row": {"ids": row["ids"], "text": text,
                                   "expected": [[t["t"], text_of(t["c"]), t["s"], t["e"], t["l"]] for t in row["toks"]]}}, limit=6)
    chk.add("zone_cases", n_zone)
    lines = [trace_line(i + 1, c, o) for i, (c, o) in enumerate(zip(pend_cases, pend_obs))]
    counters: Dict[str, int] = {}
    v = validate_parallel(lines, "c09cl", JOBS[0])
    apply_verdicts(chk, pend_cases, pend_obs, v, counters)
    chk.add("mismatches_classified_by_tlc", len(lines) - n_zone)
    for k, n in counters.items():
        chk.add("replay_verdict_" + k, n)


def handover_tlc(ex) -> Dict[str, Any]:
    """MC_C09H (TLC only; may run in a thread): the invariants of the loop hold without deviation;
    each deviation switched on alone must yield a counterexample."""
    w = workdir("c09h")

    def cfg(name: str, bounds, devs: str, invs: List[str]) -> Path:
        p = w / name
        p.write_text("SPECIFICATION HSpec\nCONSTANTS\n" + _bounds_cfg(_bounds(bounds)) + f"  Devs = {devs}\n  ML = TRUE\n"
                     + "".join(f"INVARIANT {i}\n" for i in invs))
        return p
    r = tlc.require_ok(tlc.run("MC_C09H", str(cfg("h.cfg", ex, "{}", ["OffsetInv", "ResumeInv", "Refines", "PrefixInv"])),
                               env=_java_env(w), workers=2), "MC_C09H without deviations")
    res: Dict[str, Any] = {"states": r.distinct, "transitions": r.generated, "cex": {}}
    for d in DEVS:
        # observable invariants only, so that the counterexample shows in the token stream
        r = tlc.run("MC_C09H", str(cfg(f"h_{d}.cfg", (3, [2, 4, 10, 12, 14, 15, 19]), '{"%s"}' % d, ["Refines", "PrefixInv"])),
                    env=_java_env(w), workers=1)
        if not r.violated:
            raise MachineryError(f"MC_C09H with deviation {d}: TLC found no counterexample\n" + r.out[-1500:])
        m = None
        for m in re.finditer(r"hids = <<([\d, ]*)>>", r.out):
            pass
        if m is None:
            raise MachineryError(f"MC_C09H {d}: cannot parse counterexample")
        res["cex"][d] = {"ids": [int(x) for x in m.group(1).split(",") if x.strip()], "violated": r.violated}
    return res


def handover_replay(chk: Check, res: Dict[str, Any]) -> None:
    """Design-level counterexamples (B with a deviation != A inside TLC) replayed on the real code:
    only the R != A outcome of that replay counts, classified like every other trace."""
    chk.add("states", res["states"])
    chk.add("transitions", res["transitions"])
    chk.add("handover_states", res["states"])
    cex = res["cex"]
    rows = {tuple(r_["ids"]): r_ for r_ in _rows_cache.get("rows", [])}
    cases, obss = [], []
    for d, c in cex.items():
        row = rows.get(tuple(c["ids"]))
        if row is None:
            raise MachineryError(f"counterexample {c['ids']} is not among the exported sources")
        cases.append({"kind": "tlc-counterexample", "dev": d, "ids": c["ids"], "ml": True, "channel": "parse",
                      "chars": row["chars"], "expect": row["toks"]})
        obss.append(observe_parse(text_of(row["chars"]), True))
    v = validate_batch([trace_line(i + 1, c, o) for i, (c, o) in enumerate(zip(cases, obss))], "c09hx")
    counters: Dict[str, int] = {}
    for i, c in enumerate(cases):
        c_v = v[i + 1]
        cex[c["dev"]]["real_code"] = c_v["kind"] + (":" + "+".join(c_v["devs"]) if c_v["devs"] else "")
        cex[c["dev"]]["reproduced_on_real_code"] = c["dev"] in c_v["devs"]
        cex[c["dev"]]["text"] = text_of(c["chars"])
    apply_verdicts(chk, cases, obss, v, counters)
    chk.cov["design_counterexamples"] = cex


_rows_cache: Dict[str, Any] = {}


# ---------------------------------------------------------------- code -> spec: deep random sources
LB, RB, PC, HS, DQ, SQ, BS, NL, SP, TAB = 123, 125, 37, 35, 34, 39, 92, 10, 32, 9


def _o(s: str) -> List[int]:
    return [ord(c) for c in s]


class Gen:
    """Random sources from the segment grammar of Lexer.tla (well-formed by construction; TLC
    re-checks WellFormed and that Flat(segs) is the text that was fed to the code)."""

    TEXT_BITS = ["a", "b", " ", "\n", '"', "'", "%}", "}}", "#}", "{ ", "{x", "%", "}", "\n\n", "p q", "\t",
                 "\r\n", "\u00e9", "\u2713"]
    WS = ["", " ", " ", " ", "\n", "  ", "\n  ", " \n", "\t", "\n\n ", "\r\n"]
    WS1 = [" ", " ", "\n", "  ", "\n  ", " \n ", "\t", "\r\n  "]
    PLAIN_BLOCK = ["c", "x", "k=v", "a.b", "w=5%x", "%", "50%", "x|f:y", "#", "5%", "k=", "/"]
    NAMES = ["c", "x", "k", "y"]
    # tag names that are near misses of "verbatim" / "endverbatim" (none of them opens a block: Lexer!OpensVerbatim)
    NM_NAMES = ["verbatimx", "verbatim_js", "verbatimize", "verbatim-block", "verbatims", "xverbatim", "_verbatim",
                "Verbatim", "verbati", "endverbatim", "endverbatimx", "endverbatim_js", "xendverbatim"]
    NM_SEP = ["\t", "\n", "\t ", "\n  ", "\r\n", "\n "]      # after the name "verbatim": anything but a space first
    STR_BITS = ["s", "a b", "%}", "}}", "{{ v }}", "{% x %}", "\n", "\\\n", "x\\\n y", '\\"', "\\'", "\\\\", "#}", "%", "{", " ", "{#", "\\n",
                "\u00e9", "\r\n"]

    def __init__(self, rnd: random.Random):
        self.r = rnd

    def ws(self, opt: bool = True) -> List[int]:
        return _o(self.r.choice(self.WS if opt else self.WS1))

    def text(self) -> Dict[str, Any]:
        n = self.r.randint(1, 4)
        return {"k": "text", "c": _o("".join(self.r.choice(self.TEXT_BITS) for _ in range(n)))}

    def strpart(self, o: int, brace: bool = True, closer: bool = True) -> Dict[str, Any]:
        q = self.r.choice([DQ, SQ])
        other = "'" if q == DQ else '"'
        bits = []
        for _ in range(self.r.randint(0, 3)):
            b = self.r.choice(self.STR_BITS + [other])
            if o != PC and (b in ("}}", "#}", "{{ v }}", "{#", "%}") or "%" in b or "#" in b):
                b = "s"
            if not brace and "{" in b:
                b = "t"
            if not closer and "%}" in b:
                b = "u"
            bits.append(b)
        body = "".join(bits)
        if not closer:
            body = body.replace("%}", "% }")
        if o != PC:
            body = body.replace("}}", "} }").replace("#}", "# }")
        return {"p": "str", "q": q, "c": _o(body)}

    def parts(self, o: int, quoted: float, first: Optional[str] = None, brace: bool = True,
              closer: bool = True) -> List[Dict[str, Any]]:
        ps: List[Dict[str, Any]] = []
        n = self.r.randint(1, 4)
        for i in range(n):
            if i == 0 and first is not None:
                ps.append({"p": "plain", "c": _o(first)})
            elif self.r.random() < quoted:
                ps.append(self.strpart(o, brace, closer))
            else:
                if ps and ps[-1]["p"] == "plain":
                    ps.append({"p": "ws", "c": self.ws(False)})
                if o == PC:
                    ps.append({"p": "plain", "c": _o(self.r.choice(self.PLAIN_BLOCK))})
                elif o == LB:
                    ps.append({"p": "plain", "c": _o(self.r.choice(["v", "v.x", "v|default:", "v|add:"]))})
                else:
                    ps.append({"p": "plain", "c": _o(self.r.choice(["c", "todo", "x=1"]))})
            if i < n - 1 and self.r.random() < 0.8:
                ps.append({"p": "ws", "c": self.ws(False)})
        while ps and ps[-1]["p"] == "ws":
            ps.pop()
        # no two adjacent ws / plain parts
        out: List[Dict[str, Any]] = []
        for p in ps:
            if out and out[-1]["p"] == p["p"] and p["p"] in ("ws", "plain"):
                continue
            out.append(p)
        return out

    def tag(self, o: int, quoted: float, first: Optional[str] = None, closer: bool = True) -> Dict[str, Any]:
        return {"k": "tag", "o": o, "lw": self.ws(), "parts": self.parts(o, quoted, first, closer=closer), "rw": self.ws()}

    def block(self, quoted: float, closer: bool = True) -> Dict[str, Any]:
        return self.tag(PC, quoted, first=self.r.choice(self.NAMES), closer=closer)

    def nearmiss(self, quoted: float, closer: bool = True) -> Dict[str, Any]:
        """A block tag that is NOT a verbatim tag but nearly one: a name with verbatim / endverbatim as proper
        prefix or suffix; the exact end tag (only ever generated where no block of that name is open); the
        name `verbatim` followed by tab / newline / CR or directly by a quote instead of a space."""
        x = self.r.random()
        if x < 0.6:
            return self.tag(PC, quoted, first=self.r.choice(self.NM_NAMES), closer=closer)
        rest = self.parts(PC, quoted, closer=closer)
        if x < 0.85:
            head = [{"p": "plain", "c": _o("verbatim")}, {"p": "ws", "c": _o(self.r.choice(self.NM_SEP))}]
        else:
            head = [{"p": "plain", "c": _o("verbatim")}, self.strpart(PC, closer=closer)]
            if rest and rest[0]["p"] == "plain":
                head.append({"p": "ws", "c": self.ws(False)})
        return {"k": "tag", "o": PC, "lw": self.ws(), "parts": head + rest, "rw": self.ws()}

    def near_closer(self, extra: List[Dict[str, Any]]) -> Dict[str, Any]:
        """Inside a verbatim block opened with `verbatim` + extra: an end tag that differs from the closing tag in
        the name, in the arguments or in the whitespace between them (extra is empty or [ws, argument])."""
        end = {"p": "plain", "c": _o("endverbatim")}
        opts = ["name", "more", "other"]
        if extra:
            opts += ["bare", "ws"]
        how = self.r.choice(opts)
        if how == "name":
            parts = [{"p": "plain", "c": _o(self.r.choice(["endverbatimx", "endverbatim_js", "xendverbatim", "endverbati"]))}] + extra
        elif how == "more":
            parts = [end] + extra + [{"p": "ws", "c": [SP]}, {"p": "plain", "c": _o("z")}]
        elif how == "other":
            parts = [end, {"p": "ws", "c": [SP]}, {"p": "str", "q": self.r.choice([DQ, SQ]), "c": _o("qq")}]
        elif how == "bare":
            parts = [end]
        else:
            other = [w for w in ([SP], [SP, SP], [TAB], [SP, TAB], [NL]) if w != extra[0]["c"]]
            parts = [end, {"p": "ws", "c": self.r.choice(other)}] + extra[1:]
        return {"k": "tag", "o": PC, "lw": self.ws(), "parts": json.loads(json.dumps(parts)), "rw": self.ws()}

    def verbatim(self, closed: bool = True) -> Dict[str, Any]:
        kind = self.r.choice(["", "", "n", "q", "q"])
        name: List[Dict[str, Any]] = [{"p": "plain", "c": _o("verbatim")}]
        endname: List[Dict[str, Any]] = [{"p": "plain", "c": _o("endverbatim")}]
        # between name and argument: a space first (else the tag does not open a block), then anything
        sep = _o(self.r.choice([" ", " ", " ", "  ", " \t", " \n", " \n  "]))
        if kind == "n":
            extra = [{"p": "ws", "c": sep}, {"p": "plain", "c": _o("blk")}]
        elif kind == "q":
            extra = [{"p": "ws", "c": sep}, {"p": "str", "q": self.r.choice([DQ, SQ]), "c": _o("q")}]
        else:
            extra = []
        opn = {"k": "tag", "o": PC, "lw": self.ws(), "parts": name + extra, "rw": self.ws()}
        cls = {"k": "tag", "o": PC, "lw": self.ws(), "parts": endname + extra, "rw": self.ws()}
        body = []
        for _ in range(self.r.randint(0, 4)):
            x = self.r.random()
            if x < 0.3:
                body.append(self.text())
            elif x < 0.5:
                body.append(self.tag(LB, 0.2))
            elif x < 0.6:
                body.append(self.tag(HS, 0.1))
            elif x < 0.7 and kind:
                body.append({"k": "tag", "o": PC, "lw": [SP], "parts": endname, "rw": [SP]})   # other block's end tag
            elif x < 0.8:
                body.append(self.near_closer(extra))
            elif x < 0.85:
                t = self.nearmiss(0.5, closer=False)
                if not kind and [p_["c"] for p_ in t["parts"]] == [_o("endverbatim")]:
                    t["parts"][0]["c"] = _o("endverbatimx")      # the bare end tag would close this block
                body.append(t)
            else:
                body.append(self.block(0.4, closer=False))
        body = self._fix_text_ends(body)
        return {"k": "verbatim", "open": opn, "body": body, "closed": closed,
                "close": cls if closed else {"k": "tag", "o": PC, "lw": [], "parts": [], "rw": []}}

    def tail(self) -> Dict[str, Any]:
        x = self.r.random()
        if x < 0.2:
            return self.verbatim(closed=False)
        o = self.r.choice([PC, PC, LB, HS])
        ps = [{"p": "ws", "c": self.ws(False)}] if self.r.random() < 0.7 else []
        ps += [p for p in self.parts(o, 0.3 if o == PC else 0.0, brace=False, closer=self.r.random() < 0.15)]
        # glue rules of the grammar
        out: List[Dict[str, Any]] = []
        for p in ps:
            if out and out[-1]["p"] == p["p"] and p["p"] in ("ws", "plain"):
                continue
            out.append(p)
        if o == PC and self.r.random() < 0.4:
            if out and out[-1]["p"] != "ws":
                out.append({"p": "ws", "c": [SP]})
            out.append({"p": "openq", "q": self.r.choice([DQ, SQ]), "c": _o(self.r.choice(["s", "s\nt", "a %} b", ""]))})
        return {"k": "tail", "o": o, "parts": out}

    def zone_block(self) -> Dict[str, Any]:
        t = self.block(0.3)
        if t["parts"] and t["parts"][-1]["p"] != "ws":
            t["parts"].append({"p": "ws", "c": [SP]})
        t["parts"].append({"p": "openq", "q": self.r.choice([DQ, SQ]), "c": _o(self.r.choice(["abc", "a b", ""]))})
        return t

    @staticmethod
    def _fix_text_ends(segs: List[Dict[str, Any]]) -> List[Dict[str, Any]]:
        for s in segs:
            if s["k"] == "text" and s["c"] and s["c"][-1] == LB:
                s["c"].append(SP)
        return segs

    def source(self, nmin: int, nmax: int, zone: float = 0.012) -> List[Dict[str, Any]]:
        n = self.r.randint(nmin, nmax)
        segs: List[Dict[str, Any]] = []
        style = self.r.random()
        quoted = 0.15 if style < 0.25 else 0.45
        for _ in range(n):
            x = self.r.random()
            if x < 0.28:
                segs.append(self.text())
            elif x < 0.38:
                segs.append(self.tag(LB, 0.2))
            elif x < 0.45:
                segs.append(self.tag(HS, 0.1))
            elif x < 0.52:
                segs.append(self.verbatim())
            elif x < 0.52 + zone:
                segs.append(self.zone_block())
            elif x < 0.62:
                segs.append(self.nearmiss(0.6))
            else:
                segs.append(self.block(quoted))
        if self.r.random() < 0.2:
            segs.append(self.tail())
        return self._fix_text_ends(segs)


def flat_py(segs: List[Dict[str, Any]]) -> List[int]:
    """The harness' own flattening (TLC checks it against Flat)."""
    def parts(ps):
        out: List[int] = []
        for p in ps:
            if p["p"] == "str":
                out += [p["q"]] + p["c"] + [p["q"]]
            elif p["p"] == "openq":
                out += [p["q"]] + p["c"]
            else:
                out += p["c"]
        return out

    def tag(t):
        close = {PC: PC, LB: RB, HS: HS}[t["o"]]
        return [LB, t["o"]] + t["lw"] + parts(t["parts"]) + t["rw"] + [close, RB]
    out: List[int] = []
    for s in segs:
        if s["k"] == "text":
            out += s["c"]
        elif s["k"] == "tag":
            out += tag(s)
        elif s["k"] == "tail":
            out += [LB, s["o"]] + parts(s["parts"])
        else:
            out += tag(s["open"]) + flat_py(s["body"]) + (tag(s["close"]) if s["closed"] else [])
    return out


PROBE_SEG = {"k": "tag", "o": PC, "lw": [SP], "parts": [{"p": "plain", "c": _o("zzunknown")}], "rw": [SP]}


def deep_traces(chk: Check, ntraces: int, nmin: int, nmax: int) -> None:
    rnd = random.Random(chk.seed * 1000003 + 9)
    g = Gen(rnd)
    cases, obss = [], []
    msg_checked = 0
    for i in range(ntraces):
        if too_many_hangs():
            chk.add("aborted_after_hangs", 1)
            break
        segs = g.source(nmin, nmax)
        x = rnd.random()
        channel = "parse" if x < 0.6 else ("tmpl-debug" if x < 0.8 else "tmpl-nodebug")
        ml = rnd.random() < 0.85
        closed = not (segs and (segs[-1]["k"] == "tail" or (segs[-1]["k"] == "verbatim" and not segs[-1]["closed"])))
        probe = channel != "parse" and closed and rnd.random() < 0.7
        if probe:
            segs = segs + [json.loads(json.dumps(PROBE_SEG))]
        chars = flat_py(segs)
        text = text_of(chars)
        case = {"kind": "deep", "segs": segs, "chars": chars, "ml": ml, "channel": channel, "n": i}
        obs = observe(text, ml, channel)
        cases.append(case)
        obss.append(obs)
        chk.count([chars, ml, channel])
        # the line named in the error message is the lineno of the token the parser failed on, and
        # template_debug points at that token's span (both validated through the tokens by TLC)
        if probe and obs.get("msg") and "zzunknown" in obs["msg"] and obs["toks"]:
            last = obs["toks"][-1]
            msg_checked += 1
            if obs.get("msg_line") != last["l"]:
                chk.violation({"kind": "deep-msg", "text": text, "ml": ml, "channel": channel},
                              {"message": obs["msg"], "last_token_lineno": last["l"]})
            if channel == "tmpl-debug" and obs.get("debug_during") is not None \
                    and obs["debug_during"] != text[last["s"]:last["e"]]:
                chk.violation({"kind": "deep-debug", "text": text, "ml": ml, "channel": channel},
                              {"during": obs["debug_during"], "token_span": text[last["s"]:last["e"]]})
        if i < 3:
            chk.sample({"deep_trace": {"text": text, "ml": ml, "channel": channel, "err": obs["err"],
                                       "observed": [[t["t"], text_of(t["c"]), t["s"], t["e"], t["l"]] for t in obs["toks"]][:8]}}, limit=9)
    counters: Dict[str, int] = {}
    lines = [trace_line(j + 1, c, o) for j, (c, o) in enumerate(zip(cases, obss))]
    v = validate_parallel(lines, "c09deep", JOBS[0])
    apply_verdicts(chk, cases, obss, v, counters)
    chk.add("traces_validated_against_impl", len(cases))
    chk.add("error_message_lines_checked", msg_checked)
    for k, n in counters.items():
        chk.add("deep_verdict_" + k, n)


# ---------------------------------------------------------------- entry points
A14 = [2, 4, 5, 9, 10, 11, 12, 13, 14, 15, 17, 19, 22, 24]
A8 = [2, 4, 10, 12, 14, 15, 19, 20]
F3Q = NEAR + [2, 4, 10]                              # near misses + text with a newline, {{ v }}, a quoted block tag
F3T = NEAR + [2, 4, 6, 8, 10, 12, 17, 19, 20, 24]
F4T = [4, 10, 19, 26, 28, 32, 33]


def core(chk: Check, exports: List[tuple], ntraces: int, nmin: int, nmax: int,
         workers: int = 4, template_every: int = 1, machine: Any = (2, None)) -> None:
    """exports: (MaxSegs, atom subset or None = all 35[, FocusSegs, focus atoms[, pair atoms]]) per exhaustive
    TLC enumeration (see _bounds); machine: the same for MC_C09H, or 0 = skip."""
    import time
    env().hangs = 0
    ph = chk.cov.setdefault("phase_s", {})
    fut = pool = None
    if machine:
        from concurrent.futures import ThreadPoolExecutor
        pool = ThreadPoolExecutor(max_workers=1)
        fut = pool.submit(handover_tlc, machine)      # TLC runs while the rows are replayed
    seen: set = set()
    allrows: List[Dict[str, Any]] = []
    bounds = []
    for ex in exports:
        t = time.time()
        rows = export_cases(chk, ex, workers)
        ph["tlc_enumerate_theorems_export"] = round(ph.get("tlc_enumerate_theorems_export", 0) + time.time() - t, 1)
        t = time.time()
        fresh = [r for r in rows if tuple(r["ids"]) not in seen]
        seen.update(tuple(r["ids"]) for r in fresh)
        allrows += fresh
        b = _bounds(ex)
        bounds.append({"max_segments": b["n"], "atoms": "all 35" if b["atoms"] == ALL else b["atoms"],
                       "focus_max_segments": b["fn"], "focus_atoms": b["fatoms"],
                       "pair_atoms": "all 35" if b["pairs"] == ALL else b["pairs"],
                       "sources": len(rows), "new": len(fresh)})
        replay_rows(chk, fresh, template_every)
        ph["replay_and_classify"] = round(ph.get("replay_and_classify", 0) + time.time() - t, 1)
    chk.cov["exhaustive_bounds"] = bounds
    _rows_cache["rows"] = allrows
    t = time.time()
    if fut is not None:
        handover_replay(chk, fut.result())
        pool.shutdown()
        ph["handover_machine_wait"] = round(time.time() - t, 1)
    t = time.time()
    if ntraces:
        deep_traces(chk, ntraces, nmin, nmax)
        ph["deep_traces"] = round(time.time() - t, 1)
    E = env()
    if E.channel_unavailable:
        chk.cov["channel_unavailable"] = dict(E.channel_unavailable)


def run(tier: str) -> int:
    env()
    chk = Check(PID, tier, "model_checking")
    quick = tier == "quick"
    if quick:
        JOBS[0] = 4
        core(chk, [(3, BASE, 3, F3Q, ALL)], ntraces=1200, nmin=4, nmax=12, workers=4, machine=(2, None))
    else:
        JOBS[0] = 8
        core(chk, [(3, BASE, 3, F3T, ALL), (4, A14, 4, F4T), (5, A8)], ntraces=10000, nmin=4, nmax=14, workers=8,
             template_every=3, machine=(3, BASE, 3, F3T, ALL))
    chk.cov["exhaustive"] = True
    chk.cov["rule"] = ("every source of <= N atoms (35 concrete segments of specs/LexerAtoms.tla: 25 base atoms + 10 near misses "
                       "of the verbatim state machine; the 25 base atoms to N=3, the near misses + followers to N=3, all 35 "
                       "to N=2; thorough also 14 base atoms and 7 incl. near misses to N=4 and 8 atoms to N=5, see "
                       "exhaustive_bounds) "
                       "enumerated by TLC, theorems checked per source, each replayed on parse_template (+ patched "
                       "Template, debug on/off) under tag_re DOTALL and stock; seeded random sources of 4..14 grammar "
                       "segments validated by Trace_C09. Non-trivial = expected stream has more than one token; "
                       "distinct by hash of the abstract case")
    chk.assumptions += [
        "characters are code points (incl. non-ASCII); whitespace inside tags is limited to space, tab, CR, newline",
        "oracle zone (TemplateSyntaxError or any faithful partition accepted): unbalanced quote in a block tag; "
        "unterminated tag containing a quoted '%}'; multiline_tags=False with a quoted tag spanning a line break",
        "not generated: quoted '%}' inside a verbatim body; text run ending in '{'",
        "multiline_tags on/off is exercised by rebinding django.template.base.tag_re exactly as apps.py does",
        "the hand-over trail (DebugLexer constructions, _detailed_tag_parser calls) is an auxiliary channel: "
        "disagreement is counted as model_drift, never a verdict",
    ]
    return chk.finish()


def replay(path: str) -> int:
    """Re-execute one stored case on the real code and let TLC judge it again."""
    env()
    d = json.load(open(path))
    case = d["case"]
    if "chars" not in case:
        print("case carries no abstract source; re-run the check with the same VERIF_SEED")
        return 2
    c = {"chars": case["chars"], "ml": case["ml"], "channel": case.get("channel", "parse")}
    if "ids" in case:
        c["ids"] = case["ids"]
    else:
        c["segs"] = case["segs"]
    obs = observe(text_of(c["chars"]), c["ml"], c["channel"])
    v = validate_batch([trace_line(1, c, obs)], "c09rp")[1]
    print(json.dumps({"text": text_of(c["chars"]), "ml": c["ml"], "channel": c["channel"], "verdict": v,
                      "observed": {"err": obs["err"],
                                   "toks": [[t["t"], text_of(t["c"]), t["s"], t["e"], t["l"]] for t in obs["toks"]]}},
                     indent=1, ensure_ascii=False))
    return 0 if v["kind"] == "ACCEPT" else 1


# ---------------------------------------------------------------- selftest
def _mutant_module(replacements: List[Tuple[str, str]]):
    """A copy of django_components.util.template_parser compiled in-process from its current
    source with `replacements` applied (never written anywhere)."""
    import inspect
    import types
    E = env()
    src = inspect.getsource(E.tp)
    for old, new in replacements:
        if src.count(old) != 1:
            raise MachineryError(f"probe inapplicable: pattern occurs {src.count(old)}x: {old[:50]!r}")
        src = src.replace(old, new)
    mod = types.ModuleType("vf_c09_mutant_template_parser")
    mod.__dict__["__name__"] = "vf_c09_mutant_template_parser"
    exec(compile(src, "<mutant template_parser>", "exec"), mod.__dict__)
    return mod


@contextmanager
def _use_parser(mod):
    E = env()
    old_tp, old_dm = E.tp.parse_template, E.dm.parse_template
    old_det = E.tp._detailed_tag_parser
    E.tp.parse_template = mod.parse_template
    E.dm.parse_template = mod.parse_template
    try:
        yield
    finally:
        E.tp.parse_template, E.dm.parse_template = old_tp, old_dm
        E.tp._detailed_tag_parser = old_det


def _src_probe(*replacements: Tuple[str, str]):
    def cm():
        return _use_parser(_mutant_module(list(replacements)))
    return cm


@contextmanager
def _stock_lexer_when_not_debug():
    """compile_nodelist uses our parser only with engine.debug, the stock Lexer otherwise."""
    E = env()
    T = E.tb.Template
    old = T.compile_nodelist
    from django.template.base import Lexer

    real = E.dm.parse_template

    def pick(source):
        import sys
        f = sys._getframe(1)
        self = f.f_locals.get("self")
        if self is not None and not self.engine.debug:
            return Lexer(source).tokenize()
        return real(source)
    E.dm.parse_template = pick
    try:
        yield
    finally:
        E.dm.parse_template = real
        T.compile_nodelist = old


def _corrupted_traces_rejected() -> List[Tuple[str, bool]]:
    """Corrupt one field of a good recorded trace; TLC must reject it with the right clause."""
    rows = {tuple(r["ids"]): r for r in _rows_cache.get("rows", [])}
    row = rows.get((4, 2))           # {{ v }}x\ny : no quoted tag, so no deviation can explain anything
    if row is None:
        raise MachineryError("selftest needs the exported rows")
    base = {"ids": row["ids"], "chars": row["chars"], "ml": True}
    good = observe_parse(text_of(row["chars"]), True)
    out = []
    muts = {"lineno": lambda t: t[-1].__setitem__("l", t[-1]["l"] + 1),
            "span": lambda t: (t[0].__setitem__("e", t[0]["e"] - 1), t[1].__setitem__("s", t[1]["s"] - 1)),
            "contents": lambda t: t[0].__setitem__("c", t[0]["c"] + [32]),
            "type": lambda t: t[0].__setitem__("t", "COMMENT"),
            "count": lambda t: t.pop()}
    lines = [trace_line(1, base, good)]
    names = ["(uncorrupted)"]
    for name, f in muts.items():
        o = json.loads(json.dumps(good))
        f(o["toks"])
        lines.append(trace_line(len(lines) + 1, base, o))
        names.append(name)
    v = validate_batch(lines, "c09cor")
    out.append(("uncorrupted trace accepted", v[1]["kind"] == "ACCEPT"))
    for i, name in enumerate(names[1:], start=2):
        out.append((f"corrupt {name}: rejected with clause {name}", v[i]["kind"] == "REJECT" and name in v[i]["clauses"]))
    return out


def selftest(tier: str) -> int:
    """In-process mutation probes (realistic bugs, never written to /repo) + corrupted traces."""
    from .core import run_probes
    env()

    def body(chk: Check) -> None:
        core(chk, [(2, None)], ntraces=350, nmin=4, nmax=10, workers=4, machine=0)

    probes = [
        ("positions-not-shifted-after-handover",
         _src_probe(("token.position = (token.position[0] + index_start, token.position[1] + index_start)",
                     "token.position = (token.position[0], token.position[1])"))),
        ("contents-not-stripped",
         _src_probe(('result_str = "".join(result_content).strip()', 'result_str = "".join(result_content)'))),
        ("escapes-in-strings-ignored",
         _src_probe(("content = take_until_any((quote_char,), allow_escapes=True)",
                     "content = take_until_any((quote_char,), allow_escapes=False)"))),
        ("single-quotes-not-strings",
         _src_probe(("QUOTE_CHARS = (\"'\", '\"')", "QUOTE_CHARS = ('\"',)"))),
        ("lineno-never-offset",
         _src_probe(("token.lineno += lineno_offset", "token.lineno += 0"))),
        ("handover-only-for-double-quotes",
         _src_probe(("(\"'\" in token.contents or '\"' in token.contents)", "('\"' in token.contents)"))),
        ("resume-at-stock-token-end",
         _src_probe(("index_start = fixed_token.position[1]", "index_start = broken_token.position[1]"))),
        ("fixed-token-lineno-is-local",
         _src_probe(("_detailed_tag_parser(text[broken_token_start:], broken_token.lineno, broken_token_start)",
                     "_detailed_tag_parser(text[broken_token_start:], broken_token.lineno - lineno_offset, broken_token_start)"))),
        ("end-position-excludes-closer",
         _src_probe(("(start_index, index + start_index)", "(start_index, index + start_index - 2)"))),
        ("stock-lexer-when-engine-not-debug", _stock_lexer_when_not_debug),
        ("verbatim-handover-by-name-prefix",         # {% verbatim_js "q" %} switches to verbatim mode
         _src_probe(('is_verbatim = fixed_token.contents[:9] in ("verbatim", "verbatim ")',
                     'is_verbatim = fixed_token.contents.startswith("verbatim")'))),
        ("verbatim-handover-by-first-word",          # {% verbatim\t"q" %} does (stock: only "verbatim" + space)
         _src_probe(('is_verbatim = fixed_token.contents[:9] in ("verbatim", "verbatim ")',
                     'is_verbatim = fixed_token.contents.split()[0] == "verbatim"'))),
        ("verbatim-handover-end-tag-by-name",        # closes at any {% endverbatim ... %}: seeds only the tag name
         _src_probe(('verbatim = "end%s" % fixed_token.contents if is_verbatim else None',
                     'verbatim = "endverbatim" if is_verbatim else None'))),
    ]
    rc = run_probes(PID, probes, body)
    ok = True
    for what, good in _corrupted_traces_rejected():
        print(f"  trace {what}: {'ok' if good else 'FAILED'}")
        ok = ok and good
    return 0 if (rc == 0 and ok) else 1
