"""C14 - root elements of a component instance, and only they, carry its render id.

Specification: specs/DjcSemantics.tla computes, for every HTML element occurrence of the page,
the set of component instances it is a root of (Roots: elements at nesting depth 0 of an
instance's OUTPUT - of its template, of slot content placed at depth 0, and transitively of a
component placed at depth 0).  specs/MC_Djc.tla (alphabet "elems") enumerates every page up to
a node bound over a library with 0..n roots, text-only components, component-as-root chains,
roots coming from fills, defaults and loops.

spec -> code: every enumerated page rendered; final HTML parsed with html.parser: the ordered
              list of element occurrences with their data-djc-id-* attributes must equal the
              specification's (elems, marks) through the ids echoed by Component.id.
code -> spec: random programs with elements anywhere; deep chains (thorough: depth 2000
              inside a wrapper element, depth 300 as root) whose expectation is the closed form
              the specification yields for chains, cross-checked by TLC for small depths; the same
              chains with every level rendering its child inside a {% for %} loop (the loop state
              `forloop.parentloop` is then as deep as the nesting).

Entry points of a render (configuration space `via`, see the comment at EvalComp in DjcSemantics.tla).
The specification's render - a component node of the page, identified by its position - does not say
HOW the render was requested: through the {% component %} tag, or through the Python API
(`Component.render()` / `render_to_response()` "may be called as class method or as instance method",
`Component.as_view()` makes ONE instance answer every request).  A page-level component node without a
body may therefore carry the optional field via in {"fresh", "inst", "resp", "view"}: the harness then renders
that node through the Python API and puts the returned HTML into the page at the node's position -
  fresh: a new instance per render;  inst: ONE instance per component class of the page, `instance.render()`
  for every node (and every loop iteration) of that class;  resp: the same instance, `render_to_response()`;
  view: `instance.as_view()` once, one test request per render (kwargs travel in the query string).
The expected page is what the specification says for the SAME program (the field is ignored by Run): every
render is an instance of its own with its own id, ids pairwise distinct, the roots of render k carry id k
only.  What the callee sees of the caller: in django mode the caller's Context is handed over as
`context=` unless the node is flagged `only` - a Python-API render that is handed no context is
exactly the specification's `only` call (sees nothing of the caller); in isolated mode no context is handed
over (the documentation says it would not be accessible; that it is, is C03's known finding).
Left out: nodes inside component bodies / fills (a Python-API render started while another component is being
rendered joins or does not join its render queue - the property text does not say), bodies given as `slots=`.
"""
from __future__ import annotations

import json
import random
import re
import zlib
from html.parser import HTMLParser
from typing import Any, Dict, List, Optional, Tuple

from . import djc, prog as P, tlc
from .core import Check, MachineryError
from .pool import guarded, pmap

PID = "C14"


class _Elems(HTMLParser):
    def __init__(self):
        super().__init__(convert_charrefs=True)
        self.elems: List[Tuple[str, List[str]]] = []
        self.stray: List[str] = []

    def handle_starttag(self, tag, attrs):
        ids = sorted(k[len("data-djc-id-"):] for k, _ in attrs if k.startswith("data-djc-id-"))
        e = dict(attrs).get("data-e")
        if e is None:
            if tag != "template" or ids:
                self.stray.append(tag)
            return
        self.elems.append((e, ids))


# ------------------------------------------------------------------ Python-API entry points (`via`)
API_DRIVERS = ("inst", "resp", "view", "fresh")
_API: Dict[str, Any] = {}
_SCRIPT_RE = re.compile(r"<script\b.*?</script>|<link\b[^>]*>|<style\b.*?</style>", re.S)


def api_nodes(nodes: List[Dict[str, Any]]) -> List[Dict[str, Any]]:
    """Component nodes a caller can render through the Python API and paste into the page: no body, lexically
    at page level (under text / if / for / with / elements, never inside a component body)."""
    out = []
    for n in nodes:
        if n["t"] == "comp":
            if n["body"] == "none":
                out.append(n)
        else:
            for key in ("a", "b"):
                if isinstance(n.get(key), list):
                    out += api_nodes(n[key])
    return out


def api_variant(prog: Dict[str, Any], pid: int, rnd: random.Random, drivers=API_DRIVERS, bare: float = 0.3) -> Dict[str, Any]:
    """The same program with every eligible node rendered through a Python-API entry point (drawn per node);
    in django mode some nodes are rendered without a context (= the specification's `only`)."""
    q = json.loads(json.dumps(prog))
    q["id"] = pid
    for n in api_nodes(q["page"]):
        n["via"] = rnd.choice(drivers)
        if q["mode"] == "django" and rnd.random() < bare:
            n["only"] = True
    return q


def has_via(prog) -> bool:
    return any(n.get("via") for n in api_nodes(prog["page"]))


def _api_lib():
    from django.template.library import Library
    from django.utils.safestring import mark_safe
    lib = Library()

    @lib.simple_tag(takes_context=True)
    def vf_api(context, k, **kw):
        from django.test import RequestFactory
        st = _API
        node = st["calls"][k]
        c, drv = node["c"], node["via"]
        cls = st["classes"][c - 1]
        # django mode: the caller hands its Context on (the same layers a {% component %} tag at this place sees)
        ctx = context if (st["mode"] == "django" and not node["only"]) else None
        kwargs = dict(kw)
        if drv == "fresh":
            return mark_safe(cls(registry=st["reg"]).render(context=ctx, kwargs=kwargs, render_dependencies=False))
        if c not in st["inst"]:
            st["inst"][c] = cls(registry=st["reg"])       # ONE instance per class serves every render of the page
        inst = st["inst"][c]
        if drv == "inst":
            html = inst.render(context=ctx, kwargs=kwargs, render_dependencies=False)
        elif drv == "resp":
            html = inst.render_to_response(context=ctx, kwargs=kwargs).content.decode()
        else:
            if c not in st["views"]:
                st["views"][c] = inst.as_view()
            st["ctx"] = ctx
            html = st["views"][c](RequestFactory().get("/vf", kwargs)).content.decode()
        return mark_safe(html)
    return lib


def _view_get(self, request):
    """The GET handler of every generated component (used by the `view` driver only)."""
    return self.render_to_response(context=_API.get("ctx"), kwargs=dict(request.GET.items()))


def _api_page_src(prog) -> Tuple[str, List[Dict[str, Any]]]:
    """Page source in which every `via` node is a {% vf_api k ... %} tag (the caller pasting the API result)."""
    calls: List[Dict[str, Any]] = []

    def walk(nodes):
        out = []
        for n in nodes:
            if n["t"] == "comp":
                if n.get("via"):
                    calls.append(n)
                    out.append({"t": "text", "id": "@API%d@" % (len(calls) - 1)})
                else:
                    out.append(n)
            else:
                m = dict(n)
                for key in ("a", "b"):
                    if isinstance(m.get(key), list):
                        m[key] = walk(m[key])
                out.append(m)
        return out
    src = P.page_src(dict(prog, page=walk(prog["page"])))
    for k, n in enumerate(calls):
        src = src.replace("[@API%d@]" % k, "{%% vf_api %d%s %%}" % (k, P._kw_src(n["kw"])))
    return "{% load vf_c14 %}" + src, calls


def _render_api(prog) -> str:
    from django.template import Context, Template, engines
    eng = engines["django"].engine
    if "vf_c14" not in eng.template_libraries:
        eng.template_libraries["vf_c14"] = _api_lib()
    reg, _ = P.registry(prog["mode"])
    classes = P.install(prog, extra={i: {"get": _view_get} for i in range(1, len(prog["comps"]) + 1)})
    src, calls = _api_page_src(prog)
    _API.clear()
    _API.update(calls=calls, classes=classes, reg=reg, mode=prog["mode"], inst={}, views={}, ctx=None)
    try:
        return _SCRIPT_RE.sub("", Template(src).render(Context(P.page_context(prog))))
    finally:
        _API.clear()


def observe(prog) -> Dict[str, Any]:
    """Real render: element occurrences (document order) with their id attributes + token stream."""
    from django.template import Context, Template
    P.reset_library_state()
    via = has_via(prog)
    if not via:
        P.install(prog)
    try:
        html = _render_api(prog) if via else Template(P.page_src(prog)).render(Context(P.page_context(prog)))
    except Exception as e:  # noqa: BLE001
        return {"err": type(e).__name__, "msg": str(e)[:300], "out": [], "junk": "", "elems": []}
    finally:
        dirty = P.reset_library_state()
    pr = _Elems()
    pr.feed(html)
    toks = P.TOKEN_RE.findall(P.RENDERED_RE.sub("", html))
    leftovers = [m for m in ("djc-render-id", "<template") if m in html]
    return {"err": "", "out": toks, "junk": "", "elems": [[e, ids] for e, ids in pr.elems], "leftovers": leftovers,
            "child_attrs_left": "child_component_attrs" in dirty, "html": html[:2000]}


def compare(p, e, o) -> Optional[Dict[str, Any]]:
    """Expected (elems, marks) vs observed attributes, through the echoed Component.id values."""
    if o.get("hang"):
        return {"what": "hang"}
    if e["err"]:
        return None if (o["err"] == e["err"] or o["err"] in e.get("errs", [])) else \
            {"what": "error-class", "expected": e["err"], "observed": o["err"], "msg": o.get("msg")}
    if o["err"]:
        return {"what": "unexpected-error", "observed": o["err"], "msg": o.get("msg")}
    # map instance keys <-> real render ids through the cid echoes (same position in both streams)
    if len(e["out"]) != len(o["out"]):
        return {"what": "tokens-length", "expected": e["out"], "observed": o["out"]}
    inst2real: Dict[str, str] = {}
    for a, b in zip(e["out"], o["out"]):
        if a.startswith("cid=") or a.startswith("me.id="):
            pre = a[:a.index("=") + 1]
            if not b.startswith(pre):
                return {"what": "tokens", "expected": a, "observed": b}
            k, rid = a[len(pre):], b[len(pre):]
            if inst2real.setdefault(k, rid) != rid:
                return {"what": "Component.id-not-stable-for-instance", "instance": k}
        elif a != b:
            return {"what": "tokens", "expected": a, "observed": b, "expected_out": e["out"], "observed_out": o["out"]}
    reals = list(inst2real.values())
    if len(set(reals)) != len(reals):
        return {"what": "render-ids-not-distinct", "ids": reals}
    if [x[0] for x in e["elems"]] != [x[0] for x in o["elems"]]:
        return {"what": "element-sequence", "expected": [x[0] for x in e["elems"]], "observed": [x[0] for x in o["elems"]]}
    # Instances whose template echoes no Component.id (silent wrappers: output = nested components only) are
    # matched to the remaining, un-echoed ids by unification: one consistent, injective assignment must exist.
    want: Dict[str, set] = {}
    silent: Dict[str, set] = {}
    for occ, inst in e["marks"]:
        if inst in inst2real:
            want.setdefault(occ, set()).add(inst2real[inst].lower())   # html.parser lower-cases attribute names
        else:
            silent.setdefault(occ, set()).add(inst)
    known = {r.lower() for r in inst2real.values()}
    pending = []
    for (eid, occ), (_, ids) in zip(e["elems"], o["elems"]):
        got_known = set(ids) & known
        unknown = set(ids) - known
        if got_known != want.get(occ, set()) or len(unknown) != len(silent.get(occ, set())):
            return {"what": "ids-on-element", "element": eid, "occurrence": occ,
                    "expected": sorted(want.get(occ, set())), "expected_silent_instances": sorted(silent.get(occ, set())),
                    "observed": ids, "id_of_instance": inst2real}
        if unknown:
            pending.append((eid, occ, set(silent[occ]), unknown))
    s2u: Dict[str, str] = {}
    u2s: Dict[str, str] = {}
    progress = True
    while progress and pending:
        progress = False
        rest = []
        for eid, occ, S, U in pending:
            for s in list(S):
                if s in s2u:
                    if s2u[s] not in U:
                        return {"what": "ids-on-element", "element": eid, "occurrence": occ,
                                "detail": f"silent instance {s} carries id {s2u[s]} elsewhere but not here", "observed": sorted(U)}
                    S.discard(s)
                    U.discard(s2u[s])
            for u in list(U):
                if u in u2s:     # an id already assigned to another instance shows up where that instance has no root
                    return {"what": "ids-on-element", "element": eid, "occurrence": occ,
                            "detail": f"id {u} of silent instance {u2s[u]} on an element that is not one of its roots"}
            if len(S) == 1 and len(U) == 1:
                s, u = next(iter(S)), next(iter(U))
                s2u[s], u2s[u] = u, s
                progress = True
            elif S:
                rest.append((eid, occ, S, U))
        pending = rest
    if o.get("leftovers"):
        return {"what": "placeholder-left-in-output", "found": o["leftovers"]}
    if o.get("child_attrs_left"):
        return {"what": "child_component_attrs-not-consumed"}
    return None


def run_batch(chk: Check, progs, exp, label: str) -> Dict[str, int]:
    obs = pmap(observe, progs, workers=12)
    for k, o in enumerate(obs):
        if o.get("hang"):      # a stalled (overloaded) machine is not a hang: once more, alone, with a generous budget
            obs[k] = guarded(observe, progs[k], 120.0)
            chk.add("watchdog_retries", 1)
    # compare_batch's primary comparison is the C14 one (ids differ between runs, so no raw token equality)
    stats = {"ok": 0, "zone": 0, "bad": 0}
    keep_p, keep_o = [], []
    for p, o in zip(progs, obs):
        keep_p.append(p)
        keep_o.append(o)
    real_mismatch = djc.mismatch
    try:
        djc.mismatch = lambda e, o: compare(None, e, o)      # type: ignore
        st = djc.compare_batch(chk, keep_p, exp, keep_o, label)
    finally:
        djc.mismatch = real_mismatch
    return st


def chain_program(depth: int, as_root: bool, mode: str, loop: bool = False) -> Dict[str, Any]:
    """c_i renders c_{i+1}: inside a wrapper element (as_root=False) or as its own root (as_root=True);
    the last component has one root element.  Components are c1..c<depth>.
    loop: every level renders its child inside {% for i in one %} over a one-element list it received as a
    keyword argument and hands on (so the chain also loops in isolated mode): components "rendered in loops"
    at every nesting level - `forloop.parentloop` is then a chain as long as the nesting is deep."""
    kw = [["one", P.V("one")]] if loop else []
    comps = []
    for i in range(1, depth + 1):
        inner = {"t": "comp", "c": i + 1, "kw": kw, "only": False, "body": "none", "a": []} if i < depth else \
            {"t": "elem", "id": "leaf", "a": []}
        if loop and i < depth:
            inner = {"t": "for", "x": "i", "xs": "one", "a": [inner]}
        tpl = [{"t": "var", "x": "cid"}]
        tpl.append(inner if (as_root or i == depth) else {"t": "elem", "id": f"w{i}", "a": [inner]})
        data = [P.datadef("cid", "id")] + ([P.datadef("one", "kwarg", a="one")] if loop else [])
        comps.append({"data": data, "tpl": tpl, "assets": P.no_assets()})
    return {"id": depth * 10 + (1 if as_root else 0) + (2 if loop else 0), "mode": mode, "devs": [], "dyn": False, "pyctx": False,
            "ctx": [["one", P.L(["o1"])]] if loop else [], "comps": comps,
            "page": [{"t": "comp", "c": 1, "kw": kw, "only": False, "body": "none", "a": []}]}


def chain_expected(depth: int, as_root: bool, loop: bool = False) -> Dict[str, Any]:
    """Closed form of Run for chain programs (the form TLC's results have for small depths)."""
    # instance path of c_i: page node 1, then per level node 2 of the template (inside the wrapper: child 1;
    # inside a loop: iteration 1, node 1)
    step = ([2] if as_root else [2, 1]) + ([1, 1] if loop else [])

    def key(path):
        return "<<" + ", ".join(map(str, path)) + ">>"

    def inst(i):
        return key([1] + step * (i - 1))
    out = [f"cid={inst(i)}" for i in range(1, depth + 1)]
    elems, marks = [], []
    leaf_occ = key([1] + step * (depth - 1) + [2])
    if as_root:
        elems = [["leaf", leaf_occ]]
        marks = [[leaf_occ, inst(i)] for i in range(depth, 0, -1)]
    else:
        for i in range(1, depth):
            occ = key([1] + step * (i - 1) + [2])
            elems.append([f"w{i}", occ])
            marks.append([occ, inst(i)])
        elems.append(["leaf", leaf_occ])
        marks.append([leaf_occ, inst(depth)])
    return {"out": out, "err": "", "errs": [], "zone": False, "insts": [[i, i] for i in range(depth)], "elems": elems,
            "marks": marks}


def deep_chains(chk: Check, depths_wrapped: List[int], depths_root: List[int], depths_wloop: List[int] = (),
                depths_rloop: List[int] = ()) -> None:
    # the closed form is checked against TLC for small depths first (binding of the formula to the spec)
    small = [chain_program(d, r, "django", lp) for d in (1, 2, 3, 5, 8) for r in (False, True) for lp in (False, True)]
    small += [chain_program(d, r, "isolated", True) for d in (2, 5) for r in (False, True)]
    cfg = {}
    for k, p in enumerate(small):
        cfg[k + 1] = (p["id"] // 10, bool(p["id"] % 10 & 1), bool(p["id"] % 10 & 2))
        p["id"] = k + 1
    exp = djc.oracle(small)
    for p in small:
        d, r, lp = cfg[p["id"]]
        e, f = exp[p["id"]], chain_expected(d, r, lp)
        if (e["out"], e["elems"], sorted(map(tuple, e["marks"]))) != (f["out"], f["elems"], sorted(map(tuple, f["marks"]))):
            raise MachineryError(f"closed form for chains disagrees with the specification at depth {d} as_root={r} loop={lp} "
                                 f"mode={p['mode']}")
    cases = [(d, False, False) for d in depths_wrapped] + [(d, True, False) for d in depths_root] + \
            [(d, False, True) for d in depths_wloop] + [(d, True, True) for d in depths_rloop]
    progs = [chain_program(d, r, P.MODES[i % 2], lp) for i, (d, r, lp) in enumerate(cases)]
    expd = [chain_expected(d, r, lp) for (d, r, lp) in cases]
    obs = pmap(observe, progs, workers=4, per_item_s=300, chunk=1)
    for p, o, e, (d, r, lp) in zip(progs, obs, expd, cases):
        chk.count(["chain", d, r, lp, p["mode"]])
        m = compare(p, e, o)
        if m:
            chk.violation({"label": "deep-chain", "depth": d, "as_root": r, "loop": lp, "mode": p["mode"]}, m)
    chk.add("deep_chains", len(cases))
    chk.add("deep_chains_in_loops", len(depths_wloop) + len(depths_rloop))
    chk.cov["max_chain_depth"] = max([d for d, _, _ in cases] or [0])


def session_programs(rnd: random.Random, n: int, first_id: int) -> List[Dict[str, Any]]:
    """Programs whose page is a Python caller's session: 2-3 renders, mostly of the SAME component class (hence of
    the same kept instance / the same view), some of them per item of a {% for %} loop or inside an element of
    the page, text in between - all pasted into one page."""
    g = P.Gen(rnd, ncomps=(1, 3), depth=2, width=3, collide=False, elems=True, required=0.0, isf=False)
    out = []
    for i in range(n):
        p = g.program(first_id + i, P.MODES[i % 2])
        calls = [g.comp(0, 0, None)]
        for _ in range(rnd.randint(1, 2)):
            c = g.comp(0, 0, None)
            if rnd.random() < 0.7:
                c["c"] = calls[0]["c"]
            calls.append(c)
        page: List[Dict[str, Any]] = []
        for c in calls:
            w = rnd.random()
            if w < 0.3:
                c["kw"] = [kv for kv in c["kw"] if kv[0] != "x"] + ([["x", P.V("i")]] if rnd.random() < 0.5 else [])
                page.append({"t": "for", "x": "i", "xs": "xs", "a": [c] + ([g._t()] if rnd.random() < 0.5 else [])})
            elif w < 0.5:
                g.eid += 1
                page.append({"t": "elem", "id": f"e{g.eid}", "a": [c]})
            else:
                page.append(c)
            if rnd.random() < 0.4:
                page.append(g._t())
        p["page"] = page
        out.append(api_variant(p, p["id"], rnd, drivers=("inst", "resp", "view")))
    return out


def _reuses_instance(prog) -> bool:
    """Does some kept instance / view of the page serve more than one render?"""
    def walk(nodes, mult):
        for n in nodes:
            if n["t"] == "comp":
                if n["body"] == "none":
                    seen[n["c"]] = seen.get(n["c"], 0) + mult
            else:
                for key in ("a", "b"):
                    if isinstance(n.get(key), list):
                        walk(n[key], mult * (2 if n["t"] == "for" else 1))
    seen: Dict[int, int] = {}
    walk(prog["page"], 1)
    return any(v > 1 for v in seen.values())


def api_entry_points(chk: Check, mc: List[Tuple[List[Dict[str, Any]], Dict[int, Any]]], progs, exp, *, n_sessions: int,
                     mc_every: int, n_random_api: int = 10 ** 9) -> int:
    """Renders requested through the Python API (see the module docstring).  Returns TLC states used."""
    rnd = random.Random(chk.seed * 1000003 + 1414)
    kept = ("inst", "resp", "view")
    # (1) TLC-enumerated pages: every page on which a kept instance serves >= 2 renders, every mc_every-th other
    #     eligible page; the expectation is the exported one (the field `via` does not enter Run)
    for pages, pexp in mc:
        sel, sexp = [], {}
        for p in pages:
            if pexp[p["id"]]["zone"] or not api_nodes(p["page"]):
                continue
            reuse = _reuses_instance(p)
            # (TLC's export order varies from run to run: selection and entry points are drawn from the page itself)
            h = zlib.crc32(json.dumps([p["mode"], p["page"]], sort_keys=True).encode())
            if not reuse and h % mc_every:
                continue
            q = api_variant(p, 2 * 10 ** 6 + p["id"], random.Random(chk.seed * 1000003 + h),
                            drivers=kept if reuse else API_DRIVERS, bare=0.0)
            sel.append(q)
            sexp[q["id"]] = dict(pexp[p["id"]], id=q["id"])
            chk.add("api_pages_one_instance_many_renders", 1 if reuse else 0)
        if sel:
            run_batch(chk, sel, sexp, f"mc-elems-api-{sel[0]['mode']}")
            chk.add("mc_pages_replayed_through_python_api", len(sel))
    # (2) the random programs again, eligible nodes through the API (django mode: some without a context = `only`)
    va = [api_variant(p, 3 * 10 ** 6 + p["id"], rnd) for p in progs if not exp[p["id"]]["zone"] and api_nodes(p["page"])]
    va = va[:n_random_api]
    # (3) caller sessions: the same class rendered 2-3 times by one kept instance / one view
    va += session_programs(rnd, n_sessions, 5 * 10 ** 6)
    vexp = djc.oracle(va)
    st = run_batch(chk, va, vexp, "rand-api")
    chk.add("traces_validated_against_impl", len(va) - st["zone"])
    chk.add("python_api_programs", len(va) - st["zone"])
    nodes = [n for p in va for n in api_nodes(p["page"])]
    chk.cov["python_api_renders_by_entry_point"] = {d: sum(1 for n in nodes if n.get("via") == d) for d in API_DRIVERS}
    chk.cov["python_api_renders_without_context_django"] = sum(1 for p in va if p["mode"] == "django"
                                                               for n in api_nodes(p["page"]) if n["only"])
    s0 = va[-1]
    chk.sample({"python_api_session": djc.brief(s0)["page"], "mode": s0["mode"],
                "entry_points": [[n["c"], n["via"], n["only"]] for n in api_nodes(s0["page"])],
                "expected_marks": vexp[s0["id"]]["marks"]}, limit=4)
    return djc.oracle.last_states


def body(chk: Check, *, mc_nodes: int, n_random: int, deep: int, chains_w: List[int], chains_r: List[int],
         chains_wl: List[int] = (), chains_rl: List[int] = (), n_sessions: int = 0, mc_every: int = 4,
         n_random_api: int = 10 ** 9) -> None:
    states = trans = 0
    mc = []
    for mode in P.MODES:
        progs, exp, r = djc.mc_programs("elems", mode, mc_nodes)
        states += r.distinct
        trans += r.generated
        st = run_batch(chk, progs, exp, f"mc-elems-{mode}")
        chk.add("mc_pages_replayed", len(progs))
        mid = progs[len(progs) // 2]
        chk.sample({"mc_page": djc.brief(mid)["page"], "mode": mode, "expected_elems": exp[mid["id"]]["elems"],
                    "expected_marks": exp[mid["id"]]["marks"]}, limit=2)
        mc.append((progs, exp))
    rnd = random.Random(chk.seed * 1000003 + 14)
    g = P.Gen(rnd, depth=deep, width=3, collide=False, elems=True, required=0.0, isf=False)
    progs = [g.program(i + 1, P.MODES[i % 2]) for i in range(n_random)]
    exp = djc.oracle(progs)
    states += djc.oracle.last_states
    st = run_batch(chk, progs, exp, "rand-elems")
    chk.add("traces_validated_against_impl", len(progs) - st["zone"])
    chk.sample({"random_program": djc.brief(progs[0]), "expected_elems": exp[progs[0]["id"]]["elems"],
                "expected_marks": exp[progs[0]["id"]]["marks"]}, limit=3)
    states += api_entry_points(chk, mc, progs, exp, n_sessions=n_sessions, mc_every=mc_every, n_random_api=n_random_api)
    del mc
    deep_chains(chk, chains_w, chains_r, chains_wl, chains_rl)
    chk.add("states", states + djc.oracle.last_states)
    chk.add("transitions", trans)


def run(tier: str) -> int:
    from . import boot
    boot.setup()
    chk = Check(PID, tier, "model_checking")
    if tier == "quick":
        body(chk, mc_nodes=3, n_random=1200, deep=3, chains_w=[60, 400, 1100], chains_r=[40, 120],
             chains_wl=[1100, 1100], chains_rl=[120], n_sessions=250, mc_every=6, n_random_api=250)
    else:
        body(chk, mc_nodes=3, n_random=8000, deep=4, chains_w=[500, 2000], chains_r=[150, 300],
             chains_wl=[2000, 2000], chains_rl=[300], n_sessions=1500, mc_every=1)
    chk.cov["exhaustive"] = True
    chk.cov["rule"] = ("TLC enumerates every page with <= N nodes over the 'elems' alphabet (elements, loops, components with "
                       "0..n roots, text-only, component-as-root, roots from fills/defaults/loops) x2 modes; random programs with "
                       "elements anywhere; the page-level renders of enumerated / random / caller-session programs requested "
                       "through the Python API (one kept instance per class: render, render_to_response, as_view; fresh "
                       "instances) and pasted into the page; deep chains, also with every level inside a loop. "
                       "Non-trivial = renders >= 1 component instance.")
    chk.assumptions += ["elements are well-formed lower-case non-void tags with quoted attributes (the Rust HTML pass is trusted)",
                        "instances are matched to real render ids through the Component.id echo printed first by every template",
                        "Python-API renders are requested at page level only (not while another component is being rendered)"]
    return chk.finish()


def selftest(tier: str) -> int:
    """In-process mutation probes (monkeypatched library, never /repo): each must be killed."""
    from . import boot
    from .core import run_probes
    boot.setup()
    allp = djc.standard_probes()
    probes = [(n, allp[n]) for n in ['root-attrs-not-passed-to-children', 'fills-named-b-dropped']]
    probes += [("render-id-generated-once-per-component-instance", _probe_id_per_instance),
               ("forloop-state-copied-recursively", _probe_recursive_forloop_copy)]
    return run_probes(PID, probes, lambda chk: body(chk, mc_nodes=2, n_random=200, deep=3, chains_w=[20], chains_r=[10],
                                                    chains_wl=[1100], chains_rl=[10], n_sessions=60, mc_every=4))


def _patched(obj, name, new):
    from contextlib import contextmanager

    @contextmanager
    def cm():
        old = getattr(obj, name)
        setattr(obj, name, new)
        try:
            yield
        finally:
            setattr(obj, name, old)
    return cm()


def _probe_id_per_instance():
    """The render id is generated on the first render of a Component INSTANCE and re-used by its later renders
    (the tag creates an instance per render, so every tag-only page still passes)."""
    import sys
    import django_components.component as dcomp
    orig = dcomp.gen_id

    def gen_id(*a, **k):
        f = sys._getframe(1)
        me = f.f_locals.get("self")
        if f.f_code.co_name != "_render_impl" or me is None:
            return orig(*a, **k)
        if getattr(me, "_vf_rid", None) is None:
            me._vf_rid = orig(*a, **k)
        return me._vf_rid
    return _patched(dcomp, "gen_id", gen_id)


def _probe_recursive_forloop_copy():
    """snapshot_context walks the forloop.parentloop chain recursively (one Python frame per enclosing loop)."""
    import django_components.component as dcomp
    orig = dcomp.snapshot_context

    def walk(fl):
        return 1 + walk(fl["parentloop"]) if isinstance(fl, dict) and fl.get("parentloop") else 0

    def snapshot_context(context):
        for d in context.dicts:
            if "forloop" in d:
                walk(d["forloop"])
        return orig(context)
    return _patched(dcomp, "snapshot_context", snapshot_context)


def replay(path: str) -> int:
    from . import boot
    boot.setup()
    d = json.load(open(path))
    if d["case"].get("label") == "deep-chain":
        lp = bool(d["case"].get("loop"))
        p = chain_program(d["case"]["depth"], d["case"]["as_root"], d["case"]["mode"], lp)
        m = compare(p, chain_expected(d["case"]["depth"], d["case"]["as_root"], lp), observe(p))
    else:
        p = d["case"]["json"]
        m = compare(p, djc.oracle([p])[p["id"]], observe(p))
    print(json.dumps(m, indent=1, default=repr)[:4000])
    return 1 if m else 0
