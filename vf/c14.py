"""C14 - root elements of a component instance, and only they, carry its render id.

Specification: specs/DjcSemantics.tla computes, for every HTML element occurrence of the page,
the set of component instances it is a root of (Roots: elements at nesting depth 0 of an
instance's OUTPUT - of its template, of slot content placed at depth 0, and transitively of a
component placed at depth 0).  specs/MC_Djc.tla (alphabet "elems") enumerates every page up to
a node bound over a library with 0..n roots, text-only components, component-as-root chains,
roots coming from fills, defaults and loops.

spec -> code: every enumerated page rendered; final HTML parsed with html.parser: the ordered
              list of element occurrences with their data-djc-id-* attributes must equal the
              specification's (elems, marks) through the ids echoed by Component.id.
code -> spec: random programs with elements anywhere; deep chains (thorough: depth 2000
              inside a wrapper element, depth 300 as root) whose expectation is the closed form
              the specification yields for chains, cross-checked by TLC for small depths.
"""
from __future__ import annotations

import json
import random
import re
from html.parser import HTMLParser
from typing import Any, Dict, List, Optional, Tuple

from . import djc, prog as P, tlc
from .core import Check, MachineryError
from .pool import pmap

PID = "C14"


class _Elems(HTMLParser):
    def __init__(self):
        super().__init__(convert_charrefs=True)
        self.elems: List[Tuple[str, List[str]]] = []
        self.stray: List[str] = []

    def handle_starttag(self, tag, attrs):
        ids = sorted(k[len("data-djc-id-"):] for k, _ in attrs if k.startswith("data-djc-id-"))
        e = dict(attrs).get("data-e")
        if e is None:
            if tag != "template" or ids:
                self.stray.append(tag)
            return
        self.elems.append((e, ids))


def observe(prog) -> Dict[str, Any]:
    """Real render: element occurrences (document order) with their id attributes + token stream."""
    from django.template import Context, Template
    P.reset_library_state()
    P.install(prog)
    try:
        html = Template(P.page_src(prog)).render(Context(P.page_context(prog)))
    except Exception as e:  # noqa: BLE001
        return {"err": type(e).__name__, "msg": str(e)[:300], "out": [], "junk": "", "elems": []}
    finally:
        dirty = P.reset_library_state()
    pr = _Elems()
    pr.feed(html)
    toks = P.TOKEN_RE.findall(P.RENDERED_RE.sub("", html))
    leftovers = [m for m in ("djc-render-id", "<template") if m in html]
    return {"err": "", "out": toks, "junk": "", "elems": [[e, ids] for e, ids in pr.elems], "leftovers": leftovers,
            "child_attrs_left": "child_component_attrs" in dirty, "html": html[:2000]}


def compare(p, e, o) -> Optional[Dict[str, Any]]:
    """Expected (elems, marks) vs observed attributes, through the echoed Component.id values."""
    if o.get("hang"):
        return {"what": "hang"}
    if e["err"]:
        return None if (o["err"] == e["err"] or o["err"] in e.get("errs", [])) else \
            {"what": "error-class", "expected": e["err"], "observed": o["err"], "msg": o.get("msg")}
    if o["err"]:
        return {"what": "unexpected-error", "observed": o["err"], "msg": o.get("msg")}
    # map instance keys <-> real render ids through the cid echoes (same position in both streams)
    if len(e["out"]) != len(o["out"]):
        return {"what": "tokens-length", "expected": e["out"], "observed": o["out"]}
    inst2real: Dict[str, str] = {}
    for a, b in zip(e["out"], o["out"]):
        if a.startswith("cid=") or a.startswith("me.id="):
            pre = a[:a.index("=") + 1]
            if not b.startswith(pre):
                return {"what": "tokens", "expected": a, "observed": b}
            k, rid = a[len(pre):], b[len(pre):]
            if inst2real.setdefault(k, rid) != rid:
                return {"what": "Component.id-not-stable-for-instance", "instance": k}
        elif a != b:
            return {"what": "tokens", "expected": a, "observed": b, "expected_out": e["out"], "observed_out": o["out"]}
    reals = list(inst2real.values())
    if len(set(reals)) != len(reals):
        return {"what": "render-ids-not-distinct", "ids": reals}
    if [x[0] for x in e["elems"]] != [x[0] for x in o["elems"]]:
        return {"what": "element-sequence", "expected": [x[0] for x in e["elems"]], "observed": [x[0] for x in o["elems"]]}
    # Instances whose template echoes no Component.id (silent wrappers: output = nested components only) are
    # matched to the remaining, un-echoed ids by unification: one consistent, injective assignment must exist.
    want: Dict[str, set] = {}
    silent: Dict[str, set] = {}
    for occ, inst in e["marks"]:
        if inst in inst2real:
            want.setdefault(occ, set()).add(inst2real[inst].lower())   # html.parser lower-cases attribute names
        else:
            silent.setdefault(occ, set()).add(inst)
    known = {r.lower() for r in inst2real.values()}
    pending = []
    for (eid, occ), (_, ids) in zip(e["elems"], o["elems"]):
        got_known = set(ids) & known
        unknown = set(ids) - known
        if got_known != want.get(occ, set()) or len(unknown) != len(silent.get(occ, set())):
            return {"what": "ids-on-element", "element": eid, "occurrence": occ,
                    "expected": sorted(want.get(occ, set())), "expected_silent_instances": sorted(silent.get(occ, set())),
                    "observed": ids, "id_of_instance": inst2real}
        if unknown:
            pending.append((eid, occ, set(silent[occ]), unknown))
    s2u: Dict[str, str] = {}
    u2s: Dict[str, str] = {}
    progress = True
    while progress and pending:
        progress = False
        rest = []
        for eid, occ, S, U in pending:
            for s in list(S):
                if s in s2u:
                    if s2u[s] not in U:
                        return {"what": "ids-on-element", "element": eid, "occurrence": occ,
                                "detail": f"silent instance {s} carries id {s2u[s]} elsewhere but not here", "observed": sorted(U)}
                    S.discard(s)
                    U.discard(s2u[s])
            for u in list(U):
                if u in u2s:     # an id already assigned to another instance shows up where that instance has no root
                    return {"what": "ids-on-element", "element": eid, "occurrence": occ,
                            "detail": f"id {u} of silent instance {u2s[u]} on an element that is not one of its roots"}
            if len(S) == 1 and len(U) == 1:
                s, u = next(iter(S)), next(iter(U))
                s2u[s], u2s[u] = u, s
                progress = True
            elif S:
                rest.append((eid, occ, S, U))
        pending = rest
    if o.get("leftovers"):
        return {"what": "placeholder-left-in-output", "found": o["leftovers"]}
    if o.get("child_attrs_left"):
        return {"what": "child_component_attrs-not-consumed"}
    return None


def run_batch(chk: Check, progs, exp, label: str) -> Dict[str, int]:
    obs = pmap(observe, progs, workers=12)
    # compare_batch's primary comparison is the C14 one (ids differ between runs, so no raw token equality)
    stats = {"ok": 0, "zone": 0, "bad": 0}
    keep_p, keep_o = [], []
    for p, o in zip(progs, obs):
        keep_p.append(p)
        keep_o.append(o)
    real_mismatch = djc.mismatch
    try:
        djc.mismatch = lambda e, o: compare(None, e, o)      # type: ignore
        st = djc.compare_batch(chk, keep_p, exp, keep_o, label)
    finally:
        djc.mismatch = real_mismatch
    return st


def chain_program(depth: int, as_root: bool, mode: str) -> Dict[str, Any]:
    """c_i renders c_{i+1}: inside a wrapper element (as_root=False) or as its own root (as_root=True);
    the last component has one root element.  Components are c1..c<depth>."""
    comps = []
    for i in range(1, depth + 1):
        inner = {"t": "comp", "c": i + 1, "kw": [], "only": False, "body": "none", "a": []} if i < depth else \
            {"t": "elem", "id": "leaf", "a": []}
        tpl = [{"t": "var", "x": "cid"}]
        tpl.append(inner if (as_root or i == depth) else {"t": "elem", "id": f"w{i}", "a": [inner]})
        comps.append({"data": [P.datadef("cid", "id")], "tpl": tpl, "assets": P.no_assets()})
    return {"id": depth * 10 + (1 if as_root else 0), "mode": mode, "devs": [], "dyn": False, "pyctx": False,
            "ctx": [], "comps": comps,
            "page": [{"t": "comp", "c": 1, "kw": [], "only": False, "body": "none", "a": []}]}


def chain_expected(depth: int, as_root: bool) -> Dict[str, Any]:
    """Closed form of Run for chain programs (the form TLC's results have for small depths)."""
    def inst(i):   # instance path of c_i: page node 1, then node 2 of every template (inside the wrapper: child 1)
        path = [1]
        for _ in range(1, i):
            path += [2] if as_root else [2, 1]
        return "<<" + ", ".join(map(str, path)) + ">>"
    out = [f"cid={inst(i)}" for i in range(1, depth + 1)]
    elems, marks = [], []
    if as_root:
        leaf_occ = "<<" + ", ".join(map(str, [1] + [2] * depth)) + ">>"
        elems = [["leaf", leaf_occ]]
        marks = [[leaf_occ, inst(i)] for i in range(depth, 0, -1)]
    else:
        for i in range(1, depth):
            occ = "<<" + ", ".join(map(str, [1] + [2, 1] * (i - 1) + [2])) + ">>"
            elems.append([f"w{i}", occ])
            marks.append([occ, inst(i)])
        occ = "<<" + ", ".join(map(str, [1] + [2, 1] * (depth - 1) + [2])) + ">>"
        elems.append(["leaf", occ])
        marks.append([occ, inst(depth)])
    return {"out": out, "err": "", "errs": [], "zone": False, "insts": [[i, i] for i in range(depth)], "elems": elems,
            "marks": marks}


def deep_chains(chk: Check, depths_wrapped: List[int], depths_root: List[int]) -> None:
    # the closed form is checked against TLC for small depths first (binding of the formula to the spec)
    small = [chain_program(d, r, "django") for d in (1, 2, 3, 5, 8) for r in (False, True)]
    exp = djc.oracle(small)
    for p in small:
        d, r = p["id"] // 10, bool(p["id"] % 10)
        e, f = exp[p["id"]], chain_expected(d, r)
        if (e["out"], e["elems"], sorted(map(tuple, e["marks"]))) != (f["out"], f["elems"], sorted(map(tuple, f["marks"]))):
            raise MachineryError(f"closed form for chains disagrees with the specification at depth {d} as_root={r}")
    cases = [(d, False) for d in depths_wrapped] + [(d, True) for d in depths_root]
    progs = [chain_program(d, r, P.MODES[i % 2]) for i, (d, r) in enumerate(cases)]
    expd = {p["id"]: dict(chain_expected(d, r), id=p["id"]) for p, (d, r) in zip(progs, cases)}
    obs = pmap(observe, progs, workers=4, per_item_s=300, chunk=1)
    for p, o, (d, r) in zip(progs, obs, cases):
        chk.count(["chain", d, r])
        m = compare(p, expd[p["id"]], o)
        if m:
            chk.violation({"label": "deep-chain", "depth": d, "as_root": r, "mode": p["mode"]}, m)
    chk.add("deep_chains", len(cases))
    chk.cov["max_chain_depth"] = max([d for d, _ in cases] or [0])


def body(chk: Check, *, mc_nodes: int, n_random: int, deep: int, chains_w: List[int], chains_r: List[int]) -> None:
    states = trans = 0
    for mode in P.MODES:
        progs, exp, r = djc.mc_programs("elems", mode, mc_nodes)
        states += r.distinct
        trans += r.generated
        st = run_batch(chk, progs, exp, f"mc-elems-{mode}")
        chk.add("mc_pages_replayed", len(progs))
        mid = progs[len(progs) // 2]
        chk.sample({"mc_page": djc.brief(mid)["page"], "mode": mode, "expected_elems": exp[mid["id"]]["elems"],
                    "expected_marks": exp[mid["id"]]["marks"]}, limit=2)
    rnd = random.Random(chk.seed * 1000003 + 14)
    g = P.Gen(rnd, depth=deep, width=3, collide=False, elems=True, required=0.0, isf=False)
    progs = [g.program(i + 1, P.MODES[i % 2]) for i in range(n_random)]
    exp = djc.oracle(progs)
    st = run_batch(chk, progs, exp, "rand-elems")
    chk.add("traces_validated_against_impl", len(progs) - st["zone"])
    chk.sample({"random_program": djc.brief(progs[0]), "expected_elems": exp[progs[0]["id"]]["elems"],
                "expected_marks": exp[progs[0]["id"]]["marks"]}, limit=3)
    deep_chains(chk, chains_w, chains_r)
    chk.add("states", states + djc.oracle.last_states)
    chk.add("transitions", trans)


def run(tier: str) -> int:
    from . import boot
    boot.setup()
    chk = Check(PID, tier, "model_checking")
    if tier == "quick":
        body(chk, mc_nodes=3, n_random=1200, deep=3, chains_w=[60, 400, 1100], chains_r=[40, 120])
    else:
        body(chk, mc_nodes=3, n_random=8000, deep=4, chains_w=[500, 2000], chains_r=[150, 300])
    chk.cov["exhaustive"] = True
    chk.cov["rule"] = ("TLC enumerates every page with <= N nodes over the 'elems' alphabet (elements, loops, components with "
                       "0..n roots, text-only, component-as-root, roots from fills/defaults/loops) x2 modes; random programs with "
                       "elements anywhere; deep chains. Non-trivial = renders >= 1 component instance.")
    chk.assumptions += ["elements are well-formed lower-case non-void tags with quoted attributes (the Rust HTML pass is trusted)",
                        "instances are matched to real render ids through the Component.id echo printed first by every template"]
    return chk.finish()


def selftest(tier: str) -> int:
    """In-process mutation probes (monkeypatched library, never /repo): each must be killed."""
    from . import boot
    from .core import run_probes
    boot.setup()
    allp = djc.standard_probes()
    probes = [(n, allp[n]) for n in ['root-attrs-not-passed-to-children', 'fills-named-b-dropped']]
    return run_probes(PID, probes, lambda chk: body(chk, mc_nodes=2, n_random=200, deep=3, chains_w=[20], chains_r=[10]))


def replay(path: str) -> int:
    from . import boot
    boot.setup()
    d = json.load(open(path))
    if d["case"].get("label") == "deep-chain":
        p = chain_program(d["case"]["depth"], d["case"]["as_root"], d["case"]["mode"])
        m = compare(p, chain_expected(d["case"]["depth"], d["case"]["as_root"]), observe(p))
    else:
        p = d["case"]["json"]
        m = compare(p, djc.oracle([p])[p["id"]], observe(p))
    print(json.dumps(m, indent=1, default=repr)[:4000])
    return 1 if m else 0
