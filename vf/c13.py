"""C13 - html_attrs and Python-passed slot content emit exactly the data given, escaped;
component JS/CSS that would end its own <script>/<style> element is refused.

Specification (the oracle): specs/HtmlText.tla (escaping / reference decoding), specs/HtmlAttrs.tla
(Merge = defaults, overridden by attrs, keywords appended with one space; Expected; a model of the
WHATWG attribute tokenizer so that "a parser reads back exactly these names and values" is something
TLC evaluates: RoundTrip), specs/SlotEscape.tla (route x escape flags -> admitted number of escapings,
plus an implementation-shaped wrapper machine that TLC checks against it: never 2), specs/EndTagGuard.tla
(declarative "would terminate its own element" vs. an operational script-data tokenizer, TLC checks they
agree).

spec -> code: MC_C13A / MC_C13S / MC_C13G enumerate the bounded case spaces, check the laws of the
    specification on every case and export each case with the outcome the specification admits; every
    case is materialised ({% html_attrs %} through real templates in all documented writing forms;
    Component.render(slots=..., escape_slots_content=...) through chains of real components incl. the
    built-in dynamic component; Component.js / Component.css rendered as a document) and compared.
    html_attrs results that do not conform (and every 40th that does, as a cross-check of the Python
    comparison against HtmlAttrs!Conform) go back to TLC, which decides whether a named deviation
    (HtmlAttrs!DevKey: what the current code does, for every subset of the known defects still being
    present) predicts exactly this result -> finding key; anything else is a VIOLATION.
code -> spec: seeded random, deeper cases (more names, longer strings over a wider alphabet, several
    renders of one compiled template with shared dictionaries, the tag inside a component template and
    attributes_to_string() called directly, longer slot chains, random end-tag look-alikes) are run on
    the real code; the raw observations are judged by TLC (Trace_C13) with the same operators.  There TLC
    also runs its tokenizer model on the real output text and compares with what html.parser read, which
    binds the model parser to the real parser (disagreement = parser_model_drift, reported in the evidence,
    never a violation).

Decisions / zones (rule 1):
  * Appending a NUMBER is determined by the property ("appending each extra keyword value ... separated
    by one space" over "bool / None / number values"; docs render numbers with str()): expected "a 5".
    The current code raises TypeError -> known finding `append-number:TypeError`.
  * Appending to / with None / True / False is not determined: any rendering of that one name or a
    TypeError is admitted (kind "zone"); all other names of the tag are still checked exactly.
  * SafeString values are outside the guarantee ("non-safe"): verbatim or escaped emission both admitted;
    safe values never contain a raw double quote in generated cases.
  * x="" and a bare x are the same attribute for a parser: both admitted for the empty string; True must
    be bare.
  * Names with & < > " ' may be entity-escaped by the library (class "weak": count and values checked,
    spelling of the name free).  Names no HTML document can carry (whitespace, "=", "/", empty) must be
    refused, dropped, or emitted as ONE attribute with the right value; anything else is a break-out ->
    known finding `attr-name-unrepresentable:written-unchecked`.
  * Keywords "can be repeated" (docs): every order of repeated keywords must merge left to right; the
    current code fails when a keyword is repeated after an earlier repeat of another one -> known finding
    `repeated-keyword-after-earlier-repeat:merged-into-wrong-slot`.
  * A dictionary written as aggregate keywords (`attrs:k=v` / `defaults:k=v`, rule 3 of the docs) is a list of
    keywords of the tag, and "you can supply the same key multiple times, and these will be all joined together"
    (quantifier: "repeated keywords, aggregate attrs:k=v and defaults:k=v forms, spreads"): a `prefix:k` given
    two or three times - as a variable, a literal, or contributed by a `...spread` - makes entry k of that
    dictionary the space-join of the values in template order (HtmlAttrs!DictParts); then attrs override
    defaults entry by entry and plain keywords are appended.  Joining with None / True / False is the same
    undetermined zone as appending them.  MC profile "aggrep" enumerates these, the random driver also
    interleaves the aggregate keywords, `attrs=` / `defaults=` and the plain keywords in any order (rules 1, 3).
  * Names are lower-case (HTML attribute names are case-insensitive; html.parser lower-cases them);
    dynamic "{{ }}" expressions and filters inside the tag are not generated
    (docs do not define them for html_attrs); template string literals only without special characters
    (Django treats literals as safe).
  * Slot chains: marked-safe content -> 0 escapings; first escape_slots_content=True -> exactly 1; first
    False and a later True -> {0, 1}; Slot(..., escaped=True) built by the user -> {0, 1}.  Never 2.
    Raw (unescaped) contents are well-formed HTML fragments so the HTML post-processing is not fuzzed.
  * JS/CSS: content that terminates its own element must be refused or absent; content without any
    "<" must be emitted intact; look-alikes that do not terminate ("</scriptx", "< /script>") may be
    refused or emitted.  No "<!--" in generated JS (script-data escaped states are not modelled).
    The admitted outcomes depend on the content alone (EndTagGuard: Histories): every component of the
    bounded instance is rendered three times in one process, the random driver records histories of 1-3
    renders of one class, possibly interleaved with a second class (other or identical content); EVERY
    render is judged - a content refused at the first render may not be emitted by a later one.  Nothing
    more is demanded of a history (e.g. "refused" then "absent" for a terminating content is admitted).
"""
from __future__ import annotations

import json
import random
import re
from html.parser import HTMLParser
from pathlib import Path
from typing import Any, Dict, List, Optional, Tuple

from . import tlc
from .core import Check, MachineryError, workdir

PID = "C13"
TLC_ENV = {"LC_ALL": "C.UTF-8"}


# ====================================================================== html_attrs
def _pyval(v: Dict[str, str]) -> Any:
    from django.utils.safestring import mark_safe
    t, s = v["t"], v["s"]
    if t == "str":
        return s
    if t == "safe":
        return mark_safe(s)
    if t == "num":
        x: Any = float(s) if "." in s else int(s)
        if str(x) != s:
            raise MachineryError(f"number text {s!r} does not round-trip through Python")
        return x
    return {"true": True, "false": False, "none": None}[t]


def _lit(v: Dict[str, str]) -> str:
    t, s = v["t"], v["s"]
    if t == "str":
        return '"' + s + '"'
    if t == "num":
        return s
    return {"true": "True", "none": "None"}[t]


def materialize_attrs(case: Dict[str, Any]) -> Tuple[str, Dict[str, Any]]:
    """Abstract case -> ({% html_attrs %} template source, context).  Pure syntax: which of the
    documented, equivalent writing forms is used is given by fa / fd / vias and, for dictionaries written
    as aggregate keywords, avias / dvias (how each prefix:key=value is given: variable, literal, inside a
    ...spread) and order (how the aggregate keywords and the plain keywords are interleaved in the tag:
    a sequence of "a" / "d" / "k", each taking the next entry of attrs / defaults / kws)."""
    ctx: Dict[str, Any] = {}
    fa, fd = case["fa"], case["fd"]
    pos: List[str] = []
    last: List[str] = []
    sp0: Dict[str, Any] = {}
    # a token: (key, value record, via) - one keyword of the tag - or a ready-made string
    streams: Dict[str, List[Any]] = {"a": [], "d": [], "k": []}
    for form, name, st in (("fa", "attrs", "a"), ("fd", "defaults", "d")):
        f = case[form]
        entries = case[name]
        var = "A" if name == "attrs" else "D"
        if f == "agg":
            avias = case.get(st + "vias") or ["var"] * len(entries)
            if len(avias) != len(entries):
                raise MachineryError("one via per aggregate entry")
            for i, (e, via) in enumerate(zip(entries, avias)):
                streams[st].append((f"{name}:{e['n']}", e["v"], via, f"{var}{i}"))
            continue
        d = {e["n"]: _pyval(e["v"]) for e in entries}
        if len(d) != len(entries):
            raise MachineryError("a repeated name needs the aggregate form")
        if f == "absent":
            if d:
                raise MachineryError("entries for an absent dictionary")
        elif f == "pos":
            ctx[var] = d
            pos.append(var)
        elif f == "posnone":
            ctx[var] = None
            pos.append(var)
        elif f == "kw":
            ctx[var] = d
            streams[st].append(f"{name}={var}")
        elif f == "kwlast":
            ctx[var] = d
            last.append(f"{name}={var}")
        elif f == "spread":
            sp0[name] = d
        else:
            raise MachineryError(f"unknown form {f}")
    if fd == "pos" and fa not in ("pos", "posnone"):
        raise MachineryError("positional defaults need positional attrs")
    parts = ["html_attrs"] + pos
    if sp0:
        ctx["SP0"] = sp0
        parts.append("...SP0")
    vias = case.get("vias") or ["var"] * len(case["kws"])
    for i, (e, via) in enumerate(zip(case["kws"], vias)):
        streams["k"].append((e["n"], e["v"], via, f"V{i}"))
    order = case.get("order") or ["a"] * len(streams["a"]) + ["d"] * len(streams["d"]) + ["k"] * len(streams["k"])
    if sorted(order) != sorted(k for k, st in streams.items() for _ in st):
        raise MachineryError(f"order {order} does not take every keyword exactly once")
    nxt = {"a": 0, "d": 0, "k": 0}
    run: Optional[Dict[str, Any]] = None
    nsp = 0
    for o in order:
        tok = streams[o][nxt[o]]
        nxt[o] += 1
        if isinstance(tok, str):
            run = None
            parts.append(tok)
            continue
        key, v, via, var = tok
        if via == "spread":
            if run is None or key in run:
                nsp += 1
                run = {}
                ctx[f"SP{nsp}"] = run
                parts.append(f"...SP{nsp}")
            run[key] = _pyval(v)
            continue
        run = None
        if via == "lit":
            parts.append(f"{key}={_lit(v)}")
        else:
            ctx[var] = _pyval(v)
            parts.append(f"{key}={var}")
    parts += last
    return "<div {% " + " ".join(parts) + " %}>", ctx


class _TagParser(HTMLParser):
    def __init__(self) -> None:
        super().__init__(convert_charrefs=True)
        self.first: Optional[List[Tuple[str, Optional[str]]]] = None
        self.spill = False

    def handle_starttag(self, tag, attrs):
        if self.first is None and tag == "div":
            self.first = attrs
        else:
            self.spill = True

    def handle_startendtag(self, tag, attrs):
        self.handle_starttag(tag, attrs)

    def handle_endtag(self, tag):
        self.spill = True

    def handle_data(self, data):
        self.spill = True

    def handle_comment(self, data):
        self.spill = True


def parse_tag(html: str) -> Dict[str, Any]:
    """Project '<div ...>' to what an HTML parser reads: the attribute list of the div and whether
    anything spilled out of the tag."""
    p = _TagParser()
    p.feed(html)
    p.close()
    if p.first is None:
        return {"attrs": [], "spill": True}
    return {"attrs": [{"n": n, "v": "" if v is None else v, "bare": v is None} for n, v in p.first],
            "spill": p.spill}


def render_attrs(tpl, ctx: Dict[str, Any]) -> Dict[str, Any]:
    from django.template import Context
    try:
        out = tpl.render(Context(ctx))
    except Exception as e:  # outcome of the case, judged by the specification
        msg = str(e)
        kind = "index" if "index out of range" in msg else "multiple-values" if "multiple values for" in msg else \
            "concat" if ("concatenate" in msg or "unsupported operand" in msg) else "other"
        return {"err": type(e).__name__, "errkind": kind, "attrs": [], "spill": False, "out": ""}
    if not (out.startswith("<div ") and out.endswith(">")):
        raise MachineryError(f"unexpected frame around html_attrs output: {out!r}")
    obs = parse_tag(out)
    obs["err"] = obs["errkind"] = ""
    obs["out"] = out[5:-1]
    return obs


_DJC_ID = re.compile(r""" data-djc-id-\w+(?:=(?:""|''))?""")
_host_seq = [0]


class _ComponentHosted:
    """The same tag inside the template of a component rendered with Component.render(kwargs=context):
    the output passes the HTML post-processing, which marks the root element with data-djc-id-*."""

    def __init__(self, src: str) -> None:
        from django_components import Component
        _host_seq[0] += 1
        self.cls = type(f"VfC13Host{_host_seq[0]}", (Component,), {
            "template": src + "x</div>", "get_context_data": lambda self, **kw: kw})

    def render(self, context) -> str:
        kw = {k: v for k, v in context.flatten().items() if k not in ("True", "False", "None")}
        out = self.cls.render(kwargs=kw, render_dependencies=False)
        out = re.sub(r"<!-- _RENDERED [^>]*-->", "", out)
        if not out.endswith("x</div>"):
            raise MachineryError(f"unexpected frame around hosted html_attrs output: {out!r}")
        return _DJC_ID.sub("", out[: -len("x</div>")], count=1) if "data-djc-id-" in out else out[: -len("x</div>")]


class _DirectCall:
    """attributes_to_string(attrs): the documented way to render attributes outside of templates."""

    def render(self, context) -> str:
        from django_components.attributes import attributes_to_string
        return "<div " + attributes_to_string(context["A"]) + ">"


def observe_attrs(case: Dict[str, Any]) -> Dict[str, Any]:
    from django.template import Template
    src, ctx = materialize_attrs(case)
    try:
        tpl = Template(src)
    except Exception as e:
        return {"err": "compile:" + type(e).__name__, "errkind": "other", "attrs": [], "spill": False, "out": "",
                "src": src}
    obs = render_attrs(tpl, ctx)
    obs["src"] = src
    return obs


def _matches(it: Dict[str, Any], a: Dict[str, Any]) -> bool:
    k = it["kind"]
    if k == "zone":
        return True
    if k == "bare":
        return a["bare"]
    if k == "val":
        return (not a["bare"] and a["v"] in it["vals"]) or (a["bare"] and "" in it["vals"])
    return False


def conforms_attrs(items: List[Dict[str, Any]], err_ok: List[str], obs: Dict[str, Any]) -> bool:
    """The comparison HtmlAttrs!Conform performs, on the exported Expected(c)."""
    if obs["err"]:
        return obs["err"] in err_ok or "*" in err_ok
    if obs["spill"]:
        return False
    exact = [it for it in items if it["cls"] == "exact"]
    loose = [it for it in items if it["cls"] != "exact"]
    names = {it["n"] for it in exact}
    for it in exact:
        hits = [a for a in obs["attrs"] if a["n"] == it["n"]]
        if it["kind"] == "omit":
            if hits:
                return False
        elif it["kind"] == "zone":
            if len(hits) > 1:
                return False
        elif len(hits) != 1 or not _matches(it, hits[0]):
            return False
    rest = [a for a in obs["attrs"] if a["n"] not in names]
    need = {j for j, it in enumerate(loose) if it["cls"] == "weak" and it["kind"] in ("bare", "val")}

    def assign(i: int, used: frozenset) -> bool:
        if i == len(rest):
            return need <= used
        for j, it in enumerate(loose):
            if j not in used and it["kind"] != "omit" and _matches(it, rest[i]) and assign(i + 1, used | {j}):
                return True
        return False
    return assign(0, frozenset())


_OBS_FIELDS = ("err", "errkind", "spill", "attrs", "out")


def _attrs_event(row: Dict[str, Any], obs: Dict[str, Any]) -> Dict[str, Any]:
    return {"defaults": row["defaults"], "attrs": row["attrs"], "kws": row["kws"],
            "obs": {f: obs[f] for f in _OBS_FIELDS}}


def judge_attrs(chk: Check, pending: List[Tuple], row: Dict[str, Any], obs: Dict[str, Any], origin: str,
                n: int) -> None:
    """Compare with the exported Expected(c).  A result that does not conform is queued for TLC, which
    decides whether a named deviation predicts it (-> finding key) - and so is every 40th conforming one,
    as a cross-check of this Python comparison against HtmlAttrs!Conform."""
    ok = conforms_attrs(row["items"], row["err"], obs)
    if not ok or n % 40 == 0:
        pending.append((ok, row, obs, origin))


def settle_attrs(chk: Check, pending: List[Tuple]) -> None:
    if not pending:
        return
    if chk.silent and len(pending) > 600:       # probe runs: an evenly spaced sample decides "killed"
        pending = pending[:: len(pending) // 600 + 1]
    traces = [{"id": i + 1, "kind": "attrs", "events": [_attrs_event(row, obs)]}
              for i, (ok, row, obs, origin) in enumerate(pending)]
    res = judge_traces_with_tlc(traces, batch=4000)
    for i, (ok, row, obs, origin) in enumerate(pending):
        why = res["rejected"].get(i + 1)
        if ok != (why is None):
            raise MachineryError(f"Python comparison and HtmlAttrs!Conform disagree on {row} / {obs}: TLC says {why}")
        if why is None:
            continue
        m = re.search(r'"dev:([^"]+)"', why["clauses"])
        case = {"kind": "html_attrs", "origin": origin,
                "case": {k: row[k] for k in ("defaults", "attrs", "kws", "vias", "fa", "fd", "avias", "dvias", "order")
                         if k in row},
                "template": obs.get("src")}
        chk.violation(case, {"expected_items": row["items"], "errors_admitted": row["err"],
                             "observed": {k: obs[k] for k in ("err", "attrs", "spill", "out")}, "tlc": why},
                      key=m.group(1) if m else None)
    chk.add("replays_judged_by_tlc", len(pending))
    chk.add("parser_model_drift", len(res["drift"]))


# ====================================================================== slot content
_L, _R = "⟦", "⟧"          # markers around the rendered slot (never "<": the HTML pass treats "<x" as a tag)
_chain_classes: Dict[Tuple, Any] = {}
_chain_seq = [0]


def _chain_class(hops: Tuple[Tuple[str, bool], ...]):
    """Component class that receives slot "x" and passes it on along `hops` (the hops AFTER the one
    that delivered the slot to this class); the last class renders {% slot "x" %} between markers."""
    from django_components import Component, register
    if hops in _chain_classes:
        return _chain_classes[hops]
    _chain_seq[0] += 1
    name = f"vf_c13_chain_{_chain_seq[0]}"
    if not hops:
        body = {"template": "<div class=\"leaf\">" + _L + "{% slot 'x' / %}" + _R + "</div>"}
    else:
        (via, flag), rest = hops[0], hops[1:]
        nxt = _chain_class(rest)
        if via == "fill":
            body = {"template": "<section>{% component '" + nxt._vf_name + "' %}{% fill 'x' %}{% slot 'x' / %}"
                                "{% endfill %}{% endcomponent %}</section>"}
        else:
            def get_context_data(self, _nxt=nxt, _via=via, _flag=flag):
                return {"inner": _deliver(_nxt, _via, _flag, self.input.slots, nested=True)}
            body = {"template": "<section>{{ inner|safe }}</section>", "get_context_data": get_context_data}
    cls = type(f"VfC13Chain{_chain_seq[0]}", (Component,), body)
    cls._vf_name = name
    register(name)(cls)
    _chain_classes[hops] = cls
    return cls


def _deliver(cls, via: str, flag: bool, slots: Dict[str, Any], nested: bool) -> str:
    kw: Dict[str, Any] = {"render_dependencies": False} if nested else {}
    if via == "render":
        return cls.render(slots=slots, escape_slots_content=flag, **kw)
    if via == "dynamic":
        from django_components import DynamicComponent
        return DynamicComponent.render(kwargs={"is": cls}, slots=slots, escape_slots_content=flag, **kw)
    raise MachineryError(f"hop {via} cannot deliver from Python")


def _origin_object(origin: str, content: str):
    from django.utils.safestring import mark_safe
    from django_components import Slot
    plain = lambda ctx, data, ref: content                      # noqa: E731
    safe = lambda ctx, data, ref: mark_safe(content)            # noqa: E731
    return {
        "str": lambda: content,
        "safe": lambda: mark_safe(content),
        "fn_str": lambda: plain,
        "fn_safe": lambda: safe,
        "slot_fn_str": lambda: Slot(plain),
        "slot_fn_safe": lambda: Slot(safe),
        "slot_slot_fn_str": lambda: Slot(Slot(plain)),
        "slot_escaped_fn_str": lambda: Slot(plain, escaped=True),
    }[origin]()


def observe_slot(origin: str, content: str, hops: List[Dict[str, Any]]) -> Dict[str, Any]:
    hp = tuple((h["via"], bool(h["flag"])) for h in hops)
    if not hp or hp[0][0] == "fill":
        raise MachineryError("first hop must hand the content over from Python")
    cls = _chain_class(hp[1:])
    try:
        out = _deliver(cls, hp[0][0], hp[0][1], {"x": _origin_object(origin, content)}, nested=False)
    except Exception as e:
        return {"err": type(e).__name__ + ": " + str(e)[:200], "out": ""}
    if out.count(_L) != 1 or out.count(_R) != 1:
        return {"err": "markers", "out": out}
    return {"err": "", "out": out[out.index(_L) + 1: out.index(_R)]}


def _canon(s: str) -> str:
    return s.replace("&#39;", "&#x27;")


def judge_slot(chk: Check, row: Dict[str, Any], obs: Dict[str, Any], origin_tag: str) -> None:
    got = _canon(obs["out"])
    if not obs["err"] and got in [_canon(t) for t in row["texts"]]:
        times = 0 if got == _canon(row["content"]) else 1
        if times != row["bcount"]:
            chk.add("wrapper_model_drift")  # wrapper model predicted another admitted count: not a violation
        return
    times = "error" if obs["err"] else 2 if got in map(_canon, row["twice"]) else \
        1 if got in map(_canon, row["once"]) else 0 if got == _canon(row["content"]) else "other"
    chk.violation({"kind": "slot", "origin": origin_tag, "content_origin": row["origin"], "content": row["content"],
                   "hops": row["hops"]},
                  {"admitted_times": row["admitted"], "admitted_texts": row["texts"], "observed_times": times,
                   "observed": obs})


# ====================================================================== js / css end-tag guard
_guard_seq = [0]
_DOC = "<html><head><title>t</title></head><body><p>hi</p></body></html>"


def _guard_class(kind: str, s: str):
    """A fresh component class whose Component.js / Component.css is `s`."""
    from django_components import Component
    if s.strip() != s or not s.startswith("M1"):
        raise MachineryError("guard contents start with the marker M1 and carry no outer white space")
    _guard_seq[0] += 1
    return type(f"VfC13Guard{_guard_seq[0]}", (Component,), {"template": _DOC, kind: s})


def _render_guard(cls, kind: str, s: str) -> Dict[str, Any]:
    """Render the component as a document (once more, in this process).
    outcome: "refused" (exception), "absent" (rendered, content not in the output), "emitted" (the
    element with exactly this content is in the output), "altered" (marker present, text differs).
    rest: the output from just after the element's start tag (for the tokenizer of the specification)."""
    tag = "script" if kind == "js" else "style"
    try:
        out = cls.render()
    except Exception as e:
        return {"outcome": "refused", "exc": type(e).__name__, "rest": ""}
    start = f"<{tag}>"
    i = out.find(start + "M1")
    if i < 0:
        return {"outcome": "altered" if "M1" in out else "absent", "exc": "", "rest": ""}
    rest = out[i + len(start):]
    return {"outcome": "emitted" if rest.startswith(s + f"</{tag}>") else "altered", "exc": "", "rest": rest}


def observe_guard(kind: str, s: str, renders: int = 1) -> List[Dict[str, Any]]:
    """The history of `renders` renders of ONE fresh component class with this JS / CSS in this process."""
    cls = _guard_class(kind, s)
    return [_render_guard(cls, kind, s) for _ in range(renders)]


def judge_guard(chk: Check, row: Dict[str, Any], hist: List[Dict[str, Any]], origin: str) -> None:
    """Every render of the history must have an outcome the specification admits for the content."""
    for n, obs in enumerate(hist):
        if obs["outcome"] in row["admitted"]:
            continue
        dev = row.get("dev") or {}
        key = dev["key"] if dev.get("key") and obs["outcome"] == dev["outcome"] else None
        chk.violation({"kind": "guard", "origin": origin, "component_attr": row["kind"], "content": row["s"],
                       "renders": n + 1},
                      {"admitted": row["admitted"], "observed": obs["outcome"], "exception": obs["exc"],
                       "render": n + 1, "history": [o["outcome"] for o in hist[: n + 1]],
                       "output_after_start_tag": obs["rest"][:300]}, key=key)
        return


# ====================================================================== TLC: bounded instances
_INV_A = ["LawOverride", "LawAppend", "CaseOK"]
_INV_S = ["StepwiseIsRun", "Refines", "NeverTwice", "Export"]
_INV_G = ["Agree", "Shape", "AdmittedNonEmpty", "HistoryLaw", "Export"]


def _write_cfg(path: Path, consts: Dict[str, Any], invariants: List[str], properties: List[str] = (),
               overrides: Dict[str, str] = None) -> None:
    lines = ["SPECIFICATION MCSpec", "CONSTANTS"]
    for k, v in consts.items():
        lines.append(f"  {k} = " + (f'"{v}"' if isinstance(v, str) else str(v)))
    for k, v in (overrides or {}).items():
        lines.append(f"  {k} <- {v}")
    lines += [f"INVARIANT {i}" for i in invariants] + [f"PROPERTY {p}" for p in properties]
    path.write_text("\n".join(lines) + "\n")


def _instances(tier: str) -> List[Dict[str, Any]]:
    """The bounded instances of a tier: (name, module, constants, invariants, ...).  The html_attrs
    "forms" instances are split over several TLC runs (disjoint sets of writing forms)."""
    q = tier != "thorough"
    over = {"NameClass": "NameClassCached"}

    def attrs(name, parts=1, **consts):
        return [dict(name=name + (f"-{k + 1}of{parts}" if parts > 1 else ""), module="MC_C13A", inv=_INV_A,
                     over=over, consts=dict(consts, Split=k, Splits=parts)) for k in range(parts)]
    return (
        attrs("attrs-forms", 2 if q else 3, Profile="forms", MaxKw=2, MaxEntries=3, NNames=2 if q else 3)
        + ([] if q else attrs("attrs-forms-deep", 3, Profile="forms", MaxKw=2, MaxEntries=4, NNames=2))
        + attrs("attrs-values", Profile="values", MaxKw=2 if q else 3, MaxEntries=9, NNames=1)
        + attrs("attrs-repeat", Profile="repeat", MaxKw=5 if q else 6, MaxEntries=9, NNames=3)
        + attrs("attrs-names", Profile="names", MaxKw=1, MaxEntries=9, NNames=1)
        + attrs("attrs-aggrep", Profile="aggrep", MaxKw=1, MaxEntries=3 if q else 4, NNames=2)
        + [dict(name="guard", module="MC_C13G", inv=_INV_G, consts=dict(MaskMode="few" if q else "all", MaxRenders=3)),
           dict(name="slots", module="MC_C13S", inv=_INV_S, props=["CountMonotone"],
                consts=dict(MaxHops=2 if q else 3))])


def _run_instance(w: Path, inst: Dict[str, Any]) -> Dict[str, Any]:
    cfg = w / f"{inst['name']}.cfg"
    out = w / f"{inst['name']}.ndjson"
    if out.exists():
        out.unlink()
    _write_cfg(cfg, inst["consts"], inst["inv"], inst.get("props", []), inst.get("over"))
    r = tlc.require_ok(tlc.run(inst["module"], str(cfg), env=dict(TLC_ENV, OUT=str(out)), workers=1,
                               timeout=3000), f"{inst['module']} {inst['name']}")
    rows = tlc.read_ndjson(out)
    # one exported line per distinct state (slots: the 24 hop-less initial states carry no case)
    skipped = 24 if inst["name"] == "slots" else 0
    if len(rows) != r.distinct - skipped:
        raise MachineryError(f"{inst['name']}: export incomplete, {len(rows)} rows for {r.distinct} states")
    return {"name": inst["name"], "rows": rows, "states": r.distinct, "transitions": r.generated,
            "wall_s": round(r.wall_s, 1)}


def compute_exports(tier: str, only: Optional[List[str]] = None) -> List[Dict[str, Any]]:
    """Run the bounded instances (concurrently, one TLC worker each: export order matters)."""
    from concurrent.futures import ThreadPoolExecutor
    w = workdir("c13mc")
    insts = [i for i in _instances(tier) if only is None or i["name"] in only]
    with ThreadPoolExecutor(max_workers=min(8, len(insts))) as ex:
        return list(ex.map(lambda i: _run_instance(w, i), insts))


# ====================================================================== spec -> code
def _observe_row(arg: Tuple[str, Dict[str, Any]]) -> Dict[str, Any]:
    name, row = arg
    if name.startswith("attrs"):
        return observe_attrs(row)
    if name == "slots":
        return observe_slot(row["origin"], row["content"], row["hops"])
    return observe_guard(row["kind"], row["s"], row["renders"])


def _observe_all(items: List[Tuple[str, Dict[str, Any]]], procs: int) -> List[Dict[str, Any]]:
    if procs <= 1 or len(items) < 2000:
        return [_observe_row(i) for i in items]
    import multiprocessing as mp
    ctx = mp.get_context("fork")          # children inherit the configured Django and any probe patch
    with ctx.Pool(procs) as pool:
        return pool.map(_observe_row, items, chunksize=500)


def replay_exports(chk: Check, exports: List[Dict[str, Any]], procs: int = 6) -> None:
    items = [(e["name"], row) for e in exports for row in e["rows"]]
    obs = _observe_all(items, procs)
    pending: List[Tuple] = []
    for n, ((name, row), o) in enumerate(zip(items, obs)):
        if name.startswith("attrs"):
            nontrivial = bool(row["kws"]) or (bool(row["attrs"]) and bool(row["defaults"])) or \
                any(it["cls"] != "exact" for it in row["items"]) or \
                any(len({e["n"] for e in row[k]}) < len(row[k]) for k in ("attrs", "defaults"))
            chk.count(["a", row["defaults"], row["attrs"], row["kws"], row["vias"], row["fa"], row["fd"],
                       row.get("avias"), row.get("dvias")], nontrivial)
            judge_attrs(chk, pending, row, o, "mc:" + name, n)
        elif name == "slots":
            chk.count(["s", row["origin"], row["content"], row["hops"]], True)
            judge_slot(chk, row, o, "mc:slots")
        else:
            chk.count(["g", row["kind"], row["s"]], "<" in row["s"])
            judge_guard(chk, row, o, "mc:guard")
    settle_attrs(chk, pending)
    for e in exports:
        chk.add("states", e["states"])
        chk.add("transitions", e["transitions"])
        chk.add("cases_replayed", len(e["rows"]))
        chk.cov.setdefault("instances", {})[e["name"]] = {"cases": len(e["rows"]), "tlc_wall_s": e["wall_s"]}
        if e["rows"]:
            r = e["rows"][len(e["rows"]) * 2 // 3]
            chk.sample({e["name"]: {k: v for k, v in r.items() if k not in ("once", "twice")}}, limit=6)


# ====================================================================== code -> spec: random drivers
_EXACT_KW = ["class", "id", "data-x", "@click", "x-on.y", "aria-label", "é", "a_b", "hx-get", "@click.stop"]
_EXACT_DICT = _EXACT_KW + [":cls", "v-bind:k", "ünï", "a#b"]
_WEAK = ["a&b", "a<b", "a'b", "a\"b", "q>r"]
_UNREP = ["x y", "a=b", "a/b", "on mouseover=alert(1) z", "t\tu"]
_CHUNKS = list("abcxyz019 -_.:;#=/{}%\\") + ['"', "'", "<", ">", "&", " ", " ", "é", "ü", "中", "\n", "\t",
                                             "&amp;", "&lt;", "&#39;", "&quot;", "&copy;", "<b>", "\">", "' x='"]
_SAFE_CHUNKS = list("abcxyz019 -_.:;#'") + ["&amp;", "&lt;", "&gt;", "&quot;", "&#x27;"]


def _rand_value(rnd: random.Random, for_kw: bool = False, strict: int = 0) -> Dict[str, str]:
    """strict 2: a plain string; strict 1: plain string / True / None (used next to names HTML cannot carry,
    whose deviation predicts one exact reading and therefore needs determined values everywhere)."""
    x = rnd.random()
    if strict == 2 or (strict == 1 and x < 0.8):
        return {"t": "str", "s": "".join(rnd.choice(_CHUNKS) for _ in range(rnd.randint(0, 8)))}
    if strict == 1:
        return {"t": "true", "s": ""} if x < 0.92 else {"t": "none", "s": ""}
    if for_kw:                      # keep most appends determined: mostly strings as keyword values
        x = x * 0.6 if x < 0.85 else 0.6 + (x - 0.85) / 0.15 * 0.4
    if x < 0.60:
        return {"t": "str", "s": "".join(rnd.choice(_CHUNKS) for _ in range(rnd.randint(0, 8)))}
    if x < 0.68:
        return {"t": "safe", "s": "".join(rnd.choice(_SAFE_CHUNKS) for _ in range(rnd.randint(0, 6)))}
    if x < 0.80:
        return {"t": "num", "s": rnd.choice(["0", "1", "7", "42", "-3", "2.5", "100", "0.25"])}
    if x < 0.87:
        return {"t": "true", "s": ""}
    if x < 0.92:
        return {"t": "false", "s": ""}
    return {"t": "none", "s": ""}


def _rand_dict(rnd: random.Random, names: List[str], kmax: int, strict=lambda n: 0) -> List[Dict[str, Any]]:
    k = rnd.randint(0, min(kmax, len(names)))
    return [{"n": n, "v": _rand_value(rnd, strict=strict(n))} for n in rnd.sample(names, k)]


_FORM_PAIRS = [(a, d) for a in ("pos", "posnone", "kw", "kwlast", "agg", "spread", "absent")
               for d in ("pos", "kw", "kwlast", "agg", "spread", "absent")
               if d != "pos" or a in ("pos", "posnone")]


def record_attrs_trace(rnd: random.Random, tid: int) -> Dict[str, Any]:
    """One compiled {% html_attrs %} template rendered 1-4 times.  Dictionaries whose intended content
    does not change between two renders are the SAME objects (a library that mutates its inputs shows)."""
    from django.template import Template
    fa, fd = rnd.choice(_FORM_PAIRS)
    route = rnd.choice(["template"] * 8 + ["component"] * 2 + ["api"])
    if route == "api":
        fa, fd = "pos", "absent"
    odd = rnd.random() < 0.12 and route != "component"
    pool = list(_EXACT_DICT)
    odd_name = rnd.choice(_WEAK + _UNREP) if odd else None
    if odd:
        pool += [odd_name]
    names = rnd.sample(pool, rnd.randint(1, 5))
    unrep = odd_name in _UNREP and odd_name in names
    kwnames = [n for n in names if n in _EXACT_KW] or ["class"]
    nkw = 0 if route == "api" else rnd.choice([0, 0, 1, 1, 2, 2, 3, 4, 6])
    kws_shape = []
    for _ in range(nkw):
        n = rnd.choice(kwnames)
        v = _rand_value(rnd, True, strict=2 if unrep else 0)
        lit_ok = v["t"] in ("num", "true", "none") or (v["t"] == "str" and v["s"] and
                                                       re.fullmatch(r"[A-Za-z0-9 _.:;#-]+", v["s"]) is not None)
        via = rnd.choice(["var", "var", "spread", "lit" if lit_ok else "var"])
        kws_shape.append((n, via, v if via == "lit" else None))

    def agg_shape():
        """A dictionary written as aggregate keywords: (name, via, literal value or None) per keyword; in half
        of the cases a prefix:name is given again once or twice (joined like any repeated keyword)."""
        pool = [n for n in names if n in _EXACT_KW]
        ns = rnd.sample(pool, min(len(pool), rnd.randint(0, 3)))
        if ns and rnd.random() < 0.5:
            for _ in range(rnd.randint(1, 2)):
                ns.insert(rnd.randint(0, len(ns)), rnd.choice(ns))
        shape = []
        for n in ns:
            v = _rand_value(rnd, ns.count(n) > 1, strict=2 if unrep else 0)
            lit_ok = v["t"] in ("num", "true", "none") or (v["t"] == "str" and v["s"] and
                                                           re.fullmatch(r"[A-Za-z0-9 _.:;#-]+", v["s"]) is not None)
            via = rnd.choice(["var", "var", "spread", "lit" if lit_ok else "var"])
            shape.append((n, via, v if via == "lit" else None))
        return shape
    agg_a = agg_shape() if fa == "agg" else None
    agg_d = agg_shape() if fd == "agg" else None
    kw_used = {n for n, _, _ in kws_shape}
    joined = {n for sh in (agg_a, agg_d) if sh for n, _, _ in sh if [m for m, _, _ in sh].count(n) > 1}
    # the tag's keywords (aggregate keywords, attrs= / defaults=, plain keywords) in any order: rules 1 and 3
    order = ["a"] * (len(agg_a) if agg_a is not None else fa == "kw") + \
            ["d"] * (len(agg_d) if agg_d is not None else fd == "kw") + ["k"] * nkw
    if rnd.random() < 0.4:
        rnd.shuffle(order)

    def strict(n):
        return 0 if not unrep else 2 if n in kw_used or n in joined else 1
    events: List[Dict[str, Any]] = []
    tpl = None
    src0 = None
    prev_ctx: Dict[str, Any] = {}
    prev_case: Optional[Dict[str, Any]] = None
    for _ in range(rnd.randint(1, 4)):
        def gen(form, agg, key):
            if form in ("absent", "posnone"):
                return []
            if prev_case is not None and rnd.random() < 0.5:
                return prev_case[key]                     # unchanged -> same object again
            if agg is not None:
                return [{"n": n, "v": lit if lit is not None else _rand_value(rnd, n in joined, strict=strict(n))}
                        for n, via, lit in agg]
            return _rand_dict(rnd, names, 4, strict)
        case = {"defaults": gen(fd, agg_d, "defaults"), "attrs": gen(fa, agg_a, "attrs"),
                "kws": [{"n": n, "v": lit if lit is not None else _rand_value(rnd, True, strict=2 if unrep else 0)}
                        for n, via, lit in kws_shape],
                "vias": [via for _, via, _ in kws_shape], "fa": fa, "fd": fd,
                "avias": [via for _, via, _ in agg_a or []], "dvias": [via for _, via, _ in agg_d or []],
                "order": order}
        src, ctx = materialize_attrs(case)
        if tpl is None:
            src0 = src
            try:
                tpl = Template(src) if route == "template" else _ComponentHosted(src) if route == "component" \
                    else _DirectCall()
            except Exception as e:
                raise MachineryError(f"generated tag does not compile: {src!r}: {e!r}")
        elif src != src0:
            raise MachineryError(f"template shape changed between renders: {src0!r} vs {src!r}")
        if prev_case is not None:
            for key, var in (("attrs", "A"), ("defaults", "D")):
                if case[key] is prev_case[key] and var in prev_ctx and var in ctx:
                    ctx[var] = prev_ctx[var]
            if "SP0" in ctx and "SP0" in prev_ctx:
                for key in ("attrs", "defaults"):
                    if case[key] is prev_case[key] and key in ctx["SP0"] and key in prev_ctx["SP0"]:
                        ctx["SP0"][key] = prev_ctx["SP0"][key]
        obs = render_attrs(tpl, ctx)
        events.append({"defaults": case["defaults"], "attrs": case["attrs"], "kws": case["kws"],
                       "obs": {f: obs[f] for f in _OBS_FIELDS}})
        prev_ctx, prev_case = ctx, case
    return {"id": tid, "kind": "attrs", "events": events, "src": src0, "fa": fa, "fd": fd, "route": route,
            "vias": [via for _, via, _ in kws_shape], "avias": [via for _, via, _ in agg_a or []],
            "dvias": [via for _, via, _ in agg_d or []], "order": order}


_TEXT_BITS = ["a", "b c", "é", "中", " & ", "\"q\"", "'s'", "&amp;", "&lt;", "1 &gt; 0", " ", "x=y;", "&#39;"]


def _rand_fragment(rnd: random.Random, depth: int = 0) -> str:
    """A well-formed HTML fragment with quotes, ampersands, references, non-ASCII text and elements."""
    out = []
    for _ in range(rnd.randint(1, 4)):
        x = rnd.random()
        if x < 0.55 or depth >= 2:
            out.append(rnd.choice(_TEXT_BITS))
        else:
            tag = rnd.choice(["b", "i", "span", "p"])
            attr = rnd.choice(["", "", ' class="k"', " title='t &amp; u'", ' data-x="1 > 0"'])
            out.append(f"<{tag}{attr}>{_rand_fragment(rnd, depth + 1)}</{tag}>")
    return "".join(out)


def record_slot_trace(rnd: random.Random, tid: int) -> Dict[str, Any]:
    origin = rnd.choice(["str", "str", "safe", "fn_str", "fn_str", "fn_safe", "slot_fn_str", "slot_fn_safe",
                         "slot_slot_fn_str", "slot_escaped_fn_str"])
    n = rnd.choice([1, 2, 2, 3, 3, 4, 5])
    hops = [{"via": rnd.choice(["render", "render", "dynamic"]), "flag": rnd.random() < 0.6}]
    while len(hops) < n:
        if hops[-1]["via"] == "fill" or rnd.random() < 0.2:
            hops.append({"via": "fill", "flag": False})
        else:
            hops.append({"via": rnd.choice(["render", "render", "dynamic"]), "flag": rnd.random() < 0.5})
    content = _rand_fragment(rnd)
    if hops[0]["flag"] and origin in ("str", "fn_str", "slot_fn_str", "slot_slot_fn_str") and rnd.random() < 0.4:
        # the specification demands escaping here, so arbitrary (also malformed) markup may be used
        content = "".join(rnd.choice(_CHUNKS + ["</div>", "<script>", "-->", "<!--"]) for _ in range(rnd.randint(1, 9)))
    content = content.strip() or "&"
    obs = observe_slot(origin, content, hops)
    return {"id": tid, "kind": "slot", "origin": origin, "content": content, "hops": hops,
            "out": obs["out"], "err": obs["err"]}


_G_BITS = ["</", "</", "<", "/", "script", "SCRIPT", "sCrIpT", "Script", "style", "STYLE", "Style", "stYLe",
           ">", ">", " ", "\n", "\t", "x", "=", "\"", "'", "-", "a();", "{}", "/>", "é", "scr", "ipt", "<\\/"]


def _rand_guard_content(rnd: random.Random) -> str:
    while True:
        s = ("M1" + rnd.choice(["", " ", ";"]) + "".join(rnd.choice(_G_BITS) for _ in range(rnd.randint(0, 12))) +
             rnd.choice(["", "Z()", ";"])).strip()
        if "<!--" not in s:
            return s


def _play_guard_history(comps: List[Tuple[str, str]], plan: List[int]) -> List[Dict[str, Any]]:
    """Render the component classes (one fresh class per entry of comps) in the order of `plan`."""
    classes = [_guard_class(kind, s) for kind, s in comps]
    events = []
    for c in plan:
        kind, s = comps[c]
        obs = _render_guard(classes[c], kind, s)
        events.append({"c": c, "gkind": kind, "s": s, "outcome": obs["outcome"], "rest": obs["rest"], "exc": obs["exc"]})
    return events


def record_guard_trace(rnd: random.Random, tid: int) -> Dict[str, Any]:
    """A history in one process: one component class rendered 1-3 times, in a third of the traces interleaved
    with the renders of a second class (other content, or - another class - the very same content)."""
    comps = [(rnd.choice(["js", "css"]), _rand_guard_content(rnd))]
    plan = [0] * rnd.choice([1, 2, 2, 3])
    if rnd.random() < 0.35:
        comps.append(comps[0] if rnd.random() < 0.3 else (rnd.choice(["js", "css"]), _rand_guard_content(rnd)))
        plan += [1] * rnd.choice([1, 2])
        rnd.shuffle(plan)
    return {"id": tid, "kind": "guard", "comps": [list(c) for c in comps], "plan": plan,
            "events": _play_guard_history(comps, plan)}


def record_traces(seed: int, n_attrs: int, n_slots: int, n_guard: int) -> List[Dict[str, Any]]:
    traces: List[Dict[str, Any]] = []
    for kind, n, fn in (("attrs", n_attrs, record_attrs_trace), ("slot", n_slots, record_slot_trace),
                        ("guard", n_guard, record_guard_trace)):
        for i in range(n):
            rnd = random.Random(seed * 1000003 + {"attrs": 1, "slot": 2, "guard": 3}[kind] * 100000 + i)
            traces.append(fn(rnd, len(traces) + 1))
    return traces


_TRACE_FIELDS = {"attrs": ("id", "kind", "events"), "slot": ("id", "kind", "origin", "content", "hops", "out", "err"),
                 "guard": ("id", "kind", "events")}


def judge_traces_with_tlc(traces: List[Dict[str, Any]], batch: int = 1500, parallel: int = 3) -> Dict[str, Any]:
    """Trace_C13 on the recorded observations: {accepted:set, rejected:{id:why}, drift:set, states:int}."""
    from concurrent.futures import ThreadPoolExecutor
    w = workdir("c13tr")
    cfg = w / "trace.cfg"
    cfg.write_text("SPECIFICATION TrSpec\n")
    chunks = [traces[i:i + batch] for i in range(0, len(traces), batch)]

    def one(args):
        k, chunk = args
        f = w / f"traces_{k}.ndjson"
        tlc.write_ndjson(f, [{fld: t[fld] for fld in _TRACE_FIELDS[t["kind"]]} for t in chunk])
        r = tlc.require_ok(tlc.run("Trace_C13", str(cfg), env=dict(TLC_ENV, IN=str(f)), workers=1, timeout=3000),
                           "Trace_C13")
        # TLC wraps long tuples over several lines, so the verdict lines are matched across line breaks
        acc = {int(m.group(1)) for m in re.finditer(r'<<\s*"ACCEPT",\s*(\d+)\s*>>', r.out)}
        rej = {int(m.group(1)): {"event": int(m.group(2)), "clauses": re.sub(r"\s+", " ", m.group(3))}
               for m in re.finditer(r'<<\s*"REJECT",\s*(\d+),\s*(\d+),\s*(\{[^{}]*\})\s*>>', r.out)}
        ids = {t["id"] for t in chunk}
        if (acc | set(rej)) != ids or acc & set(rej):
            tail = "\n".join(r.out.splitlines()[-30:])
            raise MachineryError(f"Trace_C13: {len(acc)}+{len(rej)} verdicts for {len(chunk)} traces\n{tail}")
        drift = {int(m.group(1)) for m in re.finditer(r'<<\s*"DRIFT",\s*(\d+),', r.out)}
        return {"accepted": acc, "rejected": rej}, drift, r.distinct
    res = {"accepted": set(), "rejected": {}, "drift": set(), "states": 0}
    with ThreadPoolExecutor(max_workers=max(1, min(parallel, len(chunks)))) as ex:
        for v, drift, states in ex.map(one, enumerate(chunks)):
            res["accepted"] |= v["accepted"]
            res["rejected"].update(v["rejected"])
            res["drift"] |= drift
            res["states"] += states
    return res


def validate_traces(chk: Check, traces: List[Dict[str, Any]]) -> None:
    res = judge_traces_with_tlc(traces)
    by_id = {t["id"]: t for t in traces}
    for tid, why in sorted(res["rejected"].items()):
        t = by_id[tid]
        m = re.search(r'"dev:([^"]+)"', why["clauses"])
        key = m.group(1) if m and why["clauses"].count('"') == 2 else None
        if t["kind"] == "attrs":
            case = {"kind": "html_attrs_trace", "template": t["src"], "fa": t["fa"], "fd": t["fd"], "vias": t["vias"],
                    "avias": t["avias"], "dvias": t["dvias"], "order": t["order"],
                    "route": t["route"], "events": t["events"][: why["event"]]}
        else:
            case = {k: v for k, v in t.items() if k != "id"}
            case["kind"] = t["kind"] + "_trace"
            if t["kind"] == "guard":
                case["plan"] = t["plan"][: why["event"]]
                case["events"] = t["events"][: why["event"]]
        chk.violation(case, {"tlc": why}, key=key)
    for t in traces:
        chk.count([t.get("src"), t.get("events"), t.get("origin"), t.get("content"), t.get("hops")], True)
    chk.add("traces_validated_against_impl", len(traces))
    chk.add("trace_events", sum(len(t["events"]) if "events" in t else 1 for t in traces))
    chk.add("guard_histories_with_repeated_render",
            sum(1 for t in traces if t["kind"] == "guard" and len(set(t["plan"])) < len(t["plan"])))
    chk.add("trace_states", res["states"])
    chk.add("parser_model_drift", len(res["drift"]))
    for kind in ("attrs", "slot", "guard"):
        ts = [t for t in traces if t["kind"] == kind]
        if ts:
            t = ts[len(ts) // 2]
            if kind == "guard":
                t = dict(t, events=[{k: v for k, v in e.items() if k != "rest"} for e in t["events"]])
            chk.sample({"trace_" + kind: {k: v for k, v in t.items() if k not in ("id", "rest")}}, limit=9)


# ====================================================================== entry points
_RULE = ("spec->code: every state of the bounded TLC instances is a case (html_attrs: one name x all value "
         "representatives x <=MaxKw keywords; 2-3 names x every writing form; odd attribute names.  slots: origin x "
         "hop chain x content.  js/css: prefix x open x letter-case pattern x tail, each rendered 3 times in one "
         "process; html_attrs aggrep: aggregate keywords with a prefix:key repeated <= 3 times x var/literal/spread) "
         "and is replayed on the real "
         "library; code->spec: seeded random deeper runs judged by TLC (Trace_C13).  Non-trivial: html_attrs cases "
         "with a keyword, an override, a repeated aggregate key or a non-exact name; all slot cases; js/css contents containing '<'.  "
         "Distinct by hash of the abstract case.")
_ASSUME = [
    "html.parser (Python stdlib) stands for 'an HTML parser' for start tags; for <script>/<style> content the "
    "tokenizer of specs/EndTagGuard.tla is used (html.parser 3.12 does not follow the standard there)",
    "attribute names are lower-case; safe strings contain no raw double quote; template literals only without "
    "special characters",
    "appending to/with None/True/False (also via a repeated aggregate keyword), dynamic expressions and filters "
    "inside html_attrs are unspecified and admitted/not generated",
    "a template fill handed on from Python (fill hop followed by render/dynamic hop) is not generated: it raises "
    "RecursionError on the current tree (slot resolution, not escaping)",
    "raw (unescaped) slot contents are well-formed HTML fragments; generated JS/CSS never contains '<!--' or outer "
    "white space",
]


def _core(chk: Check, exports: List[Dict[str, Any]], n_attrs: int, n_slots: int, n_guard: int, procs: int) -> None:
    replay_exports(chk, exports, procs)
    validate_traces(chk, record_traces(chk.seed, n_attrs, n_slots, n_guard))


def run(tier: str) -> int:
    from . import boot
    boot.setup()
    chk = Check(PID, tier, "model_checking")
    quick = tier != "thorough"
    exports = compute_exports(tier)
    if quick:
        _core(chk, exports, n_attrs=1200, n_slots=300, n_guard=900, procs=6)
    else:
        _core(chk, exports, n_attrs=15000, n_slots=2500, n_guard=10000, procs=8)
    chk.cov["exhaustive"] = True
    chk.cov["rule"] = _RULE
    chk.assumptions += _ASSUME
    return chk.finish()


def _trace_of_case(case: Dict[str, Any]) -> Dict[str, Any]:
    """Re-run a stored violation case on the real code and return it as a trace for Trace_C13."""
    from django.template import Template
    k = case["kind"]
    if k == "html_attrs":
        c = case["case"]
        obs = observe_attrs(c)
        ev = {"defaults": c["defaults"], "attrs": c["attrs"], "kws": c["kws"],
              "obs": {f: obs[f] for f in _OBS_FIELDS}}
        return {"id": 1, "kind": "attrs", "events": [ev], "src": obs["src"]}
    if k == "html_attrs_trace":
        events, tpl, prev = [], None, {}
        for e in case["events"]:
            c = dict(e, fa=case["fa"], fd=case["fd"], vias=case["vias"], avias=case.get("avias"),
                     dvias=case.get("dvias"), order=case.get("order"))
            src, ctx = materialize_attrs(c)
            route = case.get("route", "template")
            tpl = tpl or (Template(src) if route == "template" else _ComponentHosted(src) if route == "component"
                          else _DirectCall())
            for var in ("A", "D"):                      # same content as before -> same object as before
                if var in prev and var in ctx and prev[var][0] == c["attrs" if var == "A" else "defaults"]:
                    ctx[var] = prev[var][1]
            obs = render_attrs(tpl, ctx)
            prev = {var: (c["attrs" if var == "A" else "defaults"], ctx[var]) for var in ("A", "D") if var in ctx}
            events.append({"defaults": e["defaults"], "attrs": e["attrs"], "kws": e["kws"],
                           "obs": {f: obs[f] for f in _OBS_FIELDS}})
        return {"id": 1, "kind": "attrs", "events": events, "src": case["template"]}
    if k in ("slot", "slot_trace"):
        origin = case.get("content_origin") or case["origin"]
        obs = observe_slot(origin, case["content"], case["hops"])
        return {"id": 1, "kind": "slot", "origin": origin, "content": case["content"], "hops": case["hops"],
                "out": obs["out"], "err": obs["err"]}
    if k == "guard":
        comps, plan = [(case["component_attr"], case["content"])], [0] * case.get("renders", 1)
        return {"id": 1, "kind": "guard", "comps": comps, "plan": plan, "events": _play_guard_history(comps, plan)}
    if k == "guard_trace":
        if "plan" in case:
            comps, plan = [tuple(c) for c in case["comps"]], case["plan"]
        else:                                           # stored before histories were recorded: one render
            comps, plan = [(case["gkind"], case["s"])], [0]
        return {"id": 1, "kind": "guard", "comps": comps, "plan": plan, "events": _play_guard_history(comps, plan)}
    raise MachineryError(f"unknown case kind {k}")


def replay(path: str) -> int:
    """Re-run the stored case on the current tree; TLC (Trace_C13) judges the fresh observation."""
    from . import boot
    boot.setup()
    d = json.load(open(path, encoding="utf-8"))
    t = _trace_of_case(d["case"])
    print(json.dumps({k: v for k, v in t.items() if k != "id"}, indent=1, ensure_ascii=False))
    res = judge_traces_with_tlc([t])
    if 1 in res["accepted"]:
        print("conforms to the specification")
        return 0
    print("REJECTED by the specification:", res["rejected"][1])
    return 1


# ====================================================================== selftest: mutation probes
def selftest(tier: str) -> int:
    """In-process mutation probes (never touch /repo): each is a realistic bug of the code under C13;
    the core of the check must report at least one violation for each."""
    from contextlib import ExitStack, contextmanager
    from . import boot
    from .core import run_probes
    boot.setup()
    import django_components.attributes as da
    import django_components.component as dc
    import django_components.dependencies as dd
    import django_components.util.template_tag as tt
    from django.utils.html import conditional_escape, escape, format_html
    from django.utils.safestring import SafeString, mark_safe

    @contextmanager
    def patch(*triples):
        with ExitStack() as st:
            for obj, name, new in triples:
                old = getattr(obj, name)
                setattr(obj, name, new)
                st.callback(setattr, obj, name, old)
            yield

    # ---- html_attrs
    def node_render(merge):
        # NodeMeta wraps render() at class creation (parameter resolution + validation around the real
        # body), so the mutant body is wrapped the same way by subclassing and its wrapper is installed
        class Mutant(da.HtmlAttrsNode):
            tag = "html_attrs"

            def render(self, context, attrs=None, defaults=None, **kwargs):
                return da.attributes_to_string(merge(attrs, defaults, kwargs))
        return Mutant.render

    def m_swapped(attrs, defaults, kwargs):
        d = dict(attrs or {})
        d.update(defaults or {})
        return da.append_attributes(*d.items(), *kwargs.items())

    def m_replace(attrs, defaults, kwargs):
        d = dict(defaults or {})
        d.update(attrs or {})
        d.update(kwargs)
        return d

    def m_mutating(attrs, defaults, kwargs):
        d = defaults if defaults is not None else {}
        d.update(attrs or {})
        return da.append_attributes(*d.items(), *kwargs.items())

    def append_sep(sep):
        def append_attributes(*args):
            result = {}
            for key, value in args:
                if key in result:
                    result[key] += sep + value
                else:
                    result[key] = value
            return result
        return append_attributes

    def to_string(skip, bare, fmt):
        def attributes_to_string(attributes):
            out = []
            for key, value in attributes.items():
                if skip(value):
                    continue
                out.append(conditional_escape(key) if bare(value) else fmt(key, value))
            return mark_safe(SafeString(" ").join(out))
        return attributes_to_string
    std_skip = lambda v: v is None or v is False            # noqa: E731
    std_bare = lambda v: v is True                          # noqa: E731
    std_fmt = lambda k, v: format_html('{}="{}"', k, v)     # noqa: E731

    def merge_reversed(params):
        out = tt_orig_merge(list(reversed(params)))
        return list(reversed(out))
    tt_orig_merge = tt.merge_repeated_kwargs

    def merge_last_wins(params):
        seen = {}
        for p in params:
            if p.key is not None:
                seen[p.key] = p
        return [p for p in params if p.key is None or seen[p.key] is p]

    def merge_plain_only(params):
        # only plain keywords are merged; a repeated attrs:k / defaults:k reaches the aggregation unmerged (last wins)
        agg = [p for p in params if p.key is not None and ":" in p.key and p.key.split(":")[0] in ("attrs", "defaults")]
        out = tt_orig_merge([p for p in params if not any(p is a for a in agg)])
        return out + agg

    attrs_probes = [
        ("attrs:defaults-override-attrs", lambda: patch((da.HtmlAttrsNode, "render", node_render(m_swapped)))),
        ("attrs:keyword-replaces-instead-of-appending", lambda: patch((da.HtmlAttrsNode, "render", node_render(m_replace)))),
        ("attrs:defaults-dict-mutated-in-place", lambda: patch((da.HtmlAttrsNode, "render", node_render(m_mutating)))),
        ("attrs:appended-without-space", lambda: patch((da, "append_attributes", append_sep("")))),
        ("attrs:appended-with-two-spaces", lambda: patch((da, "append_attributes", append_sep("  ")))),
        ("attrs:value-not-escaped", lambda: patch((da, "attributes_to_string", to_string(
            std_skip, std_bare, lambda k, v: mark_safe('%s="%s"' % (conditional_escape(k), v)))))),
        ("attrs:only-angle-brackets-escaped-in-values", lambda: patch((da, "attributes_to_string", to_string(
            std_skip, std_bare, lambda k, v: mark_safe('%s="%s"' % (conditional_escape(k), v if isinstance(v, SafeString) else
                                                    str(v).replace("&", "&amp;").replace("<", "&lt;").replace(">", "&gt;"))))))),
        ("attrs:name-not-escaped", lambda: patch((da, "attributes_to_string", to_string(
            std_skip, lambda v: False if v is not True else True,
            lambda k, v: mark_safe('%s="%s"' % (k, conditional_escape(v))))))),
        ("attrs:value-escaped-twice", lambda: patch((da, "attributes_to_string", to_string(
            std_skip, std_bare, lambda k, v: format_html('{}="{}"', k, "" + conditional_escape(v)))))),
        ("attrs:falsy-values-dropped", lambda: patch((da, "attributes_to_string", to_string(
            lambda v: not v, std_bare, std_fmt)))),
        ("attrs:none-rendered-as-text", lambda: patch((da, "attributes_to_string", to_string(
            lambda v: v is False, std_bare, std_fmt)))),
        ("attrs:true-rendered-as-value", lambda: patch((da, "attributes_to_string", to_string(
            std_skip, lambda v: False, std_fmt)))),
        ("attrs:repeated-keywords-joined-right-to-left", lambda: patch((tt, "merge_repeated_kwargs", merge_reversed))),
        ("attrs:repeated-keyword-last-wins", lambda: patch((tt, "merge_repeated_kwargs", merge_last_wins))),
        ("attrs:repeated-aggregate-keyword-last-wins", lambda: patch((tt, "merge_repeated_kwargs", merge_plain_only))),
    ]

    # ---- slots
    orig_norm = dc.Component._normalize_slot_fills

    def norm_with(esc, always_wrap=False, str_flag=None, fn_flag=None):
        """_normalize_slot_fills with the escaping function / flags replaced."""
        def _normalize_slot_fills(self, fills, escape_content=True):
            from django_components.slots import Slot
            with patch((dc, "conditional_escape", esc)):
                if always_wrap:                   # forget that a slot was wrapped before
                    fills = {k: (Slot(v.content_func) if isinstance(v, Slot) else v) for k, v in fills.items()}
                out = {}
                for k, v in fills.items():
                    flag = escape_content
                    if str_flag is not None and v is not None and not callable(v):
                        flag = str_flag
                    if fn_flag is not None and callable(v):
                        flag = fn_flag
                    out.update(orig_norm(self, {k: v}, flag))
                # the wrappers call dc.conditional_escape when the slot is rendered: bind `esc` for good
                for s in out.values():
                    f = s.content_func
                    s.content_func = (lambda f: lambda *a, **kw: _call_with(esc, f, a, kw))(f)
                return out
        return _normalize_slot_fills

    def _call_with(esc, f, a, kw):
        with patch((dc, "conditional_escape", esc)):
            return f(*a, **kw)

    slot_probes = [
        ("slots:function-result-not-escaped", lambda: patch((dc.Component, "_normalize_slot_fills",
                                                              norm_with(conditional_escape, fn_flag=False)))),
        ("slots:plain-string-not-escaped", lambda: patch((dc.Component, "_normalize_slot_fills",
                                                           norm_with(conditional_escape, str_flag=False)))),
        ("slots:escape-flag-ignored-for-strings", lambda: patch((dc.Component, "_normalize_slot_fills",
                                                                  norm_with(conditional_escape, str_flag=True)))),
        ("slots:safe-content-escaped-too", lambda: patch((dc.Component, "_normalize_slot_fills", norm_with(escape)))),
        ("slots:re-passed-slot-escaped-again", lambda: patch((dc.Component, "_normalize_slot_fills",
                                                               norm_with(escape, always_wrap=True)))),
    ]

    # ---- js / css guard
    def wrap(tag, needle):
        def w(comp_cls, content):
            if needle is not None and needle(content):
                raise RuntimeError("refused")
            return f"<{tag}>{content}</{tag}>"
        return w
    def wrap_memo(tag):
        seen = set()

        def w(comp_cls, content):
            # "scan every script only once": the scan is skipped at later renders, whatever it found
            if (tag, content) not in seen:
                seen.add((tag, content))
                if f"</{tag}" in content.lower():
                    raise RuntimeError("refused")
            return f"<{tag}>{content}</{tag}>"
        return w
    guard_probes = [
        ("guard:only-at-the-first-render-of-a-script", lambda: patch((dd, "wrap_component_js", wrap_memo("script")),
                                                                     (dd, "wrap_component_css", wrap_memo("style")))),
        ("guard:removed", lambda: patch((dd, "wrap_component_js", wrap("script", None)),
                                        (dd, "wrap_component_css", wrap("style", None)))),
        ("guard:needs-closing-bracket", lambda: patch((dd, "wrap_component_js", wrap("script", lambda c: "</script>" in c)),
                                                      (dd, "wrap_component_css", wrap("style", lambda c: "</style>" in c)))),
        ("guard:js-and-css-swapped", lambda: patch((dd, "wrap_component_js", wrap("script", lambda c: "</style" in c)),
                                                   (dd, "wrap_component_css", wrap("style", lambda c: "</script" in c)))),
        ("guard:refuses-the-bare-words", lambda: patch(
            (dd, "wrap_component_js", wrap("script", lambda c: "script" in c.lower())),
            (dd, "wrap_component_css", wrap("style", lambda c: "style" in c.lower())))),
    ]

    # (a dynamic component that re-passes its slots with escape_slots_content=True is an equivalent mutant:
    # the slots it holds are already flagged `escaped`, nothing changes)
    exports = compute_exports("quick")
    for e in exports:                       # thinned for speed; the instances stay exhaustive in run()
        if e["name"].startswith("attrs-forms"):
            e["rows"] = e["rows"][::3]

    def body_for(prefix: str, n_attrs: int, n_slots: int, n_guard: int):
        part = [e for e in exports if e["name"].startswith(prefix)]

        def body(chk: Check) -> None:
            _core(chk, part, n_attrs=n_attrs, n_slots=n_slots, n_guard=n_guard, procs=6)
        return body

    rc = run_probes(PID, attrs_probes, body_for("attrs", 400, 0, 0))
    rc |= run_probes(PID, slot_probes, body_for("slots", 0, 150, 0))
    rc |= run_probes(PID, guard_probes, body_for("guard", 0, 0, 300))
    return rc
