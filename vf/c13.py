"""C13 - html_attrs and Python-passed slot content emit exactly the data given, escaped;
component JS/CSS that would end its own <script>/<style> element is refused.

Specification (the oracle): specs/HtmlText.tla (escaping / reference decoding), specs/HtmlAttrs.tla
(Merge = defaults, overridden by attrs, keywords appended with one space; Expected; a model of the
WHATWG attribute tokenizer so that "a parser reads back exactly these names and values" is something
TLC evaluates: RoundTrip), specs/SlotEscape.tla (route x escape flags -> admitted number of escapings,
plus an implementation-shaped wrapper machine that TLC checks against it: never 2), specs/EndTagGuard.tla
(declarative "would terminate its own element" vs. an operational script-data tokenizer, TLC checks they
agree).

spec -> code: MC_C13A / MC_C13S / MC_C13G enumerate the bounded case spaces, check the laws of the
    specification on every case and export each case with the outcome the specification admits; every
    case is materialised ({% html_attrs %} through real templates in all documented writing forms;
    Component.render(slots=..., escape_slots_content=...) through chains of real components incl. the
    built-in dynamic component; Component.js / Component.css rendered as a document) and compared.
code -> spec: seeded random, deeper cases (more names, longer strings over a wider alphabet, several
    renders of one compiled template with shared dictionaries, longer slot chains, random end-tag
    look-alikes) are run on the real code; the raw observations are judged by TLC (Trace_C13) with the
    same operators.  There TLC also runs its tokenizer model on the real output text and compares with
    what html.parser read, which binds the model parser to the real parser (disagreement = model_drift,
    reported in the evidence, never a violation).

Decisions / zones (rule 1):
  * Appending a NUMBER is determined by the property ("appending each extra keyword value ... separated
    by one space" over "bool / None / number values"; docs render numbers with str()): expected "a 5".
    The current code raises TypeError -> known finding `append-number:TypeError`.
  * Appending to / with None / True / False is not determined: any rendering of that one name or a
    TypeError is admitted (kind "zone"); all other names of the tag are still checked exactly.
  * SafeString values are outside the guarantee ("non-safe"): verbatim or escaped emission both admitted;
    safe values never contain a raw double quote in generated cases.
  * x="" and a bare x are the same attribute for a parser: both admitted for the empty string; True must
    be bare.
  * Names with & < > " ' may be entity-escaped by the library (class "weak": count and values checked,
    spelling of the name free).  Names no HTML document can carry (whitespace, "=", "/", empty) must be
    refused, dropped, or emitted as ONE attribute with the right value; anything else is a break-out ->
    known findings `attr-name-*:written-unchecked`.
  * Names are lower-case (HTML attribute names are case-insensitive; html.parser lower-cases them);
    repeated `attrs:k=` aggregates, dynamic "{{ }}" expressions and filters inside the tag are not generated
    (docs do not define them for html_attrs); template string literals only without special characters
    (Django treats literals as safe).
  * Slot chains: marked-safe content -> 0 escapings; first escape_slots_content=True -> exactly 1; first
    False and a later True -> {0, 1}; Slot(..., escaped=True) built by the user -> {0, 1}.  Never 2.
    Raw (unescaped) contents are well-formed HTML fragments so the HTML post-processing is not fuzzed.
  * JS/CSS: content that terminates its own element must be refused or absent; content without any
    "</" must be emitted intact; look-alikes that do not terminate ("</scriptx", "< /script>") may be
    refused or emitted.  No "<!--" in generated JS (script-data escaped states are not modelled).
"""
from __future__ import annotations

import json
import random
import re
from html.parser import HTMLParser
from pathlib import Path
from typing import Any, Dict, List, Optional, Tuple

from . import tlc
from .core import Check, MachineryError, workdir

PID = "C13"
TLC_ENV = {"LC_ALL": "C.UTF-8"}


# ====================================================================== html_attrs
def _pyval(v: Dict[str, str]) -> Any:
    from django.utils.safestring import mark_safe
    t, s = v["t"], v["s"]
    if t == "str":
        return s
    if t == "safe":
        return mark_safe(s)
    if t == "num":
        x: Any = float(s) if "." in s else int(s)
        if str(x) != s:
            raise MachineryError(f"number text {s!r} does not round-trip through Python")
        return x
    return {"true": True, "false": False, "none": None}[t]


def _lit(v: Dict[str, str]) -> str:
    t, s = v["t"], v["s"]
    if t == "str":
        return '"' + s + '"'
    if t == "num":
        return s
    return {"true": "True", "none": "None"}[t]


def materialize_attrs(case: Dict[str, Any]) -> Tuple[str, Dict[str, Any]]:
    """Abstract case -> ({% html_attrs %} template source, context).  Pure syntax: which of the
    documented, equivalent writing forms is used is given by fa / fd / vias."""
    ctx: Dict[str, Any] = {}
    A = {e["n"]: _pyval(e["v"]) for e in case["attrs"]}
    D = {e["n"]: _pyval(e["v"]) for e in case["defaults"]}
    fa, fd = case["fa"], case["fd"]
    pos: List[str] = []
    first: List[str] = []
    last: List[str] = []
    sp0: Dict[str, Any] = {}
    for form, name, d in (("fa", "attrs", A), ("fd", "defaults", D)):
        f = case[form]
        var = "A" if name == "attrs" else "D"
        if f == "absent":
            if d:
                raise MachineryError("entries for an absent dictionary")
        elif f == "pos":
            ctx[var] = d
            pos.append(var)
        elif f == "posnone":
            ctx[var] = None
            pos.append(var)
        elif f == "kw":
            ctx[var] = d
            first.append(f"{name}={var}")
        elif f == "kwlast":
            ctx[var] = d
            last.append(f"{name}={var}")
        elif f == "agg":
            for i, (k, v) in enumerate(d.items()):
                ctx[f"{var}{i}"] = v
                first.append(f"{name}:{k}={var}{i}")
        elif f == "spread":
            sp0[name] = d
        else:
            raise MachineryError(f"unknown form {f}")
    if fd == "pos" and fa not in ("pos", "posnone"):
        raise MachineryError("positional defaults need positional attrs")
    parts = ["html_attrs"] + pos
    if sp0:
        ctx["SP0"] = sp0
        parts.append("...SP0")
    parts += first
    vias = case.get("vias") or ["var"] * len(case["kws"])
    run: Optional[Dict[str, Any]] = None
    nsp = 0
    for i, (e, via) in enumerate(zip(case["kws"], vias)):
        if via == "spread":
            if run is None or e["n"] in run:
                nsp += 1
                run = {}
                ctx[f"SP{nsp}"] = run
                parts.append(f"...SP{nsp}")
            run[e["n"]] = _pyval(e["v"])
            continue
        run = None
        if via == "lit":
            parts.append(f"{e['n']}={_lit(e['v'])}")
        else:
            ctx[f"V{i}"] = _pyval(e["v"])
            parts.append(f"{e['n']}=V{i}")
    parts += last
    return "<div {% " + " ".join(parts) + " %}>", ctx


class _TagParser(HTMLParser):
    def __init__(self) -> None:
        super().__init__(convert_charrefs=True)
        self.first: Optional[List[Tuple[str, Optional[str]]]] = None
        self.spill = False

    def handle_starttag(self, tag, attrs):
        if self.first is None and tag == "div":
            self.first = attrs
        else:
            self.spill = True

    def handle_startendtag(self, tag, attrs):
        self.handle_starttag(tag, attrs)

    def handle_endtag(self, tag):
        self.spill = True

    def handle_data(self, data):
        self.spill = True

    def handle_comment(self, data):
        self.spill = True


def parse_tag(html: str) -> Dict[str, Any]:
    """Project '<div ...>' to what an HTML parser reads: the attribute list of the div and whether
    anything spilled out of the tag."""
    p = _TagParser()
    p.feed(html)
    p.close()
    if p.first is None:
        return {"attrs": [], "spill": True}
    return {"attrs": [{"n": n, "v": "" if v is None else v, "bare": v is None} for n, v in p.first],
            "spill": p.spill}


def render_attrs(tpl, ctx: Dict[str, Any]) -> Dict[str, Any]:
    from django.template import Context
    try:
        out = tpl.render(Context(ctx))
    except Exception as e:  # outcome of the case, judged by the specification
        return {"err": type(e).__name__, "attrs": [], "spill": False, "out": ""}
    if not (out.startswith("<div ") and out.endswith(">")):
        raise MachineryError(f"unexpected frame around html_attrs output: {out!r}")
    obs = parse_tag(out)
    obs["err"] = ""
    obs["out"] = out[5:-1]
    return obs


def observe_attrs(case: Dict[str, Any]) -> Dict[str, Any]:
    from django.template import Template
    src, ctx = materialize_attrs(case)
    try:
        tpl = Template(src)
    except Exception as e:
        return {"err": "compile:" + type(e).__name__, "attrs": [], "spill": False, "out": "", "src": src}
    obs = render_attrs(tpl, ctx)
    obs["src"] = src
    return obs


def _matches(it: Dict[str, Any], a: Dict[str, Any]) -> bool:
    k = it["kind"]
    if k == "zone":
        return True
    if k == "bare":
        return a["bare"]
    if k == "val":
        return (not a["bare"] and a["v"] in it["vals"]) or (a["bare"] and "" in it["vals"])
    return False


def conforms_attrs(items: List[Dict[str, Any]], err_ok: List[str], obs: Dict[str, Any]) -> bool:
    """The comparison HtmlAttrs!Conform performs, on the exported Expected(c)."""
    if obs["err"]:
        return obs["err"] in err_ok or "*" in err_ok
    if obs["spill"]:
        return False
    exact = [it for it in items if it["cls"] == "exact"]
    loose = [it for it in items if it["cls"] != "exact"]
    names = {it["n"] for it in exact}
    for it in exact:
        hits = [a for a in obs["attrs"] if a["n"] == it["n"]]
        if it["kind"] == "omit":
            if hits:
                return False
        elif it["kind"] == "zone":
            if len(hits) > 1:
                return False
        elif len(hits) != 1 or not _matches(it, hits[0]):
            return False
    rest = [a for a in obs["attrs"] if a["n"] not in names]
    need = {j for j, it in enumerate(loose) if it["cls"] == "weak" and it["kind"] in ("bare", "val")}

    def assign(i: int, used: frozenset) -> bool:
        if i == len(rest):
            return need <= used
        for j, it in enumerate(loose):
            if j not in used and it["kind"] != "omit" and _matches(it, rest[i]) and assign(i + 1, used | {j}):
                return True
        return False
    return assign(0, frozenset())


def judge_attrs(chk: Check, row: Dict[str, Any], obs: Dict[str, Any], origin: str) -> None:
    if conforms_attrs(row["items"], row["err"], obs):
        return
    dev = row.get("dev") or {}
    key = None
    if dev.get("key"):
        same = (obs["err"] == dev["err"]) if dev["err"] else \
            (not obs["err"] and [(a["n"], a["v"], a["bare"]) for a in obs["attrs"]]
             == [(a["n"], a["v"], a["bare"]) for a in dev["attrs"]])
        if same:
            key = dev["key"]
    case = {"kind": "html_attrs", "origin": origin,
            "case": {k: row[k] for k in ("defaults", "attrs", "kws", "vias", "fa", "fd") if k in row},
            "template": obs.get("src")}
    chk.violation(case, {"expected_items": row["items"], "errors_admitted": row["err"],
                         "observed": {k: obs[k] for k in ("err", "attrs", "spill", "out")}}, key=key)


# ====================================================================== slot content
_L, _R = "⟦", "⟧"          # markers around the rendered slot (never "<": the HTML pass treats "<x" as a tag)
_chain_classes: Dict[Tuple, Any] = {}
_chain_seq = [0]


def _chain_class(hops: Tuple[Tuple[str, bool], ...]):
    """Component class that receives slot "x" and passes it on along `hops` (the hops AFTER the one
    that delivered the slot to this class); the last class renders {% slot "x" %} between markers."""
    from django_components import Component, register
    if hops in _chain_classes:
        return _chain_classes[hops]
    _chain_seq[0] += 1
    name = f"vf_c13_chain_{_chain_seq[0]}"
    if not hops:
        body = {"template": "<div class=\"leaf\">" + _L + "{% slot 'x' / %}" + _R + "</div>"}
    else:
        (via, flag), rest = hops[0], hops[1:]
        nxt = _chain_class(rest)
        if via == "fill":
            body = {"template": "<section>{% component '" + nxt._vf_name + "' %}{% fill 'x' %}{% slot 'x' / %}"
                                "{% endfill %}{% endcomponent %}</section>"}
        else:
            def get_context_data(self, _nxt=nxt, _via=via, _flag=flag):
                return {"inner": _deliver(_nxt, _via, _flag, self.input.slots, nested=True)}
            body = {"template": "<section>{{ inner|safe }}</section>", "get_context_data": get_context_data}
    cls = type(f"VfC13Chain{_chain_seq[0]}", (Component,), body)
    cls._vf_name = name
    register(name)(cls)
    _chain_classes[hops] = cls
    return cls


def _deliver(cls, via: str, flag: bool, slots: Dict[str, Any], nested: bool) -> str:
    kw: Dict[str, Any] = {"render_dependencies": False} if nested else {}
    if via == "render":
        return cls.render(slots=slots, escape_slots_content=flag, **kw)
    if via == "dynamic":
        from django_components import DynamicComponent
        return DynamicComponent.render(kwargs={"is": cls}, slots=slots, escape_slots_content=flag, **kw)
    raise MachineryError(f"hop {via} cannot deliver from Python")


def _origin_object(origin: str, content: str):
    from django.utils.safestring import mark_safe
    from django_components import Slot
    plain = lambda ctx, data, ref: content                      # noqa: E731
    safe = lambda ctx, data, ref: mark_safe(content)            # noqa: E731
    return {
        "str": lambda: content,
        "safe": lambda: mark_safe(content),
        "fn_str": lambda: plain,
        "fn_safe": lambda: safe,
        "slot_fn_str": lambda: Slot(plain),
        "slot_fn_safe": lambda: Slot(safe),
        "slot_slot_fn_str": lambda: Slot(Slot(plain)),
        "slot_escaped_fn_str": lambda: Slot(plain, escaped=True),
    }[origin]()


def observe_slot(origin: str, content: str, hops: List[Dict[str, Any]]) -> Dict[str, Any]:
    hp = tuple((h["via"], bool(h["flag"])) for h in hops)
    if not hp or hp[0][0] == "fill":
        raise MachineryError("first hop must hand the content over from Python")
    cls = _chain_class(hp[1:])
    try:
        out = _deliver(cls, hp[0][0], hp[0][1], {"x": _origin_object(origin, content)}, nested=False)
    except Exception as e:
        return {"err": type(e).__name__ + ": " + str(e)[:200], "out": ""}
    if out.count(_L) != 1 or out.count(_R) != 1:
        return {"err": "markers", "out": out}
    return {"err": "", "out": out[out.index(_L) + 1: out.index(_R)]}


def _canon(s: str) -> str:
    return s.replace("&#39;", "&#x27;")


def judge_slot(chk: Check, row: Dict[str, Any], obs: Dict[str, Any], origin_tag: str) -> None:
    got = _canon(obs["out"])
    if not obs["err"] and got in row["texts"]:
        times = 0 if got == row["content"] else 1
        if times != row["bcount"]:
            chk.add("model_drift")          # wrapper model predicted another admitted count: not a violation
        return
    times = "error" if obs["err"] else 2 if got in row["twice"] else 1 if got in row["once"] else \
        0 if got == row["content"] else "other"
    chk.violation({"kind": "slot", "origin": origin_tag, "content_origin": row["origin"], "content": row["content"],
                   "hops": row["hops"]},
                  {"admitted_times": row["admitted"], "admitted_texts": row["texts"], "observed_times": times,
                   "observed": obs})
