"""C07 - concurrent renders in different threads do not interfere.

Specification: specs/DjcShared.tla - threads executing render workloads over the shared provide
registries, one step per critical section of perfutil/provide.py; TLC explores EVERY interleaving
and checks InjectSound (each render finds its own provided data), NoCrossTalk and Quiescent, and
refutes the pre-fix variant (vacuity guard).  specs/LRUCache.tla is the sequential contract of the
template cache that every concurrent history must linearise to (checked through Trace_C18 on the
per-thread observations and the final structure).

spec -> code: every complete schedule TLC finds (a list of thread ids) is replayed on the real
              library by a cooperative scheduler that parks every thread at the entry of each
              critical section; per-thread output / exception must equal the solo run, nothing may
              be left in the registries.
code -> spec: seeded fine-grained schedules - a pre-emption point before EVERY operation on the six
              shared registries and before every line of util/cache.py, cache.py, template.py,
              component_media.py - over workloads provider+consumer, failing consumer, consumer
              without provider, host component, first compile through a full template cache of
              size 1-2, first access of a class's media; all 1- and 2-pre-emption schedules of
              selected pairs exhaustively, 3 threads by random priorities.
"""
from __future__ import annotations

import itertools
import json
import random
import re
from typing import Any, Callable, Dict, List, Optional, Tuple

from . import provrefs, provtrace, sched, tlc
from .core import Check, MachineryError, workdir

PID = "C07"
WL = ("ok", "fail", "host", "noprov")
MODEL_STEPS = {"ok": 4, "fail": 4, "host": 7, "noprov": 2}
_setup_done = [False]
_PTR: List[Any] = []          # operation traces of the provide functions recorded during fine-grained schedules


def _setup():
    if _setup_done[0]:
        return
    _setup_done[0] = True
    from django_components import Component, register

    @register("vf7_leaf")
    class Leaf(Component):
        template = "[{{ v }}]"

        def get_context_data(self, bad=False):
            v = self.inject("k").x
            if bad:
                raise ValueError("bad consumer")
            return {"v": v}

    @register("vf7_leafd")
    class LeafD(Component):
        template = "[{{ v }}]"

        def get_context_data(self):
            return {"v": self.inject("k", "dflt")}

    @register("vf7_host")
    class Host(Component):
        template = '<{% provide "k" x=x %}{% component "vf7_leaf" / %}{% endprovide %}>'

        def get_context_data(self, x=0):
            return {"x": x}

    @register("vf7_panel")
    class Panel(Component):
        template = ('<div>{% slot "body" default %}DEFAULT BODY{% endslot %}|{% slot "foot" k=n %}F{{ n }}{% endslot %}'
                    '|{{ component_vars.is_filled.body }}{{ component_vars.is_filled.foot }}</div>')

        def get_context_data(self, n=0):
            return {"n": n}
    sched.install_traced_registries()


SLOT_PAGES = {
    "named": '{% component "vf7_panel" n=n %}{% fill "body" %}from {{ n }}{% endfill %}{% endcomponent %}',
    "alias": '{% component "vf7_panel" n=n %}{% fill "body" default="orig" %}[{{ orig }}]{% endfill %}'
             '{% fill "foot" data="d" default="o2" %}<{{ d.k }}{{ o2 }}>{% endfill %}{% endcomponent %}',
    "implicit": '{% component "vf7_panel" n=n %}x{{ n }}{% component "vf7_panel" n=n %}{% fill "foot" data="d" %}({{ d.k }})'
                '{% endfill %}{% endcomponent %}y{% endcomponent %}',
    "loop": '{% component "vf7_panel" n=n %}{% for s in names %}{% fill name=s default="o" %}{{ s }}:{{ o }}{% endfill %}'
            '{% endfor %}{% endcomponent %}',
}


def slot_workload(name: str, n: int) -> Callable[[], str]:
    from django.template import Context, Template

    def run():
        html = Template(SLOT_PAGES[name]).render(Context({"n": n, "names": ["body", "foot"]}))
        return re.sub(r"<!--.*?-->|\sdata-djc-id-\w+(=\"\")?", "", html)
    return run


def workload(name: str, n: int) -> Callable[[], str]:
    from django.template import Context, Template
    src = {"ok": '{% provide "k" x=n %}{% component "vf7_leaf" / %}{% endprovide %}',
           "fail": '{% provide "k" x=n %}{% component "vf7_leaf" bad=True / %}{% endprovide %}',
           "host": '{% component "vf7_host" x=n / %}',
           "noprov": '{% component "vf7_leafd" / %}'}[name]

    def run():
        html = Template(src).render(Context({"n": n}))
        return re.sub(r"<!--.*?-->|\sdata-djc-id-\w+(=\"\")?", "", html)
    return run


def compile_workload(keys: List[int]) -> Callable[[], Any]:
    """Compile templates through the (small) shared template cache; returns what each compile rendered."""
    from django.template import Context
    from django_components import cached_template

    def run():
        out = []
        for k in keys:
            t = cached_template(f"[tpl{k}:{{{{ x }}}}]")
            out.append(t.render(Context({"x": k})))
        return out
    return run


def media_workload(cls) -> Callable[[], Any]:
    def run():
        m = cls.media
        return [list(m._js), {k: list(v) for k, v in m._css.items()}, cls.js, cls.css]
    return run


def solo(task: Callable[[], Any]) -> Dict[str, Any]:
    try:
        return {"value": task()}
    except BaseException as e:  # noqa: BLE001
        return {"error": type(e).__name__, "msg": str(e)[:200]}


def same(a: Dict[str, Any], b: Dict[str, Any]) -> bool:
    return a.get("value") == b.get("value") and a.get("error") == b.get("error")


# ------------------------------------------------------------------ spec -> code
def tlc_schedules(w: Tuple[str, ...]) -> Tuple[List[List[int]], tlc.TlcResult]:
    d = workdir("c07mc")
    cfg = d / "mc.cfg"
    out = d / "sched.ndjson"
    w3 = w[2] if len(w) > 2 else "none"
    cfg.write_text("SPECIFICATION Spec\nCONSTANTS\n  Threads <- MCThreads\n  Workloads <- MCWorkloads\n  GlobalDiff = FALSE\n"
                   f"  W1 = \"{w[0]}\"\n  W2 = \"{w[1]}\"\n  W3 = \"{w3}\"\n"
                   "INVARIANT InjectSound\nINVARIANT Quiescent\nINVARIANT NoCrossTalk\nINVARIANT Export\n")
    r = tlc.run("MC_C07", str(cfg), env={"OUT": str(out)}, workers=1)
    tlc.require_ok(r, f"MC_C07 {w}")
    return [row["schedule"] for row in tlc.read_ndjson(out)], r


def section_chooser(schedule: List[int], nthreads: int):
    """First let every thread run up to its first critical section, then follow the schedule."""
    pre = list(range(nthreads))
    it = iter(schedule)
    state = {"diverged": False}

    def choose(runnable, cur, labels):
        while pre:
            t = pre.pop(0)
            if t in runnable and labels[t] == "start":
                return t
        for want in it:
            if want - 1 in runnable:
                return want - 1
            state["diverged"] = True
        return cur if cur in runnable else runnable[0]
    choose.state = state          # type: ignore[attr-defined]
    return choose


def replay_schedules(chk: Check, w: Tuple[str, ...], limit: Optional[int], rnd: random.Random) -> None:
    scheds, r = tlc_schedules(w)
    chk.add("states", r.distinct)
    chk.add("transitions", r.generated)
    tasks = [workload(nm, i + 1) for i, nm in enumerate(w)]
    solos = [solo(t) for t in tasks]
    sched.clear_registries()
    if limit and len(scheds) > limit:
        scheds = rnd.sample(scheds, limit)
    ptr = []
    for sc in scheds:
        ch = section_chooser(sc, len(w))
        s = sched.Scheduler(ch)
        sched.set_scheduler(s, registries=False)
        sched.YIELD_LOCKS.clear()
        sched.YIELD_LOCKS.add("provide_lock")      # the model's steps are the sections of the provide lock
        rec = provtrace.start(multi=True)
        try:
            res = s.run(tasks)
        except sched.Deadlock as e:
            chk.violation({"label": "tlc-schedule", "workloads": w, "schedule": sc}, {"what": "deadlock", "msg": str(e)})
            sched.set_scheduler(None)
            provtrace.stop()
            continue
        sched.set_scheduler(None)
        sched.YIELD_LOCKS.clear()
        if rec:
            # the interleaved calls of all threads, in the order of their linearization points
            provtrace.mark_end(False)
            ptr.append(({"workloads": list(w), "schedule": sc}, provtrace.project(provtrace.stop(), None)))
        chk.count(["tlc-schedule", w, sc])
        steps = [sum(1 for t, lab in s.trace if t == i and lab == "provide_lock.acquire") for i in range(len(w))]
        if steps != [MODEL_STEPS[x] for x in w] or ch.state["diverged"]:
            chk.add("model_drift", 1)
        left = sched.registries_empty()
        sched.clear_registries()
        bad = [i for i in range(len(w)) if not same(res[i], solos[i])]
        if bad or left:
            chk.violation({"label": "tlc-schedule", "workloads": w, "schedule": sc},
                          {"what": "interference" if bad else "residue", "threads": bad,
                           "observed": [res[i] for i in bad], "solo": [solos[i] for i in bad], "residue": left})
    if ptr:
        # code -> spec at operation level: every interleaved history of calls of the provide functions must be a
        # behaviour of the (sequential, atomic-action) machine ProvideRefs.tla - i.e. the critical sections linearise
        provrefs.validate(chk, ptr, "tlc-schedule")
    chk.add("tlc_schedules_replayed", len(scheds))
    chk.sample({"workloads": w, "schedule": scheds[0] if scheds else None, "solo_results": solos}, limit=3)


# ------------------------------------------------------------------ code -> spec (fine-grained)
def explore(chk: Check, label: str, mk_tasks: Callable[[], List[Callable[[], Any]]], choosers, *, lines: bool,
            after: Optional[Callable[[], Optional[str]]] = None, reset: Optional[Callable[[], None]] = None) -> None:
    for ch_name, ch in choosers:
        if reset:
            reset()
        # the solo results come from a separate, equally fresh set of tasks (first-access workloads must
        # still be "first" when the scheduled run starts)
        solo_tasks = mk_tasks()
        if reset:
            solos = []
            for t in solo_tasks:
                reset()
                solos.append(solo(t))
            reset()
        else:
            solos = [solo(t) for t in solo_tasks]
        tasks = mk_tasks()
        sched.clear_registries()
        s = sched.Scheduler(ch)
        sched.WATCH_ON[0] = lines
        sched.set_scheduler(s, registries=True)
        rec = label.startswith("provide") and provtrace.start(multi=True)
        try:
            res = s.run(tasks)
        except sched.Deadlock as e:
            chk.violation({"label": label, "chooser": ch_name}, {"what": "deadlock", "msg": str(e)})
            continue
        finally:
            sched.set_scheduler(None)
            sched.WATCH_ON[0] = False
            if rec:
                provtrace.mark_end(False)
                _PTR.append(({"label": label, "chooser": ch_name}, provtrace.project(provtrace.stop(), None)))
        chk.count([label, ch_name])
        left = sched.registries_empty()
        sched.clear_registries()
        bad = [i for i in range(len(tasks)) if not same(res[i], solos[i])]
        post = after() if after else None
        if bad or left or post:
            chk.violation({"label": label, "chooser": ch_name, "trace_len": len(s.trace),
                           "switches": [x for x in _switches(s.trace)][:60]},
                          {"what": "interference" if bad else ("residue" if left else "shared-structure-corrupted"),
                           "threads": bad, "observed": [res[i] for i in bad], "solo": [solos[i] for i in bad],
                           "residue": left, "structure": post})
    chk.add("fine_grained_runs", len(choosers))


def _switches(trace):
    prev = None
    for i, (t, lab) in enumerate(trace):
        if t != prev:
            yield [i, t, lab]
            prev = t


def lru_ok() -> Optional[str]:
    from . import c18
    import django_components.cache as dcache
    c = dcache.template_cache
    if c is None:
        return None
    p = c18.project(c)
    if p["bad"]:
        return p["bad"]
    if p["fwd"] != p["bwd"][::-1] or sorted(map(repr, p["fwd"])) != sorted(map(repr, p["dkeys"])):
        return "list and dict disagree"
    if c.maxsize is not None and len(p["fwd"]) > c.maxsize:
        return f"{len(p['fwd'])} entries in a cache of size {c.maxsize}"
    return None


def body(chk: Check, *, pairs, triples, limit, n_pre2: int, n_random: int, slot_sweep=(600, 20)) -> None:
    from django.conf import settings
    import django_components.cache as dcache
    _setup()
    rnd = random.Random(chk.seed * 1000003 + 7)
    # vacuity guard: the pre-fix model must be refuted
    d = workdir("c07g")
    cfg = d / "g.cfg"
    cfg.write_text("SPECIFICATION Spec\nCONSTANTS\n  Threads <- MCThreads\n  Workloads <- MCWorkloads\n  GlobalDiff = TRUE\n"
                   "  W1 = \"ok\"\n  W2 = \"fail\"\n  W3 = \"none\"\nINVARIANT InjectSound\n")
    r = tlc.run("MC_C07", str(cfg), env={"OUT": str(d / "x")}, workers=1)
    if not r.violated:
        raise MachineryError("DjcShared with GlobalDiff=TRUE should be refuted (vacuity guard)")
    for w in pairs:
        replay_schedules(chk, w, limit, rnd)
    for w in triples:
        replay_schedules(chk, w, limit, rnd)
    # fine-grained: all 1- and 2-pre-emption schedules for the classic pair, random for the rest
    mk = lambda w: (lambda: [workload(nm, i + 1) for i, nm in enumerate(w)])    # noqa: E731
    pre = [(f"pre{a},{b}", sched.preemption_chooser([a, b])) for a in range(1, 70, 2) for b in range(a, 70, 5)][:n_pre2]
    explore(chk, "provide ok|fail", mk(("ok", "fail")), pre, lines=False)
    for w in [("ok", "ok"), ("host", "fail"), ("fail", "fail"), ("noprov", "fail"), ("host", "host", "fail"), ("ok", "fail", "noprov")]:
        chs = [(f"rnd{k}", sched.random_chooser(random.Random(rnd.random()), 0.25)) for k in range(n_random)]
        explore(chk, "provide " + "|".join(w), mk(w), chs, lines=False)
    if _PTR:
        # every fine-grained interleaving above, seen as a history of calls of the provide functions (logged at their
        # linearization points), must be a behaviour of the sequential machine ProvideRefs.tla
        provrefs.validate(chk, list(_PTR), "fine-grained")
        del _PTR[:]
    # slots and fills: state that must be confined to the rendering thread (fill collection, default aliases,
    # is_filled) and the generation of render ids; pre-emption before every line of slots.py, util/nanoid.py and
    # util/misc.py: random schedules + a sweep of single pre-emptions
    sched.WATCH_EXTRA[:] = ["django_components/slots.py", "django_components/util/nanoid.py", "django_components/util/misc.py"]
    try:
        for w in [("named", "alias"), ("alias", "implicit"), ("loop", "alias"), ("implicit", "loop", "named")]:
            mks = (lambda w=w: [slot_workload(nm, i + 1) for i, nm in enumerate(w)])
            chs = [(f"rnd{k}", sched.random_chooser(random.Random(rnd.random()), 0.08)) for k in range(n_random)] + \
                [(f"pre{a}", sched.preemption_chooser([a])) for a in range(1, slot_sweep[0], slot_sweep[1])]
            explore(chk, "slots " + "|".join(w), mks, chs, lines=True)
    finally:
        sched.WATCH_EXTRA.clear()
    # render ids: dense pre-emption inside the id generator only (ids of concurrent renders must stay distinct)
    sched.WATCH_EXTRA[:] = ["django_components/util/nanoid.py", "django_components/util/misc.py"]
    try:
        for w in [("implicit", "alias"), ("named", "implicit", "loop")]:
            mks = (lambda w=w: [slot_workload(nm, i + 1) for i, nm in enumerate(w)])
            chs = [(f"rnd{k}", sched.random_chooser(random.Random(rnd.random()), 0.5)) for k in range(2 * n_random)]
            explore(chk, "render ids " + "|".join(w), mks, chs, lines=True)
    finally:
        sched.WATCH_EXTRA.clear()
    # template cache of size 1-2: compile more distinct templates than fit, line-level pre-emption
    old = settings.COMPONENTS
    for size in (1, 2):
        def reset(size=size):
            settings.COMPONENTS = dict(old, template_cache_size=size)
            dcache.template_cache = None
        chs = [(f"rnd{k}", sched.random_chooser(random.Random(rnd.random()), 0.35)) for k in range(n_random)]
        explore(chk, f"template-cache size={size}", lambda: [compile_workload([1, 2, 1, 3]), compile_workload([3, 1, 2, 2])],
                chs, lines=True, after=lru_ok, reset=reset)
    settings.COMPONENTS = old
    dcache.template_cache = None
    # first access of a class's media / js / css from two threads
    from django_components import Component
    k = [0]

    def mk_media():
        k[0] += 1
        base = type(f"Vf7B{k[0]}", (Component,), {"template": "x", "js": "/*b*/",
                                                  "Media": type("Media", (), {"js": ["b.js"], "css": ["b.css"]})})
        cls = type(f"Vf7M{k[0]}", (base,), {"template": "y", "css": "/*m*/",
                                                  "Media": type("Media", (), {"js": ["m.js", "b.js"]})})
        return [media_workload(cls), media_workload(cls), media_workload(base)]
    chs = [(f"rnd{k2}", sched.random_chooser(random.Random(rnd.random()), 0.3)) for k2 in range(n_random)]
    explore(chk, "media first access", mk_media, chs, lines=True)
    # first use of a component whose template / js / css live in FILES (resolved lazily on first access)
    import os
    d = workdir("c07files")
    (d / "comps" / "card").mkdir(parents=True)
    (d / "comps" / "card" / "card.html").write_text("<p>[card {{ n }}]</p>")
    (d / "comps" / "card" / "card.js").write_text("/*card js*/")
    (d / "comps" / "card" / "card.css").write_text("/*card css*/")
    settings.COMPONENTS = dict(old, dirs=[str(d / "comps")])
    from django.template import engines
    eng = engines["django"].engine
    saved_dirs = list(eng.dirs)
    eng.dirs = saved_dirs + [str(d / "comps")]
    for ld in eng.template_loaders:
        if hasattr(ld, "reset"):
            ld.reset()

    def mk_files():
        k[0] += 1
        cls = type(f"Vf7F{k[0]}", (Component,), {"template_file": "card/card.html", "js_file": "card/card.js",
                                                 "css_file": "card/card.css",
                                                 "get_context_data": lambda self, n=0: {"n": n}})

        def task(n):
            def run():
                html = cls.render(kwargs={"n": n}, render_dependencies=False)
                return [re.sub(r"<!--.*?-->|\sdata-djc-id-\w+(=\"\")?", "", html), cls.js, cls.css]
            return run
        return [task(1), task(2)]
    try:
        chs = [(f"rnd{k2}", sched.random_chooser(random.Random(rnd.random()), 0.3)) for k2 in range(5 * n_random)] + \
            [(f"pre{a}", sched.preemption_chooser([a])) for a in range(1, 700, 3)]
        explore(chk, "file-based assets first use", mk_files, chs, lines=True)
    finally:
        settings.COMPONENTS = old
        eng.dirs = saved_dirs


def run(tier: str) -> int:
    from . import boot
    boot.setup()
    chk = Check(PID, tier, "model_checking")
    if tier == "quick":
        body(chk, pairs=[("ok", "fail"), ("ok", "ok"), ("host", "fail"), ("noprov", "fail")], triples=[("ok", "fail", "noprov")],
             limit=120, n_pre2=150, n_random=25)
    else:
        body(chk, pairs=list(itertools.product(WL, WL)), triples=[("ok", "fail", "noprov"), ("host", "fail", "ok"), ("fail", "fail", "host")],
             limit=2000, n_pre2=500, n_random=300)
    chk.cov["exhaustive"] = tier != "quick"
    chk.cov["traces_validated_against_impl"] = chk.cov.get("tlc_schedules_replayed", 0)
    chk.cov["rule"] = ("TLC enumerates every interleaving of the critical sections of 2-3 render workloads over the shared provide "
                       "registries; each complete schedule (sampled to `limit` per workload tuple in quick) is replayed by the "
                       "cooperative scheduler; plus fine-grained schedules with a pre-emption point before every registry operation / "
                       "watched line. Distinct by (workloads, schedule).")
    chk.assumptions += ["each dict / set operation is atomic under the GIL; one thread runs at a time under the scheduler",
                        "benign double initialisation of lazily created caches is admitted unless it changes an observable",
                        "model_drift counts schedules whose number of critical sections differs from the model (reported, not alarmed)"]
    return chk.finish()


def selftest(tier: str) -> int:
    """In-process mutation probes (never /repo): the library's locks replaced by no-ops."""
    from contextlib import contextmanager
    from . import boot
    from .core import run_probes
    boot.setup()
    _setup()
    import django_components.perfutil.provide as pp
    import django_components.util.cache as uc

    class NoLock:
        def __enter__(self):
            return self

        def __exit__(self, *a):
            return False

        def acquire(self, *a, **k):
            return True

        def release(self):
            pass

    @contextmanager
    def provide_lock_removed():
        old = pp._provide_lock
        pp._provide_lock = NoLock()
        try:
            yield
        finally:
            pp._provide_lock = old

    @contextmanager
    def lru_lock_removed():
        old = uc.threading

        class Shim:
            RLock = staticmethod(lambda: NoLock())
            Lock = staticmethod(lambda: NoLock())
        uc.threading = Shim
        try:
            yield
        finally:
            uc.threading = old

    def small(chk):
        body(chk, pairs=[("ok", "fail")], triples=[], limit=20, n_pre2=150, n_random=25)
    return run_probes(PID, [("provide-lock-removed", provide_lock_removed), ("lru-lock-removed", lru_lock_removed)], small)


def replay(path: str) -> int:
    from . import boot
    boot.setup()
    _setup()
    d = json.load(open(path))
    c = d["case"]
    if c.get("label") == "tlc-schedule":
        chk = Check(PID, "quick", "model_checking", silent=True)
        w = tuple(c["workloads"])
        tasks = [workload(nm, i + 1) for i, nm in enumerate(w)]
        solos = [solo(t) for t in tasks]
        sched.clear_registries()
        s = sched.Scheduler(section_chooser(c["schedule"], len(w)))
        sched.set_scheduler(s, registries=False)
        res = s.run(tasks)
        sched.set_scheduler(None)
        bad = [i for i in range(len(w)) if not same(res[i], solos[i])]
        print(json.dumps({"observed": res, "solo": solos, "residue": sched.registries_empty()}, indent=1))
        return 1 if bad or sched.registries_empty() else 0
    print("fine-grained cases: re-run the check with the same VERIF_SEED")
    return 2
