"""C11 - a tag accepts its arguments exactly when the equivalent Python call would.

Oracle: specs/ArgBinding.tla - Python's argument binding as a state machine over the argument
sequence (Declare(param)* ; Pass(item)*).  TLC checks on every reachable state that the machine
equals the declarative definition BindDecl (all positional values first, then keywords, then
defaults), that the state is a function of (signature, call), EveryValueBoundOnce,
KeysNonIdentifierOnlyViaKwargs, PositionalOnlyNeverByKeyword and ErrorsAreSticky.

spec -> code: MC_C11 builds every (signature, call) pair inside the bound by actions and exports
              each reachable state as one case with: py (what Python answers for the literal
              call), adm (the set of answers the property admits for the tag) and devs (what the
              named deviations of ArgBindingDev predict).  Every case is replayed three ways:
                C  the literal Python call `f(None, None, 1, a=2, *[3], **{..})` on the probe
                   function (must equal py exactly, else MachineryError: the *spec* is wrong),
                Rf a real template `{% pf 1 a=2 ...[3] ...d %}` whose tag is a BaseNode subclass /
                   @template_tag function -> validate_params fast path (__code__),
                Rs the same template on a tag whose render is a callable object / functools.partial
                   (no __code__) -> validate_params fallback path (inspect.Signature).
              Rf and Rs must be in adm, must agree with each other, and the probe must not have
              run when the tag raised.
code -> spec: seeded random deeper cases (more parameters, more items, larger spreads, dict keys
              in any order, calls continued after an error) are executed the same three ways and
              the recorded outcomes are validated by TLC against Trace_C11 (same Pass action,
              same theorems as invariants).

Observation: the probe render() returns json(locals()); the harness reads the bindings from the
rendered template output, the exception type from the raised exception, and whether the body ran.
Forms that must not matter are varied by case index: BaseNode subclass / @template_tag; tag
without end tag / self-closing `{% pf .. / %}` / block `{% pf .. %}body{% endpf %}`; literal
lists/dicts / context variables; literal ints / context variables; a trailing flag word
(every probe tag has allowed_flags=["required"]).

Unspecified zones (the specification admits every listed answer, see ArgBinding.tla Admissible):
  Z1 non-empty list spread after a supplied keyword (Python accepts; docs are silent);
  Z2 positional / list spread after an *empty* dict spread (Python: SyntaxError; nothing supplied);
  Z3 a repeated key where one occurrence comes from a spread (Python: TypeError; docs say
     "right-most overwrites");
  Z4 the same identifier keyword written twice (property: TypeError; Python: SyntaxError).
  Order of **kwargs is not compared (dict equality).  Error *messages* are not compared.
  Not generated: non-string dict keys, `key:sub=` aggregate keys, filters (C02/C12), flag words
  anywhere but at the end, a flag word together with `key=<variable named like the flag>` or two
  such keywords (TemplateSyntaxError "flag multiple times"; the docs do not define it).

Known deviations (ArgBindingDev.tla) are reported under finding keys `<deviations>:<kind>`;
the set of deviations is the smallest one whose prediction equals the observed outcome exactly.
"""
from __future__ import annotations

import functools
import json
import os
import random
from concurrent.futures import ThreadPoolExecutor
from pathlib import Path
from typing import Any, Dict, List, Tuple

from . import tlc
from .core import Check, MachineryError, sha, workdir

PID = "C11"
NAMES = ["a", "b", "c", "d", "e", "f", "g", "h"]
SPECIAL = {"data-x", "class"}
FLAG = "required"       # every probe tag declares allowed_flags=[FLAG]
RANK = {"po": 1, "pk": 2, "va": 3, "ko": 4, "vk": 5}
INVARIANTS = ["TypeOK", "StateIsFunctionOfCase", "MachineAgreesWithDeclarative", "EveryValueBoundOnce",
              "KeysNonIdentifierOnlyViaKwargs", "PositionalOnlyNeverByKeyword", "Export"]


def _procs() -> int:
    try:
        return max(1, int(os.environ.get("VF_C11_PROCS", "6")))
    except ValueError:
        return 6


# ---------------------------------------------------------------- abstract case -> Python text
def sig_source(sig: List[Dict[str, Any]]) -> str:
    """Parameter list (after `self, context`) for an abstract signature."""
    parts: List[str] = []
    kinds = [p["k"] for p in sig]
    last_po = max([i for i, k in enumerate(kinds) if k == "po"], default=-1)
    star_done = "va" in kinds
    for i, p in enumerate(sig):
        k = p["k"]
        if k == "va":
            parts.append("*args")
        elif k == "vk":
            parts.append("**kwargs")
        else:
            if k == "ko" and not star_done:
                parts.append("*")
                star_done = True
            parts.append(NAMES[i] + (f"={101 + i}" if p["d"] else ""))
        if i == last_po:
            parts.append("/")
    return ", ".join(parts)


def well_formed(sig: List[Dict[str, Any]]) -> bool:
    ks = [p["k"] for p in sig]
    if any(RANK[a] > RANK[b] for a, b in zip(ks, ks[1:])):
        return False
    if ks.count("va") > 1 or ks.count("vk") > 1:
        return False
    seen = False
    for p in sig:
        if p["k"] in ("va", "vk") and p["d"]:
            return False
        if p["k"] in ("po", "pk"):
            if seen and not p["d"]:
                return False
            seen = seen or p["d"]
    return True


def call_sources(call: List[Dict[str, Any]], variant: int) -> Tuple[str, Dict[str, Any], str]:
    """(template arguments, context, literal Python arguments) of an abstract call.
    The j-th supplied value is the integer j.  `variant` chooses between literal lists/dicts in
    the template and context variables (bit 0, alternating per item) and between literal ints and
    context variables for single values (bit 1)."""
    tpl: List[str] = []
    py: List[str] = []
    ctx: Dict[str, Any] = {}
    v = 0
    by_var = (variant // 2) % 2 == 1
    has_fv = any(it.get("fv") for it in call)

    def val(j: int) -> str:
        if by_var:
            ctx[f"v{j}"] = j
            return f"v{j}"
        return str(j)
    for n, it in enumerate(call):
        t = it["t"]
        if t == "P":
            v += 1
            tpl.append(val(v))
            py.append(str(v))
        elif t == "K":
            v += 1
            if it.get("fv"):        # the value is a variable that is named like the tag's flag
                ctx[FLAG] = v
                tpl.append(f"{it['k']}={FLAG}")
            else:
                tpl.append(f"{it['k']}={val(v)}")
            py.append(f"{it['k']}={v}" if it["k"] not in SPECIAL else "**{%r: %d}" % (it["k"], v))
        elif t == "L":
            vals = list(range(v + 1, v + 1 + it["n"]))
            v += it["n"]
            py.append("*%r" % (vals,))
            if (variant + n) % 2 == 0:
                tpl.append("...[%s]" % ", ".join(map(str, vals)))
            else:
                ctx[f"l{n}"] = vals
                tpl.append(f"...l{n}")
        elif t == "D":
            d = {}
            for k in it["ks"]:
                v += 1
                d[k] = v
            py.append("**%r" % (d,))
            if (variant + n) % 2 == 0:
                tpl.append("...{%s}" % ", ".join('"%s": %d' % kv for kv in d.items()))
            else:
                ctx[f"d{n}"] = d
                tpl.append(f"...d{n}")
        else:
            raise MachineryError(f"unknown item {it}")
    if (variant // 4) % 2 == 1 and not has_fv:
        tpl.append(FLAG)            # a flag is not an argument: it must not change the binding
    return " ".join(tpl), ctx, ", ".join(py)


# ---------------------------------------------------------------- probes
def _fn_src(name: str, first: str, params: str, indent: int) -> str:
    pad = " " * indent
    sep = ", " if params else ""
    return (f"{pad}def {name}({first}{sep}{params}):\n"
            f"{pad}    _l = dict(locals())\n"
            f"{pad}    _l.pop('self', None); _l.pop('context', None); _l.pop('_me', None)\n"
            f"{pad}    _LOG.append(1)\n"
            f"{pad}    return _DUMPS(_l, sort_keys=True)\n")


class Probes:
    """The tags of one signature: `pf` (render is a plain function -> fast path) and `ps`
    (render has no __code__ -> fallback path), registered in a private Library.  `index` varies what
    must not matter: BaseNode subclass vs @template_tag, callable object vs functools.partial,
    tag without / with an end tag (then used self-closing `{% pf .. / %}` or as a block)."""

    def __init__(self, lib, sig: List[Dict[str, Any]], index: int):
        from django_components import BaseNode, template_tag
        self.sig = sig
        self.log: List[int] = []
        src = sig_source(sig)
        ns: Dict[str, Any] = {"_LOG": self.log, "_DUMPS": json.dumps}
        text = _fn_src("render", "self, context", src, 0) + "class Obj:\n" + \
            _fn_src("__call__", "_me, self, context", src, 4)
        try:
            exec(text, ns)
        except SyntaxError as e:
            raise MachineryError(f"signature {src!r} is not valid Python: {e}")
        self.fn = ns["render"]
        self.block = index % 3 != 0
        lib.tags.pop("pf", None)
        lib.tags.pop("ps", None)
        if index % 2 == 0:
            cls = type("VfC11Fast", (BaseNode,), {"tag": "pf", "render": self.fn, "allowed_flags": [FLAG],
                                                  "end_tag": "endpf" if self.block else None})
            cls.register(lib)
        else:
            fn2 = ns["render"]
            fn2.__name__ = "pf"
            template_tag(lib, tag="pf", end_tag="endpf" if self.block else None, allowed_flags=[FLAG])(fn2)
        slow = ns["Obj"]() if index % 4 < 2 else functools.partial(self.fn)
        if hasattr(slow, "__code__"):
            raise MachineryError("fallback probe unexpectedly has __code__")
        cls2 = type("VfC11Slow", (BaseNode,), {"tag": "ps", "render": slow, "allowed_flags": [FLAG],
                                               "end_tag": "endps" if self.block else None})
        cls2.register(lib)

    def source(self, tag: str, targs: str, variant: int) -> str:
        head = "{% " + tag + (" " + targs if targs else "")
        if not self.block:
            return head + " %}"
        return head + " / %}" if variant % 2 else head + " %}body{% end" + tag + " %}"


_LIB = None


def _library():
    global _LIB
    if _LIB is None:
        from django.template import Library, engines
        _LIB = Library()
        engines["django"].engine.template_libraries["vf_c11"] = _LIB
    return _LIB


FOREIGN = 999     # stands for any bound value that is not one of the supplied ints / defaults


def _int(x: Any) -> int:
    return x if isinstance(x, int) and not isinstance(x, bool) and 0 < x < 999 else FOREIGN


def _project(sig, out_text: str) -> Dict[str, Any]:
    """Bindings printed by the probe -> [o, slot, star, kw] in the vocabulary of ArgBinding."""
    try:
        d = json.loads(out_text)
    except ValueError:
        return {"o": "other:unparsable-output", "slot": [], "star": [], "kw": [], "raw": out_text[:200]}
    has_va = any(p["k"] == "va" for p in sig)
    has_vk = any(p["k"] == "vk" for p in sig)
    known = {NAMES[i] for i, p in enumerate(sig) if p["k"] not in ("va", "vk")} | \
        ({"args"} if has_va else set()) | ({"kwargs"} if has_vk else set())
    if not isinstance(d, dict) or set(d) != known:
        return {"o": "other:locals-mismatch", "slot": [], "star": [], "kw": [], "raw": out_text[:200]}
    slot = [0 if p["k"] in ("va", "vk") else _int(d[NAMES[i]]) for i, p in enumerate(sig)]
    star = [_int(x) for x in d["args"]] if has_va else []
    kw = sorted([str(k), _int(v)] for k, v in d["kwargs"].items()) if has_vk else []
    return {"o": "ok", "slot": slot, "star": star, "kw": kw}


def _exc_class(e: BaseException) -> str:
    if isinstance(e, TypeError):
        return "type"
    if isinstance(e, SyntaxError):
        return "syntax"
    return "other:" + type(e).__name__


def _fail(o: str, **extra) -> Dict[str, Any]:
    d = {"o": o, "slot": [], "star": [], "kw": []}
    d.update(extra)
    return d


def observe_tag(pr: Probes, tag: str, targs: str, ctx: Dict[str, Any], variant: int = 0) -> Dict[str, Any]:
    """Render `{% <tag> <args> %}` through a real template; outcome + number of probe calls."""
    from django.template import Context, Template
    del pr.log[:]
    src = "{% load vf_c11 %}" + pr.source(tag, targs, variant)
    try:
        out = Template(src).render(Context(dict(ctx)))
        obs = _project(pr.sig, out)
    except Exception as e:  # noqa: BLE001 - the exception type is the observation
        obs = _fail(_exc_class(e), msg=str(e)[:160])
    obs["calls"] = len(pr.log)
    return obs


def observe_python(pr: Probes, pyargs: str) -> Dict[str, Any]:
    """What CPython itself answers for the literal call."""
    del pr.log[:]
    text = "f(None, None" + (", " + pyargs if pyargs else "") + ")"
    try:
        code = compile(text, "<c11>", "eval")
    except SyntaxError:
        return _fail("syntax")
    try:
        out = eval(code, {"f": pr.fn})
    except TypeError:
        return _fail("type")
    return _project(pr.sig, out)


def same(x: Dict[str, Any], y: Dict[str, Any]) -> bool:
    if x["o"] != y["o"]:
        return False
    if x["o"] != "ok":
        return True
    return list(x["slot"]) == list(y["slot"]) and list(x["star"]) == list(y["star"]) and \
        sorted(map(list, x["kw"])) == sorted(map(list, y["kw"]))


def run_case(pr: Probes, call, variant: int) -> Dict[str, Any]:
    targs, ctx, pyargs = call_sources(call, variant)
    return {"template": pr.source("pf", targs, variant), "context": ctx,
            "python": "f(None, None, " + pyargs + ")",
            "py": observe_python(pr, pyargs),
            "fast": observe_tag(pr, "pf", targs, ctx, variant),
            "slow": observe_tag(pr, "ps", targs, ctx, variant)}


# ---------------------------------------------------------------- spec -> code
def judge(row: Dict[str, Any], obs: Dict[str, Any]) -> List[Dict[str, Any]]:
    """Compare the observations of one exported case with what the specification exported.
    Returns a list of problems: {"kind", "key", "detail"}; kind 'spec-vs-cpython' is machinery."""
    bad: List[Dict[str, Any]] = []
    if not same(row["py"], obs["py"]):
        return [{"kind": "spec-vs-cpython", "key": None,
                 "detail": {"spec": row["py"], "cpython": obs["py"], "python": obs["python"]}}]
    explained = {}
    for path in ("fast", "slow"):
        o = obs[path]
        if any(same(a, o) for a in row["adm"]):
            if o["o"] != "ok" and o["calls"] != 0:
                bad.append({"kind": f"{path}:called-although-rejected", "key": None, "detail": o})
            continue
        key = None
        for d in row["devs"]:
            if same(d["out"], o):
                key = d["key"]
                break
        explained[path] = key
        bad.append({"kind": f"{path}:not-admissible", "key": key,
                    "detail": {"path": path, "observed": o, "admissible": row["adm"], "python_gives": row["py"]}})
    if not same(obs["fast"], obs["slow"]):
        # a disagreement that is the consequence of a reported deviation on one path is not a second finding
        if not any(k is not None for k in explained.values()):
            bad.append({"kind": "paths-disagree", "key": None,
                        "detail": {"fast": obs["fast"], "slow": obs["slow"]}})
    return bad


def _replay_file(job):
    """Worker: replay every case of one exported part file.  Lines are grouped by signature on the
    raw text (one probe pair per signature) and parsed one at a time, so a part never sits in memory
    as Python objects.  -> (n cases, n signatures, stats, problems, two sample rows)."""
    import re
    path, label, max_problems = job
    lib = _library()
    groups: Dict[str, List[str]] = {}
    with open(path, encoding="utf-8") as f:
        for line in f:
            m = re.search(r'"sig":\[[^\]]*\]', line)
            if not m:
                raise MachineryError(f"{path}: exported line without a signature: {line[:80]}")
            groups.setdefault(m.group(0), []).append(line)
    problems: List[Dict[str, Any]] = []
    stats = {"ok": 0, "type": 0, "syntax": 0, "zone": 0, "fast_ok": 0, "slow_ok": 0, "nontrivial": 0}
    n = 0
    samples: List[Dict[str, Any]] = []
    for gi, key in enumerate(sorted(groups)):
        lines = groups[key]
        sig = json.loads(lines[0])["sig"]
        pr = Probes(lib, sig, gi)
        for ri, line in enumerate(lines):
            row = json.loads(line)
            obs = run_case(pr, row["call"], gi + ri)
            n += 1
            stats[row["py"]["o"]] += 1
            stats["zone"] += len(row["adm"]) > 1
            stats["nontrivial"] += bool(row["call"]) or bool(sig)
            stats["fast_ok"] += obs["fast"]["o"] == "ok"
            stats["slow_ok"] += obs["slow"]["o"] == "ok"
            if len(samples) < 2 and len(row["call"]) >= 2 and (gi + ri) % 97 == 5:
                samples.append({"signature": f"def render(self, context, {sig_source(sig)})",
                                "template": obs["template"], "context": obs["context"], "python": obs["python"],
                                "python_gives": row["py"], "admissible": row["adm"],
                                "fast": obs["fast"], "slow": obs["slow"]})
            for b in judge(row, obs):
                if b["kind"] == "spec-vs-cpython" or len(problems) < max_problems:
                    problems.append({"sig": sig, "signature": sig_source(sig), "call": row["call"],
                                     "template": obs["template"], "context": obs["context"],
                                     "python": obs["python"], **b})
                else:   # keep counting (per key) without keeping the case
                    problems.append({"kind": b["kind"], "key": b["key"], "counted_only": True})
    return n, len(groups), stats, problems, samples


class Workers:
    """Worker processes for the real-code executions.  Forked on entry - before any TLC thread is
    started and, in the selftest, while the mutation probe is patched in - and reused for the run."""

    def __init__(self) -> None:
        self.pool = None

    def __enter__(self) -> "Workers":
        if _procs() > 1:
            import multiprocessing as mp
            self.pool = mp.get_context("fork").Pool(_procs())
        return self

    def __exit__(self, *exc) -> None:
        if self.pool is not None:
            self.pool.terminate()
            self.pool.join()

    def map(self, fn, jobs):
        if self.pool is None or len(jobs) <= 1:
            return [fn(j) for j in jobs]
        return self.pool.map(fn, jobs, chunksize=1)


def _write_cfg(path: Path, spec: str, consts: Dict[str, Any], invariants: List[str], props: List[str]) -> None:
    def lit(v):
        if isinstance(v, bool):
            return "TRUE" if v else "FALSE"
        if isinstance(v, (set, frozenset, list)):
            return "{" + ", ".join('"%s"' % x for x in sorted(v)) + "}"
        return str(v)
    lines = [f"SPECIFICATION {spec}", "CONSTANTS"] + [f"  {k} = {lit(v)}" for k, v in consts.items()]
    lines += [f"INVARIANT {i}" for i in invariants] + [f"PROPERTY {p}" for p in props]
    path.write_text("\n".join(lines) + "\n")


def start_model_check(ex: ThreadPoolExecutor, name: str, bounds: Dict[str, Any], parts: int):
    """Submit MC_C11, split by signature over `parts` TLC processes, to the executor."""
    w = workdir("c11mc")
    jobs = []
    for part in range(parts):
        cfg = w / f"{name}_{part}.cfg"
        out = w / f"{name}_{part}.ndjson"
        consts = dict({"ParamKinds": set(RANK), "UseFlagValue": False}, **bounds)
        _write_cfg(cfg, "MCSpec", dict(consts, Parts=parts, Part=part), INVARIANTS, ["ErrorsAreSticky"])
        jobs.append((cfg, out))

    def one(job):
        cfg, out = job
        return tlc.run("MC_C11", str(cfg), env={"OUT": str(out)}, workers=1, heap="2g")
    return jobs, [ex.submit(one, j) for j in jobs]


def finish_model_check(chk: Check, name: str, started) -> List[Path]:
    """Wait for the TLC processes of one configuration; returns the exported part files (one JSON
    line per reachable state = one case) after checking that the export is complete."""
    jobs, futures = started
    results = [f.result() for f in futures]
    per_part = []
    for part, ((cfg, out), r) in enumerate(zip(jobs, results)):
        tlc.require_ok(r, f"MC_C11 {name} part {part}")
        n_rows = own_sigs = 0
        with open(out, encoding="utf-8") as f:
            for line in f:
                n_rows += 1
                own_sigs += '"call":[]' in line
        per_part.append((r, n_rows, own_sigs))
        chk.add("transitions", r.generated)
    # every part walks all signatures (states with an empty call) and extends + exports only its own:
    # distinct states of a part = all signatures + its own non-empty calls
    n_sigs = sum(own_sigs for _, _, own_sigs in per_part)
    for part, (r, n_rows, own_sigs) in enumerate(per_part):
        if r.distinct != n_sigs + (n_rows - own_sigs):
            raise MachineryError(f"MC_C11 {name} part {part}: export incomplete "
                                 f"({n_rows} rows, {own_sigs} own signatures of {n_sigs}, {r.distinct} states)")
    total = sum(n for _, n, _ in per_part)
    chk.add("states", total)
    chk.add(f"cases_{name}", total)
    chk.add(f"signatures_{name}", n_sigs)
    return [out for _, out in jobs]


def replay_files(chk: Check, files: List[Path], label: str, workers: Workers) -> None:
    """spec -> code: replay every exported case on the real tags (both paths) and on CPython."""
    jobs = [(str(f), label, 40) for f in files]
    total = 0
    for n, n_sigs, stats, problems, samples in workers.map(_replay_file, jobs):
        total += n
        for k, v in stats.items():
            chk.add(f"{label}_{k}" if k != "nontrivial" else "distinct_nontrivial", v)
        for p in problems:
            _report(chk, p)
        for smp in samples[:1]:
            chk.sample({"case": smp}, limit=4)
    chk.evals += total
    chk.add("cases_replayed", total)


def _report(chk: Check, p: Dict[str, Any]) -> None:
    if p["kind"] == "spec-vs-cpython":
        raise MachineryError("ArgBinding.tla disagrees with CPython on "
                             f"def f(self, context, {p['signature']}) / {p['python']}: {p['detail']}")
    if p.get("counted_only"):
        chk.violation({"kind": p["kind"], "note": "further case of the same kind, not stored"}, None, key=p["key"])
        return
    case = {"kind": p["kind"], "sig": p["sig"], "signature": f"def render(self, context, {p['signature']})",
            "call": p["call"], "template": p["template"], "context": p["context"], "python": p["python"]}
    chk.violation(case, p["detail"], key=p["key"])


# ---------------------------------------------------------------- code -> spec
def random_case(rnd: random.Random, max_params: int, max_items: int) -> Tuple[List[Dict[str, Any]], List[Dict[str, Any]]]:
    while True:
        n = rnd.randint(0, max_params)
        kinds = sorted((rnd.choice(["po", "pk", "pk", "ko", "va", "vk"]) for _ in range(n)), key=RANK.get)
        sig = [{"k": k, "d": rnd.random() < 0.45 and k not in ("va", "vk")} for k in kinds]
        # repair default monotonicity instead of rejecting (keeps the distribution rich)
        seen = False
        for p in sig:
            if p["k"] in ("po", "pk"):
                p["d"] = p["d"] or seen
                seen = p["d"]
        if well_formed(sig):
            break
    names = [NAMES[i] for i, p in enumerate(sig) if p["k"] not in ("va", "vk")]
    keys = names + ["u", "w", "data-x", "class", "args", "kwargs"] + NAMES[len(sig):len(sig) + 1]
    call = []
    # bias: positional things first most of the time, so that many calls are accepted
    ordered = rnd.random() < 0.6
    for _ in range(rnd.randint(0, max_items)):
        x = rnd.random()
        if x < 0.30:
            call.append({"t": "P", "k": "", "n": 0, "ks": [], "fv": False})
        elif x < 0.62:
            call.append({"t": "K", "k": rnd.choice(keys), "n": 0, "ks": [], "fv": False})
        elif x < 0.78:
            call.append({"t": "L", "k": "", "n": rnd.randint(0, 3), "ks": [], "fv": False})
        else:
            ks = rnd.sample(keys, rnd.randint(0, min(3, len(keys))))
            call.append({"t": "D", "k": "", "n": 0, "ks": ks, "fv": False})
    if ordered:
        call.sort(key=lambda it: 0 if it["t"] in ("P", "L") else 1)
    if sum({"P": 1, "K": 1}.get(it["t"], 0) + it["n"] + len(it["ks"]) for it in call) > 12:
        call = call[:3]
    # `key=<variable named like the flag>`: kept apart from the shapes of the other known deviations
    # (positional-only parameters, repeated special keys) so that findings stay separately keyed
    plain = [it for it in call if it["t"] == "K"]
    if plain and rnd.random() < 0.12 and not any(p["k"] == "po" for p in sig) and \
            not any(k in SPECIAL for it in call for k in [it["k"]] + list(it["ks"])):
        rnd.choice(plain)["fv"] = True
    return sig, call


def _record_cases(args):
    seed, first_id, count, max_params, max_items = args
    rnd = random.Random(seed)
    lib = _library()
    out = []
    for i in range(count):
        sig, call = random_case(rnd, max_params, max_items)
        pr = Probes(lib, sig, first_id + i)
        obs = run_case(pr, call, first_id + i)
        out.append({"id": first_id + i, "sig": sig, "call": call,
                    "py": _strip(obs["py"]), "fast": _strip(obs["fast"]), "slow": _strip(obs["slow"]),
                    "_src": {"signature": sig_source(sig), "template": obs["template"],
                             "context": obs["context"], "python": obs["python"]}})
    return out


def _strip(o: Dict[str, Any]) -> Dict[str, Any]:
    cls = o["o"] if o["o"] in ("ok", "type", "syntax") else "other"
    return {"o": cls, "slot": o["slot"], "star": o["star"], "kw": [list(x) for x in o["kw"]],
            "calls": o.get("calls", 0), "exc": o["o"]}


def _verdicts(out: str, n: int) -> Dict[str, Any]:
    """ACCEPT/REJECT lines of Trace_C11 (TLC wraps long tuples over several lines)."""
    import re
    acc = {int(m.group(1)) for m in re.finditer(r'<<\s*"ACCEPT",\s*(\d+)\s*>>', out)}
    rej = {}
    for m in re.finditer(r'<<\s*"REJECT",\s*(\d+),\s*(\d+),\s*\{(.*?)\}\s*>>', out, re.S):
        rej[int(m.group(1))] = [c.strip().strip('"') for c in m.group(3).split(",") if c.strip()]
    if len(acc) + len(rej) != n or acc & set(rej):
        tail = "\n".join(out.splitlines()[-40:])
        raise MachineryError(f"Trace_C11: {len(acc)}+{len(rej)} verdicts for {n} traces\n{tail}")
    return {"accepted": acc, "rejected": rej}


def validate_traces(chk: Check, total: int, max_params: int, max_items: int,
                    inside: List[Tuple[int, int]], workers: Workers) -> None:
    w = workdir("c11tr")
    per = 250       # fixed, so that the cases do not depend on the number of worker processes
    jobs = []
    n = 0
    while n < total:
        c = min(per, total - n)
        jobs.append((chk.seed * 1000003 + 11 * (len(jobs) + 1), n + 1, c, max_params, max_items))
        n += c
    traces: List[Dict[str, Any]] = []
    for part in workers.map(_record_cases, jobs):
        traces += part
    src = {t["id"]: t.pop("_src") for t in traces}
    f = w / "traces.ndjson"
    tlc.write_ndjson(f, traces)
    cfg = w / "trace.cfg"
    _write_cfg(cfg, "TrSpec", {}, ["TraceTypeOK"], [])
    r = tlc.run("Trace_C11", str(cfg), env={"IN": str(f)}, workers=1, heap="2g")
    tlc.require_ok(r, "Trace_C11")
    v = _verdicts(r.out, len(traces))
    by_id = {t["id"]: t for t in traces}
    for tid, names in sorted(v["rejected"].items()):
        t = by_id[tid]
        if any(c == "spec_vs_cpython" for c in names):
            raise MachineryError(f"ArgBinding.tla disagrees with CPython on def f(self, context, "
                                 f"{src[tid]['signature']}) / {src[tid]['python']}: cpython={t['py']}")
        devs = sorted({c.split(":", 2)[2] for c in names if c.startswith("dev:")})
        others = [c for c in names if not c.startswith("dev:")]
        case = {"kind": "trace", "sig": t["sig"], "signature": f"def render(self, context, {src[tid]['signature']})",
                "call": t["call"], "template": src[tid]["template"], "context": src[tid]["context"],
                "python": src[tid]["python"]}
        detail = {"clauses": names, "fast": t["fast"], "slow": t["slow"], "python_gives": t["py"]}
        if others:
            chk.violation(case, detail, key=None)
        else:
            for key in devs:
                chk.violation(case, detail, key=key)
    beyond = set()
    for t in traces:
        chk.add("trace_" + t["py"]["o"], 1)
        if t["call"] and not any(len(t["sig"]) <= mp and len(t["call"]) <= mi for mp, mi in inside):
            beyond.add(sha([t["sig"], t["call"]]))
    chk.evals += len(traces)
    chk.add("distinct_nontrivial", len(beyond))      # random cases outside every exhaustive bound
    chk.add("traces_beyond_exhaustive_bound", len(beyond))
    chk.add("traces_validated_against_impl", len(traces))
    chk.add("trace_states", r.distinct)
    if traces:
        t = traces[len(traces) // 3]
        chk.sample({"trace": {"signature": src[t["id"]]["signature"], "template": src[t["id"]]["template"],
                              "context": src[t["id"]]["context"], "fast": t["fast"], "slow": t["slow"]}}, limit=6)


# ---------------------------------------------------------------- tiers
QUICK = [
    # all signatures of <= 3 parameters x all calls of <= 3 items
    ("p3i3", dict(MaxParams=3, MaxItems=3, MaxFlat=4, MaxSpread=1, MaxDict=1,
                  ExtraKeys={"u", "data-x"}, UseVarNames=False), 8),
    # all signatures of <= 5 parameters x every single item (richer spreads and keys)
    ("p5i1", dict(MaxParams=5, MaxItems=1, MaxFlat=2, MaxSpread=2, MaxDict=2,
                  ExtraKeys={"u", "data-x", "class"}, UseVarNames=True), 8),
    # extension - tags with flags: `key=<variable named like the flag>` (signatures without
    # positional-only parameters, no special keys: keeps the known deviations separately keyed)
    ("flagval", dict(MaxParams=2, MaxItems=2, MaxFlat=3, MaxSpread=1, MaxDict=1, ExtraKeys={"u"},
                     UseVarNames=False, ParamKinds={"pk", "va", "ko", "vk"}, UseFlagValue=True), 2),
]
THOROUGH = [
    # all signatures of <= 4 parameters x all calls of <= 3 items
    ("p4i3", dict(MaxParams=4, MaxItems=3, MaxFlat=4, MaxSpread=1, MaxDict=1,
                  ExtraKeys={"u", "data-x"}, UseVarNames=False), 16),
    # all signatures of <= 5 parameters x all calls of <= 2 items, richer keys and list spreads
    ("p5i2", dict(MaxParams=5, MaxItems=2, MaxFlat=4, MaxSpread=2, MaxDict=1,
                  ExtraKeys={"u", "data-x", "class"}, UseVarNames=True), 16),
    # two-key dict spreads on the smaller signatures
    ("p3i2", dict(MaxParams=3, MaxItems=2, MaxFlat=4, MaxSpread=2, MaxDict=2,
                  ExtraKeys={"u", "data-x", "class"}, UseVarNames=True), 8),
    ("flagval", dict(MaxParams=3, MaxItems=3, MaxFlat=3, MaxSpread=1, MaxDict=1, ExtraKeys={"u"},
                     UseVarNames=False, ParamKinds={"pk", "va", "ko", "vk"}, UseFlagValue=True), 8),
]


def core(chk: Check, configs, ntraces: int, max_params: int, max_items: int,
         cache: Dict[str, List[Path]] = None) -> None:
    """All TLC runs are queued at once (4 at a time); each configuration is replayed as soon as its
    export is complete, while TLC works on the next one.  `cache`: exports kept between selftest
    probes (they do not depend on the library)."""
    import time
    with Workers() as workers, ThreadPoolExecutor(max_workers=4) as ex:
        started = {name: start_model_check(ex, name, bounds, parts)
                   for name, bounds, parts in configs if cache is None or name not in cache}
        for name, bounds, parts in configs:
            t0 = time.time()
            if name in started:
                files = finish_model_check(chk, name, started[name])
                if cache is not None:
                    cache[name] = files
            else:
                files = cache[name]
            t1 = time.time()
            replay_files(chk, files, name, workers)
            chk.cov.setdefault("wall_s_by_phase", {})[name] = {"waiting_for_tlc": round(t1 - t0, 1),
                                                              "replay": round(time.time() - t1, 1)}
        t0 = time.time()
        validate_traces(chk, ntraces, max_params, max_items,
                        [(b["MaxParams"], b["MaxItems"]) for _, b, _ in configs], workers)
        chk.cov.setdefault("wall_s_by_phase", {})["traces"] = round(time.time() - t0, 1)


def builtin_tags(chk: Check, configs) -> None:
    """Evidence only: the library's own tags are BaseNode subclasses wrapped by the same NodeMeta
    code; record their render signatures and whether they lie inside the enumerated space."""
    import inspect
    import django_components.templatetags.component_tags  # noqa: F401 - imports every built-in node
    from django_components.node import BaseNode
    kind = {inspect.Parameter.POSITIONAL_ONLY: "po", inspect.Parameter.POSITIONAL_OR_KEYWORD: "pk",
            inspect.Parameter.VAR_POSITIONAL: "va", inspect.Parameter.KEYWORD_ONLY: "ko",
            inspect.Parameter.VAR_KEYWORD: "vk"}

    def subclasses(c):
        for x in c.__subclasses__():
            yield x
            yield from subclasses(x)
    out = {}
    for c in subclasses(BaseNode):
        if not c.__module__.startswith("django_components."):
            continue
        sig = [{"k": kind[p.kind], "d": p.default is not inspect.Parameter.empty}
               for p in c._signature.parameters.values()]
        out[c.tag] = {"signature": str(c._signature).split(" -> ")[0], "abstract": sig_source(sig),
                      "wrapped_by_NodeMeta": bool(getattr(c.render, "_djc_wrapped", False)),
                      "fast_path": hasattr(getattr(c.render, "__wrapped__", None), "__code__"),
                      "inside_exhaustive_bound": any(len(sig) <= b["MaxParams"] and
                                                     all(p["k"] in b.get("ParamKinds", RANK) for p in sig)
                                                     for _, b, _ in configs)}
    chk.cov["builtin_tags"] = out


def run(tier: str) -> int:
    from . import boot
    boot.setup()
    chk = Check(PID, tier, "model_checking")
    if tier == "quick":
        core(chk, QUICK, 4000, 6, 6)
    else:
        core(chk, THOROUGH, 40000, 7, 7)
    builtin_tags(chk, QUICK if tier == "quick" else THOROUGH)
    chk.cov["exhaustive"] = True
    chk.cov["rule"] = ("every reachable state of MC_C11 = one (signature, call) pair inside the bound (calls are "
                       "not extended after a sticky binding error or a positional-after-keyword), each replayed on "
                       "the real tag through both validation paths and on CPython; random deeper pairs validated by "
                       "Trace_C11. Non-trivial = non-empty signature or call; distinct = TLC distinct states "
                       "(checked equal to the exported lines) + random cases outside every exhaustive bound "
                       "(by hash of (signature, call))")
    chk.assumptions += [
        "the j-th supplied value is the int j, defaults are 100+i: binding is insensitive to the values themselves",
        "keys beyond the parameter names, one unknown identifier, data-x, class, args, kwargs behave like one of these",
        "zones Z1-Z3 (late list spread, empty dict spread before positional, spread-produced duplicate key) admit "
        "several answers; **kwargs order and error messages are not compared",
        "fallback path reached with a callable object / functools.partial as render (no __code__)",
        "built-in tags go through the same NodeMeta wrapper; their render signatures (<= 3 parameters after "
        "context) lie inside the exhaustively enumerated signature space, they are not driven themselves",
    ]
    return chk.finish()


# ---------------------------------------------------------------- replay of one stored case
def replay(path: str) -> int:
    """Re-execute exactly the stored case: run it on CPython and on both tag paths, let TLC judge
    the recorded observations against Trace_C11 (same specification as the check)."""
    from . import boot
    boot.setup()
    d = json.load(open(path))
    case = d["case"]
    sig = [{"k": p["k"], "d": bool(p["d"])} for p in case["sig"]]
    call = [{"t": it["t"], "k": it.get("k", ""), "n": it.get("n", 0), "ks": list(it.get("ks", [])),
             "fv": bool(it.get("fv", False))} for it in case["call"]]
    pr = Probes(_library(), sig, 0)
    failed = False
    for variant in (0, 1):      # literal spreads and context-variable spreads
        obs = run_case(pr, call, variant)
        t = {"id": 1, "sig": sig, "call": call, "py": _strip(obs["py"]), "fast": _strip(obs["fast"]),
             "slow": _strip(obs["slow"])}
        w = workdir("c11rp")
        f = w / "trace.ndjson"
        tlc.write_ndjson(f, [t])
        cfg = w / "trace.cfg"
        _write_cfg(cfg, "TrSpec", {}, ["TraceTypeOK"], [])
        r = tlc.require_ok(tlc.run("Trace_C11", str(cfg), env={"IN": str(f)}, workers=1, heap="1g"), "Trace_C11")
        v = _verdicts(r.out, 1)
        for k, x in [("signature", f"def render(self, context, {sig_source(sig)})"),
                     ("template", obs["template"]), ("context", obs["context"]), ("python", obs["python"]),
                     ("cpython", obs["py"]), ("fast", obs["fast"]), ("slow", obs["slow"]),
                     ("verdict", "ACCEPT" if v["accepted"] else {"REJECT": v["rejected"][1]})]:
            print(f"{k:10s} {x if isinstance(x, str) else json.dumps(x)}")
        print()
        failed = failed or bool(v["rejected"])
    return 1 if failed else 0


# ---------------------------------------------------------------- selftest
_FILES_CACHE: Dict[str, List[Path]] = {}

SELFTEST_CONFIGS = [
    ("st_p2i3", dict(MaxParams=2, MaxItems=3, MaxFlat=4, MaxSpread=2, MaxDict=1,
                     ExtraKeys={"u", "data-x"}, UseVarNames=False), 6),
]


def _mutant(fn, subs, globs, rename_super: bool = False):
    """A copy of `fn` compiled from its source with textual substitutions (each entry is a list of
    alternative (old, new) pairs; the first whose `old` occurs is applied)."""
    import inspect
    import textwrap
    src = inspect.getsource(fn)          # substitutions are written with the indentation of the file
    for alts in subs:
        for old, new in alts:
            if old in src:
                src = src.replace(old, new)
                break
        else:
            raise MachineryError(f"mutation probe no longer applies to {fn.__name__}: {alts[0][0][:60]!r}")
    src = textwrap.dedent(src)
    if rename_super:
        src = src.replace("super().__new__(mcs, name, bases, attrs)", "type.__new__(mcs, name, bases, attrs)")
    ns: Dict[str, Any] = {}
    exec(compile(src, f"<mutant of {fn.__name__}>", "exec"), globs, ns)
    return ns[fn.__name__]


def selftest(tier: str) -> int:
    """In-process mutation probes: realistic bugs in validate_params / NodeMeta / resolve_params
    that leave the repository's own tests green-ish paths untouched.  Never touches /repo."""
    from contextlib import ExitStack, contextmanager
    from . import boot
    from .core import run_probes
    boot.setup()
    import django_components.node as dnode
    import django_components.util.template_tag as tt

    @contextmanager
    def patch(obj, name, new):
        old = obj.__dict__[name] if isinstance(obj, type) else getattr(obj, name)
        setattr(obj, name, new)
        try:
            yield
        finally:
            setattr(obj, name, old)

    def mut_tt(fname, subs):
        def cm():
            return patch(tt, fname, _mutant(getattr(tt, fname), subs, tt.__dict__))
        return cm

    def both(subs):
        @contextmanager
        def cm():
            with ExitStack() as st:
                for fname in ("_validate_params_with_code", "_validate_params_with_signature"):
                    st.enter_context(patch(tt, fname, _mutant(getattr(tt, fname), subs, tt.__dict__)))
                yield
        return cm

    DUP = [[("            if param.key in used_param_names:\n"
             "                raise TypeError(f\"got multiple values for argument '{param.key}'\")\n",
             "            if False:\n                pass\n")]]
    POS_AFTER_KW = [[("            if seen_kwargs:\n"
                      "                raise TypeError(\"positional argument follows keyword argument\")\n",
                      "            if False:\n                pass\n")]]
    UNKNOWN_DROPPED = [[("                raise TypeError(f\"got an unexpected keyword argument '{param.key}'\")\n",
                         "                continue\n")]]
    REQUIRED = [[("    required_positional = positional_count - num_defaults\n",
                  "    required_positional = code.co_argcount - num_defaults\n")]]
    NO_POSONLY = [[("        if signature_param.kind in (\n"
                    "            inspect.Parameter.POSITIONAL_ONLY,\n"
                    "            inspect.Parameter.POSITIONAL_OR_KEYWORD,\n"
                    "        ):\n            max_positional_index = i + 1\n",
                    "        if signature_param.kind in (\n"
                    "            inspect.Parameter.POSITIONAL_OR_KEYWORD,\n"
                    "        ):\n            max_positional_index = i + 1\n")]]
    STAR_LOST = [[("            validated_args.append(param.value)\n            next_positional_index += 1\n",
                   "            if next_positional_index < positional_count:\n"
                   "                validated_args.append(param.value)\n            next_positional_index += 1\n")]]
    SPECIAL_DROPPED = [[("        if not has_var_keyword:\n"
                         "            first_key = next(iter(extra_kwargs))\n"
                         "            raise TypeError(f\"got an unexpected keyword argument '{first_key}'\")\n"
                         "        validated_kwargs.update(extra_kwargs)\n",
                         "        if has_var_keyword:\n            validated_kwargs.update(extra_kwargs)\n")]]
    KWDEFAULTS = [[("    kwdefaults = getattr(fn, \"__kwdefaults__\", None) or {}\n", "    kwdefaults = {}\n")]]
    SPECIAL_POS = [[("                    if did_see_special_kwarg:\n"
                     "                        raise SyntaxError(\"positional argument follows keyword argument\")\n",
                     "                    if False:\n                        pass\n")]]
    LIST_SPREAD = [[("                for value in resolved:\n"
                     "                    resolved_params.append(TagParam(key=None, value=value))\n",
                     "                resolved_params.append(TagParam(key=None, value=resolved))\n")]]
    DICT_SPREAD = [[("                for key, value in resolved.items():\n"
                     "                    resolved_params.append(TagParam(key=key, value=value))\n",
                     "                for key, value in list(resolved.items())[:1]:\n"
                     "                    resolved_params.append(TagParam(key=key, value=value))\n")]]

    FLAG_KEPT = [[("        found_flags.add(value)\n",
                   "        found_flags.add(value)\n        remaining_attrs.append(attr)\n")]]

    def nodemeta(subs):
        def cm():
            new = _mutant(dnode.NodeMeta.__dict__["__new__"].__func__
                          if isinstance(dnode.NodeMeta.__dict__["__new__"], staticmethod)
                          else dnode.NodeMeta.__dict__["__new__"], subs, dnode.__dict__, rename_super=True)
            return patch(dnode.NodeMeta, "__new__", staticmethod(new))
        return cm

    def resolve(subs):
        def cm():
            return patch(dnode, "resolve_params", _mutant(tt.resolve_params, subs, tt.__dict__))
        return cm

    probes = [
        ("fast: repeated keyword silently overwrites", mut_tt("_validate_params_with_code", DUP)),
        ("fallback: repeated keyword silently overwrites", mut_tt("_validate_params_with_signature", DUP)),
        ("both: positional after keyword accepted", both(POS_AFTER_KW)),
        ("fast: unknown keyword silently dropped", mut_tt("_validate_params_with_code", UNKNOWN_DROPPED)),
        ("fast: required count forgets self/context", mut_tt("_validate_params_with_code", REQUIRED)),
        ("fallback: positional-only params not counted as positional",
         mut_tt("_validate_params_with_signature", NO_POSONLY)),
        ("fast: values for *args dropped", mut_tt("_validate_params_with_code", STAR_LOST)),
        ("fast: non-identifier keys dropped without **kwargs", mut_tt("_validate_params_with_code", SPECIAL_DROPPED)),
        ("fast: keyword-only defaults ignored", mut_tt("_validate_params_with_code", KWDEFAULTS)),
        ("node: positional after non-identifier key accepted", nodemeta(SPECIAL_POS)),
        ("resolve: list spread passed as one value", resolve(LIST_SPREAD)),
        ("resolve: dict spread keeps only first key", resolve(DICT_SPREAD)),
        ("parse: flag word also passed on as an argument", mut_tt("_extract_flags", FLAG_KEPT)),
    ]

    def body(chk: Check) -> None:
        core(chk, SELFTEST_CONFIGS, 1500, 5, 5, cache=_FILES_CACHE)

    return run_probes(PID, probes, body)
