"""Run TLC on a module of /verif/specs and parse what it reports."""
from __future__ import annotations

import json
import os
import re
import subprocess
from dataclasses import dataclass, field
from pathlib import Path
from typing import Any, Dict, List, Optional

from .core import SPECS, MachineryError, workdir

JAR = "/opt/veriftools/tla/tla2tools.jar"
DEPS = "/opt/veriftools/tla/CommunityModules-deps.jar"


@dataclass
class TlcResult:
    ok: bool                      # finished without TLC-level error
    out: str
    generated: int = 0
    distinct: int = 0
    depth: int = 0
    violated: List[str] = field(default_factory=list)   # names of violated invariants/properties
    coverage: Dict[str, int] = field(default_factory=dict)
    printed: List[str] = field(default_factory=list)
    wall_s: float = 0.0


def run(module: str, cfg: str, *, env: Optional[Dict[str, str]] = None, workers: int = 8,
        simulate: Optional[str] = None, depth: Optional[int] = None, seed: Optional[int] = None,
        coverage: bool = False, timeout: int = 1200, deadlock: bool = False,
        heap: str = "4g", dfs: bool = False, extra: Optional[List[str]] = None) -> TlcResult:
    """`cfg` is a file name in specs/ or an absolute path (generated cfg)."""
    import time
    t0 = time.time()
    meta = workdir("tlc")
    cfgp = Path(cfg) if os.path.isabs(cfg) else SPECS / cfg
    cmd = ["java", "-XX:+UseParallelGC", f"-Xmx{heap}", "-Xss64m", f"-Djava.io.tmpdir={meta}"]
    if dfs:
        cmd.append("-Dtlc2.tool.queue.IStateQueue=StateDeque")
    cmd += ["-cp", f"{JAR}:{DEPS}", "tlc2.TLC", "-metadir", str(meta), "-noGenerateSpecTE",
            "-workers", str(workers), "-config", str(cfgp)]
    if not deadlock:
        cmd.append("-deadlock")          # disables deadlock checking
    if simulate is not None:
        cmd += ["-simulate", simulate]
    if depth is not None:
        cmd += ["-depth", str(depth)]
    if seed is not None:
        cmd += ["-seed", str(seed)]
    if coverage:
        cmd += ["-coverage", "1"]
    if extra:
        cmd += extra
    cmd.append(str(SPECS / f"{module}.tla"))
    e = dict(os.environ)
    e.pop("JAVA_TOOL_OPTIONS", None)
    if env:
        e.update({k: str(v) for k, v in env.items()})
    try:
        p = subprocess.run(cmd, cwd=str(SPECS), env=e, capture_output=True, text=True, timeout=timeout)
    except subprocess.TimeoutExpired as ex:
        raise MachineryError(f"TLC timeout after {timeout}s on {module}/{cfg}") from ex
    out = p.stdout + p.stderr
    r = TlcResult(ok=False, out=out, wall_s=time.time() - t0)
    m = None
    for m in re.finditer(r"(\d+) states generated, (\d+) distinct states found", out):
        pass
    if m:
        r.generated, r.distinct = int(m.group(1)), int(m.group(2))
    m = re.search(r"The number of states generated: (\d+)", out)
    if m and not r.generated:
        r.generated = int(m.group(1))
        r.distinct = r.generated
    m = re.search(r"The depth of the complete state graph search is (\d+)", out)
    if m:
        r.depth = int(m.group(1))
    r.violated = re.findall(r"Invariant (\S+) is violated", out) + \
        re.findall(r"Action property (\S+) is violated", out) + \
        re.findall(r"Temporal properties were violated", out)
    for m in re.finditer(r"<(\w+) line \d+, col \d+ to line \d+, col \d+ of module (\w+)>: (\d+):(\d+)", out):
        r.coverage[m.group(1)] = r.coverage.get(m.group(1), 0) + int(m.group(4))
    r.printed = [l for l in out.splitlines() if l.startswith("<<") or l.startswith('"')]
    finished = ("Model checking completed" in out) or ("Finished in" in out and simulate is not None) \
        or ("Finished computing initial states" in out and "Finished in" in out)
    r.ok = finished and p.returncode in (0,) and not r.violated and "Error:" not in out
    return r


def require_ok(r: TlcResult, what: str) -> TlcResult:
    if not r.ok:
        tail = "\n".join(r.out.splitlines()[-60:])
        raise MachineryError(f"TLC failed on {what}:\n{tail}")
    return r


def verdicts(r: TlcResult, n: int, what: str) -> Dict[str, Any]:
    """Parse ACCEPT/REJECT lines printed by a Trace_* run; every trace must have one."""
    acc, rej = set(), {}
    for line in r.out.splitlines():
        m = re.match(r'<<"ACCEPT", (\d+)>>', line)
        if m:
            acc.add(int(m.group(1)))
        m = re.match(r'<<"REJECT", (\d+), (\d+), (.*)>>', line)
        if m:
            rej[int(m.group(1))] = {"event": int(m.group(2)), "clauses": m.group(3)}
    if len(acc) + len(rej) != n:
        tail = "\n".join(r.out.splitlines()[-40:])
        raise MachineryError(f"{what}: {len(acc)}+{len(rej)} verdicts for {n} traces\n{tail}")
    return {"accepted": acc, "rejected": rej}



def read_ndjson(path: Path) -> List[Any]:
    out = []
    if not path.exists():
        return out
    with open(path, encoding="utf-8") as f:
        for line in f:
            line = line.strip()
            if line:
                out.append(json.loads(line))
    return out


def write_ndjson(path: Path, rows: List[Any]) -> None:
    with open(path, "w", encoding="utf-8") as f:
        for r in rows:
            f.write(json.dumps(r, ensure_ascii=True, separators=(",", ":")) + "\n")
