"""ProvideRefs.tla: model checking (TLC reachability + inductiveness, Apalache symbolic inductiveness) and
batch validation of operation traces recorded by vf/provtrace.py (Trace_ProvideRefs.tla)."""
from __future__ import annotations

import os
import re
import shutil
import subprocess
from typing import Any, Dict, List, Tuple

from . import tlc
from .core import SPECS, Check, MachineryError, workdir

HARD = {"raised", "inject", "wellformed", "residue"}
SOFT = {"post", "phase", "visible", "selfref"}


def model_check(chk: Check, apalache: bool = True) -> None:
    """IndInv of ProvideRefs: reachable states (3 providers x 3 components), inductiveness from ALL IndInv
    states (2 x 2, TLC), vacuity guard (without the environment assumption TLC finds the KeyError), and
    symbolic inductiveness for 3 providers x 4 components with Apalache (with a negative control)."""
    r = tlc.require_ok(tlc.run("MC_ProvideRefs", "MC_ProvideRefs_reach.cfg", workers=4, coverage=True), "ProvideRefs reach")
    chk.add("states", r.distinct)
    chk.add("transitions", r.generated)
    chk.add("providerefs_reachable_states", r.distinct)
    r = tlc.require_ok(tlc.run("MC_ProvideRefs", "MC_ProvideRefs_ind.cfg", workers=4), "ProvideRefs inductive")
    m = re.search(r"Finished computing initial states: (\d+) distinct", r.out)
    if not m or int(m.group(1)) != r.distinct:
        raise MachineryError("ProvideRefs: the set of IndInv states is not closed under Next")
    chk.add("providerefs_indinv_states_closed_under_next", r.distinct)
    r = tlc.run("MC_ProvideRefs", "MC_ProvideRefs_noassume.cfg", workers=2)
    if "NoKeyError" not in r.violated:
        raise MachineryError("ProvideRefs without VisibleAlive should be refuted (vacuity guard)")
    chk.add("providerefs_noassume_counterexample_found", 1)
    tlaps_proof(chk)
    if apalache:
        finish_apalache(chk, start_apalache())


def tlaps_proof(chk: Check) -> None:
    """The TLAPS proof (ProvideRefs_proofs.tla): for ARBITRARY sets of providers and referrers IndInv is inductive
    (Spec => []IndInv) and implies NoKeyError / OpenAlive / InjectSound / Quiescent.  Every obligation must be proved."""
    if not shutil.which("tlapm"):
        chk.add("tlaps_unavailable", 1)
        return
    w = workdir("tlaps")
    p = subprocess.run(["tlapm", "--cleanfp", "--cache-dir", str(w / "cache"), "-I", "/opt/veriftools/tlapm/lib/tlaps",
                        "--threads", "4", str(SPECS / "ProvideRefs_proofs.tla")],
                       capture_output=True, text=True, timeout=1200, cwd=str(SPECS), env=dict(os.environ, TMPDIR=str(w)))
    out = p.stdout + p.stderr
    m = re.search(r"All (\d+) obligations? proved", out)
    if not m or p.returncode != 0:
        raise MachineryError("TLAPS proof of ProvideRefs failed:\n" + out[-2000:])
    chk.add("tlaps_obligations_proved", int(m.group(1)))


def start_apalache():
    """Starts the four Apalache runs in the background (they take 15-50 s); returns a handle for finish_apalache."""
    if not shutil.which("apalache-mc"):
        return None
    from concurrent.futures import ThreadPoolExecutor
    w = workdir("apa")

    def apa(args) -> str:
        init, inv, length = args
        d = w / f"{init}-{inv}-{length}"
        d.mkdir(exist_ok=True)
        p = subprocess.run(["apalache-mc", "check", f"--init={init}", f"--inv={inv}", f"--length={length}",
                            f"--out-dir={d}/out", f"--run-dir={d}/run", str(SPECS / "Apa_ProvideRefs.tla")],
                           capture_output=True, text=True, timeout=1200, cwd=str(d),
                           env=dict(os.environ, JVM_ARGS=f"-Xmx3g -Djava.io.tmpdir={d}", TMPDIR=str(d)))
        return p.stdout + p.stderr
    ex = ThreadPoolExecutor(4)
    jobs = [("Init", "IndInv", 0), ("IndInit", "IndInv", 1), ("IndInit", "Props", 0), ("WeakInit", "WeakInv", 1)]
    return ex, [(j, ex.submit(apa, j)) for j in jobs]


def finish_apalache(chk: Check, handle) -> None:
    if handle is None:
        chk.add("apalache_unavailable", 1)
        return
    ex, futs = handle
    for (init, inv, n), f in futs:
        out = f.result()
        if init == "WeakInit":          # negative control: IndInv without SetIsCached is not inductive
            if "The outcome is: Error" not in out:
                raise MachineryError("Apalache negative control (WeakInv) was not refuted: " + out[-800:])
            chk.add("apalache_negative_control_refuted", 1)
        else:
            if "The outcome is: NoError" not in out:
                raise MachineryError(f"Apalache {init} / {inv}: " + out[-1500:])
            chk.add("apalache_inductive_checks", 1)
    ex.shutdown()


def validate(chk: Check, traces: List[Tuple[Any, Dict[str, Any]]], label: str) -> Dict[str, int]:
    """`traces`: (case, projected trace from provtrace.project).  HARD clauses -> violations (case is the
    replayable program), SOFT clauses -> model_drift.  Returns counters."""
    st = {"validated": 0, "hard": 0, "drift": 0, "too_big": 0, "events": 0}
    rows, index = [], {}
    np_, nr_ = 1, 1
    for case, tr in traces:
        if tr is None:
            continue
        if tr.get("too_big"):
            st["too_big"] += 1
            continue
        tid = len(rows) + 1
        rows.append({"id": tid, "events": tr["events"]})
        index[tid] = case
        np_, nr_ = max(np_, tr["np"]), max(nr_, tr["nr"])
        st["events"] += len(tr["events"])
    if not rows:
        return st
    w = workdir("provtr")
    cfg = w / "Trace_ProvideRefs.cfg"
    cfg.write_text("SPECIFICATION TrSpec\nCONSTANTS\n  Pid = {%s}\n  Rid = {%s}\nCHECK_DEADLOCK FALSE\n" % (
        ", ".join(f'"p{i}"' for i in range(1, np_ + 1)), ", ".join(f'"r{i}"' for i in range(1, nr_ + 1))))
    for k in range(0, len(rows), 1500):
        part = rows[k:k + 1500]
        f = w / f"tr{k}.ndjson"
        tlc.write_ndjson(f, part)
        r = tlc.run("Trace_ProvideRefs", str(cfg), env={"IN": str(f)}, workers=1, heap="6g", timeout=1800)
        tlc.require_ok(r, "Trace_ProvideRefs")
        acc = {int(x) for x in re.findall(r'<<\s*"ACCEPT",\s*(\d+)\s*>>', r.out)}
        rej = {int(m.group(1)): (int(m.group(2)), m.group(3))
               for m in re.finditer(r'<<\s*"REJECT",\s*(\d+),\s*(\d+),\s*\{(.*?)\}\s*>>', r.out, re.S)}
        if len(acc) + len(rej) != len(part):
            raise MachineryError(f"Trace_ProvideRefs: {len(acc)}+{len(rej)} verdicts for {len(part)} traces\n" + r.out[-1500:])
        chk.add("states", r.distinct)
        st["validated"] += len(part)
        for t, (n, txt) in rej.items():
            clauses = set(re.findall(r'"([a-z]+)"', txt))
            pairs = re.findall(r'<<\s*(\d+),\s*"([a-z]+)"\s*>>', txt)
            hard = clauses & HARD
            if hard:
                st["hard"] += 1
                first = min((int(i) for i, c in pairs if c in HARD), default=0)
                ev = next(x for x in part if x["id"] == t)["events"]
                chk.violation(dict(index[t], label=label + "-provide-operation-trace"),
                              {"what": "provide-refcount-trace-rejected", "clauses": sorted(clauses), "pairs": pairs[:6],
                               "event": ev[first - 1] if 0 < first <= len(ev) else None,
                               "events_before": [[e["op"], e["id"], e["ps"]] for e in ev[max(0, first - 8):first]]})
            else:
                st["drift"] += 1
                chk.sample({"provide_trace_model_drift": sorted(clauses), "pairs": pairs[:4], "case": index[t].get("program")}, limit=8)
    chk.add("provide_op_traces_validated", st["validated"])
    chk.add("provide_op_events_validated", st["events"])
    chk.add("provide_op_trace_model_drift", st["drift"])
    chk.add("provide_op_traces_too_big", st["too_big"])
    return st
