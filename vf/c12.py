"""C12 - parsing any tag or template terminates with success or TemplateSyntaxError.

Level: **exploration**.  The TLA+ specification (specs/TagArgs.tla: TagAlphabet, TplAlphabet,
ParseOutcomes, Mutated, Text, Serial; bounded instances MC_C12 / MC_C12M; Trace_C12) defines the
*input space* and the admissible outcomes; termination and cost of the Python scanners are
*observed* on the real code, not modelled (a model of the scanner's index/stack variables could
only be bound by line-level tracing of locals and would prescribe an accept set C12 does not).

spec -> code
  (i)   TLC enumerates every string of <= N symbols over the 18-symbol tag alphabet (quotes,
        brackets, braces, colon, comma, pipe, equals, `...`, `*`, `_(`, `)`, backslash, blank,
        `%}`, a letter) by AppendSym actions (quick N=4: 111 151 strings, thorough N=5:
        2 000 719) and every string of <= N symbols over the 14-symbol template alphabet
        (all tag delimiters, django-components tag openers, quotes, backslash, newline);
        the harness reads them from TLC's state dump and runs parse_tag(text),
        Template("{% vfprobe <text> %}{% endvfprobe %}"), Template("{% component '..' <text> %}
        {% endcomponent %}") resp. Template(src).
  (ii)  TLC (MC_C12M) builds every one-symbol mutation (insert/delete/replace at every position)
        of valid tag texts - layouts Text(args, style) exported by MC_C02 - same three channels.
  Verdict: every outcome must be in ParseOutcomes = {ok, TemplateSyntaxError}; another exception
  class, exceeding the time bound (see below) or MemoryError under RLIMIT_AS (4 GB on top of what
  the forked worker starts with) is a violation.
  (iii) round trip: for every valid text of the MC_C02 export, the real
        " ".join(TagAttr.serialize()) is re-parsed: equal AST, and the probe tag fed with the
        serialisation receives the same values as with the original text.
  (iv)  growth: for every unit u of <= 2 symbols of both alphabets (from the TLC dump), u^n and
        a^n b^n at n, 2n, 4n: interpreter *line events* (sys.monitoring, deterministic, no
        wall clock) - fitted exponent log4(c(4n)/c(n)) > 2.5 is a violation.  (Time spent inside
        C code - the `re` engine - is invisible to this measure.)
  (v)   pumped inputs (specs/AdversarialInputs.tla, MC_C12P): TLC builds every (pre, u, suf)
        with Len(pre)+Len(u)+Len(suf) <= T over both alphabets and a repetition count k (quick
        T=3, k=48: 43 400 texts; thorough T=4, Len(u) <= 2, k=56: 591 240 texts); the text pre . u^k . suf - opened strings / brackets / translations /
        comments with a unit repeated far beyond the exhaustive bound, closed, left
        unterminated (suf empty) or failing at the very end - goes through the same channels.
  (vi)  library tags (MC_C12T): every tag the library registers (component, slot, fill, provide,
        html_attrs, component_css/js_dependencies, a @template_tag tag, a shorthand-formatter
        component) followed by every sequence of <= N words of LeadWords (quoted names,
        variables, keywords, `name=`, flags, spreads, literals, garbage: the required leading
        arguments present, missing or replaced), self-closing / block / left open, at top level
        and inside a component body (N=2: 43 902 sources); TLC exports the source, the harness
        calls Template(src).
  Configurations: every Template(..) compilation of every set (i, ii, iv, v, vi and the random
  driver) happens once per engine mode of EngineModes (AdversarialInputs.tla): plain and debug
  (engine.debug on: the engine annotates exceptions with template_debug on their way out of the
  compilation); channels `probe+debug`, `comp+debug`, `template+debug`.  Same outcome set.
  Trace_C12 rejects a record whose channels are not TagChannels / TplChannels.
  Time bound: every parser run of every set happens under a CPU-time budget of the worker
  process (ITIMER_PROF; wall time and machine load do not matter) of
  CpuBudgetMs(characters) = 1000 ms + n^2/1000 ms (AdversarialInputs.tla; the unchanged scanners
  need about 0.02 ms per character, the quadratic nested `_(`^m about 0.6 us * n^2: at most 1/8 of
  the bound on the longest generated input, see coverage.time_bound in the evidence).  A run
  that exceeds it is repeated with the budget doubled and reported as `hang` if it exceeds that
  too.  The workers are supervised: a parse that cannot be interrupted (C code that never
  checks signals) is killed by the parent on the CPU time in /proc/<pid>/stat and reported; after
  HANG_CAP hangs in one input set the rest of the set is skipped (the run must finish).
code -> spec: seeded random strings of 6..40 symbols over both alphabets, one-symbol mutations
  of random deep valid texts, random pumped inputs (pre, u, suf up to 4 symbols, k = 20..60),
  random substrings of random deep valid texts pumped in place (whole or cut off behind the
  pumped part), library tags with 3..5 leading words, the slowest inputs of every exhaustive
  set and the growth measurements are recorded with outcomes and CPU milliseconds and
  validated by TLC against Trace_C12 (input belongs to the modelled space / is
  Mutated(Text(args, style), m) / PumpText(..) / PumpSub(Text(args, style), ..) / LibSource(..);
  outcomes in ParseOutcomes; cpu <= CpuBudgetMs(Chars(syms)); c(4n) <= 32 c(n)); round-trip
  observations of random deep valid texts are validated against Trace_C02 (what the tag
  receives from the serialisation is Denote(args) whenever that holds for the original text).

Not demanded (unspecified): which strings are accepted; round trip of strings outside the
documented syntax that happen to parse; the exact text of the serialisation.
"""
from __future__ import annotations

import json
import math
import multiprocessing as mp
import multiprocessing.connection as mpc
import os
import random
import re
import resource
import signal
import sys
import time
from collections import deque
from pathlib import Path
from typing import Any, Callable, Dict, List, Optional, Tuple

from . import c02, tlc
from .core import SPECS, Check, MachineryError, workdir

PID = "C12"
COMP = "vf_probe_c12"
GROWTH_BUDGET_S = 60.0  # fixed CPU budget of a growth measurement (line callbacks slow the parse ~50x)
MEM_LIMIT = 4 << 30
HANG_CAP = 6            # hangs after which the rest of an input set is skipped

RULE = ("every state of TLC's BFS over AppendSym (all strings up to the length bound over the tag and the template "
        "alphabet), every MC_C12M mutant of sampled MC_C02 layouts, every pumped case of MC_C12P (pre . u^k . suf, all "
        "(pre, u, suf) up to the total bound, distinct texts) and every MC_C12T library-tag source (every tag x every word "
        "sequence up to the bound x form x wrap) is fed to parse_tag / Template (every compilation once per engine mode: plain, debug) under the CPU budget "
        "CpuBudgetMs; "
        "non-trivial = at least 2 symbols; distinct by construction (distinct TLC states / distinct texts); random longer "
        "strings, mutants and pumped substrings of deep texts, random pumped inputs, longer library tags, the slowest "
        "inputs of every set and growth measurements validated by Trace_C12, round trips by Trace_C02")
ASSUMPTIONS = [
    "termination, memory and growth are observed on the real code, not modelled (exploration)",
    "growth is measured in interpreter line events: work done inside C extensions (re) is not counted there; "
    "it is counted by the CPU-time bound CpuBudgetMs (process CPU time of the forked worker, not wall time)",
    "exceeding the CPU budget counts as a hang only if it reproduces with the budget doubled",
    "CpuBudgetMs is a generous quadratic (measured cost of the unchanged code <= 1/8 of it, see time_bound): it "
    "separates exponential from polynomial cost at 40..60 repetitions, it does not separate quadratic from cubic "
    "(the line-event growth does)",
]

_E: Dict[str, Any] = {}


def env() -> Dict[str, Any]:
    if _E:
        return _E
    e = c02.env()
    from django_components import Component, registry

    class VfProbeC12(Component):
        template = "[C]"

        def get_context_data(self, *args, **kwargs):
            return {}

    if COMP in registry.all():
        registry.unregister(COMP)
    registry.register(COMP, VfProbeC12)
    _E.update(e)
    _E.setdefault("budget", None)      # None: CpuBudgetMs of the specification; a number: fixed seconds
    _E.setdefault("scale", 1.0)
    _E["bound"] = spec_bound()
    return _E


def spec_bound() -> Tuple[int, int]:
    """(BudgetBaseMs, BudgetQuadDiv) of specs/AdversarialInputs.tla (TLC evaluates the same
    definitions when it validates the recorded times in Trace_C12)."""
    txt = (SPECS / "AdversarialInputs.tla").read_text()
    m1 = re.search(r"^BudgetBaseMs == (\d+)\s*$", txt, re.M)
    m2 = re.search(r"^BudgetQuadDiv == (\d+)\s*$", txt, re.M)
    m3 = re.search(r"^CpuBudgetMs\(nchars\) == BudgetBaseMs \+ \(nchars \* nchars\) \\div BudgetQuadDiv\s*$", txt, re.M)
    if not (m1 and m2 and m3):
        raise MachineryError("cannot read the time bound from specs/AdversarialInputs.tla")
    return int(m1.group(1)), int(m2.group(1))


def budget_ms(nchars: int) -> int:
    base, div = _E["bound"]
    return base + nchars * nchars // div


def budget_s(nchars: int) -> float:
    fixed = _E.get("budget")
    if fixed is not None:
        return fixed
    return budget_ms(nchars) / 1000.0 * _E.get("scale", 1.0)


# ------------------------------------------------------------------ outcomes
class _Timeout(BaseException):
    pass


def _alarm(signum, frame):
    raise _Timeout()


def timed(fn: Callable[[], Any], nchars: int = 0) -> Tuple[str, int]:
    """(outcome, CPU milliseconds) of fn() under the CPU budget of an input of nchars characters.
    The timer counts CPU time of this process (ITIMER_PROF), so load on the machine does not
    shorten the budget; the regex engine checks signals, so a runaway match is interrupted too.
    A run that does not fit the budget is repeated once with the timer at twice the budget:
    `hang` if that is exceeded too, `overtime` if it finishes above the budget again."""
    from django.template import TemplateSyntaxError
    budget = budget_s(nchars)
    out, cpu = "hang", 0.0
    for attempt in (1, 2):
        t0 = time.process_time()
        try:
            try:
                try:
                    signal.setitimer(signal.ITIMER_PROF, budget * attempt)
                    fn()
                    out = "ok"
                finally:
                    signal.setitimer(signal.ITIMER_PROF, 0)
            except TemplateSyntaxError:
                out = "tse"
            except _Timeout:
                out = "hang"
            except BaseException as ex:  # noqa: BLE001 - the class is the observation
                out = "exc:" + type(ex).__name__
            cpu = time.process_time() - t0
        except _Timeout:                 # the signal of a timer that expired just as fn() returned
            out = "hang"
        cpu = time.process_time() - t0
        if out != "hang" and cpu <= budget:
            break
        if attempt == 2 and out in ("ok", "tse"):
            out = "overtime"
    return out, int(cpu * 1000)


def outcome(fn: Callable[[], Any], nchars: int = 0) -> str:
    return timed(fn, nchars)[0]


ENGINE_MODES = ["plain", "debug"]      # EngineModes of AdversarialInputs.tla


def compile_in(mode: str, src: str) -> None:
    """Template(src) with the default engine in the given mode (debug: the engine annotates
    exceptions with template_debug on their way out of the compilation)."""
    from django.template import Template, engines
    eng = engines["django"].engine
    saved = eng.debug
    eng.debug = mode == "debug"
    try:
        Template(src)
    finally:
        eng.debug = saved


def channels(kind: str, text: str) -> List[Tuple[str, Callable[[], Any]]]:
    """TplChannels / TagChannels of the specification: every compilation once per engine mode."""
    from django_components.util.tag_parser import parse_tag

    def per_mode(name: str, src: str):
        return [(name if m == "plain" else name + "+" + m, lambda m=m: compile_in(m, src)) for m in ENGINE_MODES]
    if kind == "tpl":
        return per_mode("template", text)
    return ([("parse_tag", lambda: parse_tag(text, None))]
            + per_mode("probe", "{% " + c02.PROBE_TAG + " " + text + " %}{% end" + c02.PROBE_TAG + " %}")
            + per_mode("comp", "{% component '" + COMP + "' " + text + " %}{% endcomponent %}"))


def outcomes(kind: str, text: str) -> List[Tuple[str, str]]:
    return [(name, outcome(fn, len(text))) for name, fn in channels(kind, text)]


TRANS_WORD = re.compile(r"""(?:^|\s)_\(["']""")


def finding_key(kind: str, channel: str, text: str, out: str) -> Optional[str]:
    """Named deviation = shape of the input + the outcome the deviation predicts."""
    if out == "exc:StopIteration" and TRANS_WORD.search(text):
        if channel.split("+")[0] == "comp" or (kind == "tpl" and "{% component " in text):
            # Token.split_contents() of the component tag_fn: a word starting with _(" or _('
            # that does not end with ") / ')
            return "component-tag:unfinished-translation-word:StopIteration"
    return None


# ------------------------------------------------------------------ workers
def _init_worker(budget: Optional[float] = None, limit_memory: bool = True) -> None:
    env()
    _E["budget"] = budget
    signal.signal(signal.SIGPROF, _alarm)
    if limit_memory:        # only in forked workers: the main process still has to start JVMs
        import gc
        gc.freeze()         # the inherited input lists (10^5..10^6 objects) are not garbage: keep the collector
        #                     off them - every failed compilation leaves a reference cycle behind
        try:                # MEM_LIMIT on top of what the worker inherits from the parent (its input lists)
            with open("/proc/self/statm") as f:
                have = int(f.read().split()[0]) * os.sysconf("SC_PAGE_SIZE")
            resource.setrlimit(resource.RLIMIT_AS, (have + MEM_LIMIT, have + MEM_LIMIT))
        except (ValueError, OSError):
            pass
    sys.setrecursionlimit(3000)


_SUP: Dict[str, Any] = {}
_CLK = os.sysconf("SC_CLK_TCK")
SLOW_KEEP = 8           # slowest inputs of a set handed to Trace_C12


def _proc_cpu(pid: int) -> Optional[float]:
    """CPU seconds (user + system) a process has used, from /proc/<pid>/stat."""
    try:
        with open(f"/proc/{pid}/stat") as f:
            rest = f.read().rsplit(")", 1)[1].split()
        return (int(rest[11]) + int(rest[12])) / _CLK
    except (OSError, IndexError, ValueError):
        return None


def _run_range(a: int, b: int, wid: int, shared, hangs, cap: int, full: bool):
    """Feed items[a:b] to the parsers of their kind.  shared[4*wid..]: index of the item being
    parsed (-1: none), its budget in seconds, CPU and wall clock at its start - read by the
    parent's watchdog."""
    items = _SUP["items"]
    stats: Dict[str, int] = {}
    bad, slow, rows, skipped = [], [], [], 0
    worst = (0.0, 0, 0, 0, "")      # ratio, cpu ms, budget ms, item, channel
    for g in range(a, b):
        if hangs is not None and hangs.value >= cap:
            skipped += 1
            continue
        kind, syms = items[g]
        text = "".join(pump_text(syms) if isinstance(syms, dict) else syms)     # pumped cases are expanded here
        n = len(text)
        chans, outs, cpus = [], [], []
        for ch, fn in channels(kind, text):
            if shared is not None:
                shared[4 * wid + 1] = budget_s(n)
                shared[4 * wid + 2] = time.process_time()
                shared[4 * wid + 3] = time.monotonic()
                shared[4 * wid] = g
            out, ms = timed(fn, n)
            if shared is not None:
                shared[4 * wid] = -1
            chans.append(ch)
            outs.append(out)
            cpus.append(ms)
            k = ch + ":" + out
            stats[k] = stats.get(k, 0) + 1
            if out not in ("ok", "tse"):
                bad.append((g, ch, out, ms))
                if out == "hang" and hangs is not None:
                    with hangs.get_lock():
                        hangs.value += 1
            ratio = ms / budget_ms(n)
            if ratio > worst[0]:
                worst = (ratio, ms, budget_ms(n), g, ch)
        if full:
            rows.append((g, chans, outs, cpus))
        slow.append((max(cpus), g, chans, outs, cpus))
        if len(slow) > 4 * SLOW_KEEP:
            slow = sorted(slow, key=lambda r: (-r[0], r[1]))[:SLOW_KEEP]
    slow = sorted(slow, key=lambda r: (-r[0], r[1]))[:SLOW_KEEP]
    return {"a": a, "b": b, "stats": stats, "bad": bad, "slow": slow, "rows": rows, "skipped": skipped, "worst": worst}


def _sup_main(wid: int, conn_in, conn_out, shared, hangs, cap: int, full: bool) -> None:
    _init_worker(_E.get("budget"))
    while True:
        msg = conn_in.recv()
        if msg is None:
            return
        conn_out.send(_run_range(msg[0], msg[1], wid, shared, hangs, cap, full))


def supervised(items: List[Tuple[str, List[str]]], procs: int, label: str, full: bool = False,
               cap: int = HANG_CAP) -> Dict[str, Any]:
    """Run every (kind, symbols) item through its channels in forked, supervised workers.
    Returns the merged statistics; `killed`: items whose parse could not be interrupted in-process
    and whose worker the watchdog had to kill (or whose worker died)."""
    env()
    _SUP["items"] = items
    chunk = max(1, min(2000, len(items) // (procs * 8) + 1))
    ranges = deque((a, min(a + chunk, len(items))) for a in range(0, len(items), chunk))
    merged: Dict[str, Any] = {"stats": {}, "bad": [], "slow": [], "rows": [], "skipped": 0, "killed": [],
                              "worst": (0.0, 0, 0, 0, "")}

    def merge(res):
        for k, v in res["stats"].items():
            merged["stats"][k] = merged["stats"].get(k, 0) + v
        merged["bad"] += res["bad"]
        merged["slow"] += res["slow"]
        merged["rows"] += res["rows"]
        merged["skipped"] += res["skipped"]
        if res["worst"][0] > merged["worst"][0]:
            merged["worst"] = res["worst"]

    if procs <= 1:
        _init_worker(_E.get("budget"), limit_memory=False)
        for a, b in ranges:
            merge(_run_range(a, b, 0, None, None, cap, full))
    else:
        ctx = mp.get_context("fork")
        shared = ctx.RawArray("d", 4 * procs)
        hangs = ctx.Value("i", 0)
        workers: Dict[int, Dict[str, Any]] = {}

        def spawn(wid: int) -> None:
            shared[4 * wid] = -1
            in_r, in_w = ctx.Pipe(duplex=False)
            out_r, out_w = ctx.Pipe(duplex=False)
            proc = ctx.Process(target=_sup_main, args=(wid, in_r, out_w, shared, hangs, cap, full), daemon=True)
            proc.start()
            in_r.close()
            out_w.close()
            workers[wid] = {"proc": proc, "to": in_w, "frm": out_r, "busy": None}

        def lost(wid: int, how: str) -> None:
            """The worker was killed / died while parsing item g: report g, requeue the rest of its range."""
            w = workers[wid]
            g = int(shared[4 * wid])
            a, b = w["busy"]
            w["proc"].kill()
            w["proc"].join()
            w["to"].close()
            w["frm"].close()
            if not (a <= g < b):
                raise MachineryError(f"{label}: worker {how} outside a parse (range {a}..{b})")
            merged["killed"].append((g, how))
            with hangs.get_lock():
                hangs.value += 1
            for r in ((a, g), (g + 1, b)):
                if r[0] < r[1]:
                    ranges.append(r)
            spawn(wid)

        try:
            for wid in range(min(procs, len(ranges))):
                spawn(wid)
            t_start = time.monotonic()
            while ranges or any(w["busy"] for w in workers.values()):
                for w in workers.values():
                    if w["busy"] is None and ranges:
                        r = ranges.popleft()
                        w["to"].send(r)
                        w["busy"] = r
                conns = {w["frm"]: w for w in workers.values() if w["busy"]}
                for c in mpc.wait(list(conns), timeout=0.25):
                    try:
                        merge(c.recv())
                        conns[c]["busy"] = None
                    except EOFError:
                        pass                      # died: handled below
                for wid, w in list(workers.items()):
                    if not w["busy"]:
                        continue
                    if not w["proc"].is_alive():
                        lost(wid, "died")
                        continue
                    g = int(shared[4 * wid])
                    if g < 0:
                        continue
                    budget, cpu0, wall0 = shared[4 * wid + 1], shared[4 * wid + 2], shared[4 * wid + 3]
                    cpu = _proc_cpu(w["proc"].pid)
                    over = (cpu is not None and cpu - cpu0 > 4 * budget + 5) or time.monotonic() - wall0 > 60 * budget + 600
                    if over and int(shared[4 * wid]) == g:
                        lost(wid, "killed")
                if time.monotonic() - t_start > 7200:
                    raise MachineryError(f"{label}: worker pool did not finish within the hard limit")
        finally:
            for w in workers.values():
                try:
                    if w["proc"].is_alive() and not w["busy"]:
                        w["to"].send(None)
                except (OSError, ValueError):
                    pass
            for w in workers.values():
                w["proc"].join(timeout=0.5 if w["busy"] else 5)
                if w["proc"].is_alive():
                    w["proc"].kill()
                    w["proc"].join()
    merged["bad"].sort()
    merged["rows"].sort()
    merged["slow"] = sorted(merged["slow"], key=lambda r: (-r[0], r[1]))[:SLOW_KEEP]
    return merged


def run_inputs(chk: Check, kind: str, cases: List[Any], label: str, procs: int,
               stop_after: Optional[int] = None,
               trec: Optional[Callable[[int], Dict[str, Any]]] = None) -> List[Dict[str, Any]]:
    """Feed every input (list of symbols, or a pumped case [pre, u, suf, k]) to the parsers of its
    kind under the CPU budget; report inadmissible outcomes.  Returns trace records (for
    Trace_C12) of the slowest inputs."""
    if not cases:
        raise MachineryError(f"{label}: no inputs")

    class _Syms:          # symbols of input g (pumped cases are kept compact and expanded on demand)
        def __getitem__(self, g):
            return pump_text(cases[g]) if isinstance(cases[g], dict) else cases[g]

        def __len__(self):
            return len(cases)

        def __iter__(self):
            return (self[g] for g in range(len(cases)))
    items = _Syms()
    res = supervised([(kind, c) for c in cases], procs, label)
    nbad = 0
    reports = [(g, ch, out, f"cpu_ms={ms}") for g, ch, out, ms in res["bad"]]
    reports += [(g, "?", "hang", f"worker {how}: the parse could not be interrupted") for g, how in res["killed"]]
    for g, ch, out, note in sorted(reports):
        nbad += 1
        if stop_after is not None and nbad > stop_after:
            continue
        text = "".join(items[g])
        chk.violation({"kind": "input", "input_kind": kind, "set": label, "syms": items[g], "text": text, "channel": ch},
                      {"expected": "ok or TemplateSyntaxError within CpuBudgetMs(%d) = %d ms" % (len(text), budget_ms(len(text))),
                       "observed": out, "note": note},
                      key=finding_key(kind, ch, text, out))
    chk.cov.setdefault("outcomes", {})[label] = dict(sorted(res["stats"].items()))
    ratio, ms, bud, g, ch = res["worst"]
    chk.cov.setdefault("time_bound", {})[label] = {
        "max_cpu_over_budget": round(ratio, 4), "cpu_ms": ms, "budget_ms": bud, "channel": ch,
        "chars": len("".join(items[g])), "text": "".join(items[g])[:80]}
    if res["skipped"]:
        chk.cov.setdefault("skipped_after_hang_cap", {})[label] = res["skipped"]
    done = len(items) - res["skipped"]
    chk.add("inputs", done)
    chk.add("inputs_nontrivial", sum(1 for s in items if len(s) >= 2) if not res["skipped"] else done)
    chk.add("parser_runs", sum(res["stats"].values()))
    recs = []
    for _, g, chans, outs, cpus in res["slow"]:
        if any(o not in ("ok", "tse") for o in outs):
            continue                      # reported above
        r = trec(g) if trec else {"kind": "raw"}
        recs.append(dict(r, syms=items[g], chan=chans, out=outs, cpu=cpus))
    return recs


# ------------------------------------------------------------------ TLC dumps
_STR = re.compile(r'"((?:[^"\\]|\\.)*)"')
_UNESC = {"n": "\n", "t": "\t", "r": "\r", "f": "\f", '"': '"', "\\": "\\"}


def _unescape(s: str) -> str:
    return re.sub(r"\\(.)", lambda m: _UNESC.get(m.group(1), m.group(1)), s)


def read_dump(path: Path) -> List[Dict[str, Any]]:
    """States of a TLC -dump file -> [{variable: value}].  TLC prints one `name = value` line per
    variable (prefixed with /\\ when there are several) and a blank line between states; values
    used here: tuples of strings, ints, flat records."""
    out: List[Dict[str, Any]] = []
    cur: Dict[str, str] = {}
    last = None
    line_re = re.compile(r"^(?:/\\ )?(\w+) = (.*)$")

    def flush():
        if cur:
            out.append({k: _parse_value(v) for k, v in cur.items()})

    with open(path, encoding="utf-8") as f:
        for line in f:
            line = line.rstrip("\n")
            if line.startswith("State ") and line.endswith(":"):
                flush()
                cur, last = {}, None
                continue
            if not line.strip():
                continue
            m = line_re.match(line)
            if m:
                last = m.group(1)
                cur[last] = m.group(2)
            elif last is not None and line[0] == " ":      # wrapped value: continuation lines are indented
                cur[last] += " " + line.strip()
            else:
                raise MachineryError(f"cannot parse dump line {line[:120]!r} in {path}")
    flush()
    return out


def _parse_value(v: str) -> Any:
    v = v.strip()
    if v.startswith("<<"):
        return [_unescape(m.group(1)) for m in _STR.finditer(v)]
    if v.startswith("["):     # record of MC_C12M: [kind |-> "ins", p |-> 3, c |-> "x"]
        d: Dict[str, Any] = {}
        for m in re.finditer(r'(\w+) \|-> (?:"((?:[^"\\]|\\.)*)"|(-?\d+))', v):
            d[m.group(1)] = _unescape(m.group(2)) if m.group(2) is not None else int(m.group(3))
        return d
    if re.fullmatch(r"-?\d+", v):
        return int(v)
    if len(v) >= 2 and v[0] == '"' and v[-1] == '"':
        return _unescape(v[1:-1])
    return v


def enumerate_strings(which: str, maxlen: int, w: Path, workers: int) -> Tuple[List[List[str]], Any]:
    cfg = w / f"mc12_{which}.cfg"
    cfg.write_text(f'SPECIFICATION Spec\nCONSTANTS\n  MaxLen = {maxlen}\n  Which = "{which}"\nINVARIANT TypeOK\n')
    dump = w / f"strings_{which}"
    r = tlc.require_ok(tlc.run("MC_C12", str(cfg), workers=workers, extra=["-dump", str(dump)], timeout=3000),
                       f"MC_C12 {which}")
    states = read_dump(Path(str(dump) + ".dump"))
    if len(states) != r.distinct:
        raise MachineryError(f"MC_C12 {which}: dump has {len(states)} states, TLC reports {r.distinct}")
    return [s["s"] for s in states], r


def enumerate_mutants(bases: List[List[str]], w: Path, workers: int):
    f = w / "bases.ndjson"
    tlc.write_ndjson(f, [{"text": b} for b in bases])
    cfg = w / "mc12m.cfg"
    cfg.write_text("SPECIFICATION Spec\nINVARIANT OneSymbol\n")
    dump = w / "mutants"
    r = tlc.require_ok(tlc.run("MC_C12M", str(cfg), env={"IN": str(f)}, workers=workers,
                               extra=["-dump", str(dump)], timeout=3000), "MC_C12M")
    states = read_dump(Path(str(dump) + ".dump"))
    if len(states) != r.distinct:
        raise MachineryError(f"MC_C12M: dump has {len(states)} states, TLC reports {r.distinct}")
    seen, out = set(), []
    for st in states:
        if st["mut"]["kind"] == "none":
            continue
        k = tuple(st["txt"])
        if k not in seen:          # different mutations can give the same text
            seen.add(k)
            out.append(st["txt"])
    return out, r


def _set_literal(xs) -> str:
    return "{" + ", ".join(str(x) for x in xs) + "}"


def enumerate_pumped(which: str, total: int, unit: int, suf: int, ks: List[int], w: Path, workers: int):
    """Pumped cases [pre, u, suf, k] of MC_C12P (the states with k > 0)."""
    cfg = w / f"mc12p_{which}.cfg"
    cfg.write_text(f'SPECIFICATION Spec\nCONSTANTS\n  MaxTotal = {total}\n  MaxUnit = {unit}\n  MaxSuf = {suf}\n'
                   f'  Ks = {_set_literal(ks)}\n  Which = "{which}"\nINVARIANT Shape\n')
    dump = w / f"pumped_{which}"
    r = tlc.require_ok(tlc.run("MC_C12P", str(cfg), workers=workers, extra=["-dump", str(dump)], timeout=3000),
                       f"MC_C12P {which}")
    states = read_dump(Path(str(dump) + ".dump"))
    if len(states) != r.distinct:
        raise MachineryError(f"MC_C12P {which}: dump has {len(states)} states, TLC reports {r.distinct}")
    cases = [{"alpha": which, "pre": st["pre"], "u": st["u"], "suf": st["suf"], "k": st["k"]} for st in states if st["k"] > 0]
    cases.sort(key=lambda c: (c["k"], len(c["pre"]) + len(c["u"]) + len(c["suf"]), c["pre"], c["u"], c["suf"]))
    return cases, r


def pump_text(c: Dict[str, Any]) -> List[str]:
    """The driver's own pre . u^k . suf (TLC checks it against PumpText on the recorded traces)."""
    return list(c["pre"]) + list(c["u"]) * c["k"] + list(c["suf"])


def enumerate_libtags(maxwords: int, w: Path, workers: int):
    """Library-tag cases of MC_C12T (the states with form # "none"); `src` comes from TLC."""
    cfg = w / "mc12t.cfg"
    cfg.write_text(f"SPECIFICATION Spec\nCONSTANTS\n  MaxWords = {maxwords}\nINVARIANT Shape\n")
    dump = w / "libtags"
    r = tlc.require_ok(tlc.run("MC_C12T", str(cfg), workers=workers, extra=["-dump", str(dump)], timeout=3000), "MC_C12T")
    states = read_dump(Path(str(dump) + ".dump"))
    if len(states) != r.distinct:
        raise MachineryError(f"MC_C12T: dump has {len(states)} states, TLC reports {r.distinct}")
    cases = [{"tag": st["tag"], "words": st["words"], "form": st["form"], "wrap": st["wrap"], "src": st["src"]}
             for st in states if st["form"] != "none"]
    cases.sort(key=lambda c: (c["tag"], len(c["words"]), c["words"], c["form"], c["wrap"]))
    return cases, r


# ------------------------------------------------------------------ valid texts (MC_C02 export)
def valid_cases(tier: str, w: Path, seed: int):
    """Valid argument lists with their layouts, from the MC_C02 export (configurations V, A, R)."""
    cfgs = {k: v for k, v in c02.CONFIGS[tier].items() if k != "I"}
    from concurrent.futures import ThreadPoolExecutor
    with ThreadPoolExecutor(max_workers=4) as ex:
        futs = [ex.submit(c02._tlc_export, (n, c, str(w), None, None, None)) for n, c in cfgs.items()]
        res = [f.result() for f in futs]
    header, cases = None, []
    states = 0
    for name, r, out in res:
        tlc.require_ok(r, f"MC_C02 export {name}")
        states += r.distinct
        h, cs = c02.read_cases(out)
        header = h
        cases += [c for c in cs if not c["invalid"]]
    return header, cases, states


# ------------------------------------------------------------------ round trip
def ast(attrs) -> Any:
    """TagAttr list -> comparable structure (start_index, parser and compile state left out)."""
    from django_components.util.tag_parser import TagValue, TagValueStruct

    def val(v):
        if isinstance(v, TagValueStruct):
            return ("struct", v.type, v.spread, tuple(val(e) for e in v.entries))
        if isinstance(v, TagValue):
            return ("value", tuple((p.value, p.quoted, p.spread, p.translation, p.filter) for p in v.parts))
        return ("?", repr(v))
    return tuple((a.key, val(a.value)) for a in attrs)


def roundtrip(text: str, slash: bool) -> Optional[Dict[str, Any]]:
    """None if the real serialisation of `text` re-parses to the same arguments."""
    from django_components.util.tag_parser import parse_tag
    try:
        _, a1 = parse_tag(text, None)
    except Exception as ex:  # noqa: BLE001 - a valid text that does not parse is C02's business
        return {"skip": "original does not parse: " + type(ex).__name__}
    try:
        ser = " ".join(a.serialize() for a in a1)
    except Exception as ex:  # noqa: BLE001
        return {"stage": "serialize", "exception": type(ex).__name__ + ": " + str(ex)[:200]}
    try:
        _, a2 = parse_tag(ser, None)
    except Exception as ex:  # noqa: BLE001
        return {"stage": "re-parse", "serialised": ser, "exception": type(ex).__name__ + ": " + str(ex)[:200]}
    if ast(a1) != ast(a2):
        return {"stage": "ast", "serialised": ser, "first": repr(ast(a1))[:600], "second": repr(ast(a2))[:600]}
    try:
        ser2 = " ".join(a.serialize() for a in a2)
    except Exception as ex:  # noqa: BLE001
        return {"stage": "serialize-again", "exception": type(ex).__name__}
    if ser2 != ser:
        return {"stage": "not-a-fixpoint", "serialised": ser, "again": ser2}
    o1 = c02.observe("probe", text, slash)
    o2 = c02.observe("probe", ser, slash)
    if o1["o"] != o2["o"] or (o1["o"] == "values" and not (
            c02.same(o1["args"], o2["args"]) and c02.same(o1["kwargs"], o2["kwargs"]) and o1["flags"] == o2["flags"])):
        return {"stage": "received-values", "serialised": ser, "original": c02.show(o1), "reparsed": c02.show(o2)}
    return None


_RT: Dict[str, Any] = {}


def _rt_init(header, k):
    env()
    c02.set_ctx(header["ctx"])
    _RT.update(header=header, k=k)


def _rt_work(chunk):
    out = []
    h = _RT["header"]
    for idx, case in chunk:
        for j in c02.picks(idx, len(case["texts"]), _RT["k"]):
            st = h["styles"][h["from"] - 1 + j]
            text = "".join(case["texts"][j])
            bad = roundtrip(text, st["slash"])
            if bad:
                out.append((idx, j, text, bad))
    return out


def roundtrip_all(chk: Check, header, cases, procs: int, k: int) -> None:
    idx = list(enumerate(cases))
    n = max(1, len(idx) // (procs * 4) + 1)
    chunks = [idx[i:i + n] for i in range(0, len(idx), n)]
    if procs <= 1:
        _rt_init(header, k)
        results = [_rt_work(c) for c in chunks]
    else:
        with mp.get_context("fork").Pool(procs, initializer=_rt_init, initargs=(header, k)) as pool:
            results = pool.map(_rt_work, chunks, chunksize=1)
    done = sum(len(c02.picks(i, len(c["texts"]), k)) for i, c in idx)
    for res in results:
        for i, j, text, bad in res:
            if "skip" in bad:
                chk.add("roundtrip_skipped_original_rejected")
                continue
            chk.violation({"kind": "roundtrip", "args": cases[i]["args"], "style": header["from"] + j, "text": text,
                           "ctx": header["ctx"]}, bad)
    chk.add("roundtrips", done)


# ------------------------------------------------------------------ growth
TOOL_ID = 4


def count_lines(fn: Callable[[], Any]) -> Tuple[int, str]:
    """(number of interpreter line events while fn runs, its outcome)."""
    mon = sys.monitoring
    cnt = [0]

    def cb(code, line):
        cnt[0] += 1

    mon.use_tool_id(TOOL_ID, "vf_c12")
    try:
        mon.register_callback(TOOL_ID, mon.events.LINE, cb)
        mon.set_events(TOOL_ID, mon.events.LINE)
        try:
            out = outcome(fn)
        finally:
            mon.set_events(TOOL_ID, 0)
            mon.register_callback(TOOL_ID, mon.events.LINE, None)
    finally:
        mon.free_tool_id(TOOL_ID)
    return cnt[0], out


def grow_text(unit: Dict[str, Any], n: int) -> str:
    if unit["shape"] == "rep":
        return "".join(unit["u"]) * n
    return unit["u"][0] * n + unit["u"][1] * n


def _grow_work(job):
    kind, units, n = job
    out = []
    for unit in units:
        for ch_i in range(len(channels(kind, ""))):
            cs = []
            for m in (n, 2 * n, 4 * n):
                name, fn = channels(kind, grow_text(unit, m))[ch_i]
                if m == n:
                    try:
                        fn()          # warm caches (regex compilation, lazy imports)
                    except BaseException:  # noqa: BLE001
                        pass
                    name, fn = channels(kind, grow_text(unit, m))[ch_i]
                cs.append(count_lines(fn))
            out.append({"kind": "grow", "input_kind": kind, "shape": unit["shape"], "u": unit["u"], "channel": name,
                        "n": n, "c1": cs[0][0], "c2": cs[1][0], "c4": cs[2][0], "out": [c[1] for c in cs]})
    return out


def exponent(c1: int, c4: int) -> float:
    return math.log(max(c4, 1) / max(c1, 1)) / math.log(4)


def growth(chk: Check, kind: str, units: List[Dict[str, Any]], n: int, procs: int) -> List[Dict[str, Any]]:
    sz = max(1, len(units) // (procs * 4) + 1)
    jobs = [(kind, units[i:i + sz], n) for i in range(0, len(units), sz)]
    if procs <= 1:
        _init_worker(GROWTH_BUDGET_S, limit_memory=False)
        try:
            results = [_grow_work(j) for j in jobs]
        finally:
            _E["budget"] = None
    else:
        with mp.get_context("fork").Pool(procs, initializer=_init_worker, initargs=(GROWTH_BUDGET_S,)) as pool:
            results = pool.map(_grow_work, jobs, chunksize=1)
    recs = [r for res in results for r in res]
    worst = chk.cov.setdefault("growth_worst", {})
    for r in recs:
        e = exponent(r["c1"], r["c4"])
        key = kind + ":" + r["channel"]
        if key not in worst or e > worst[key]["exponent"]:
            worst[key] = {"exponent": round(e, 3), "unit": r["u"], "shape": r["shape"], "n": n,
                          "counts": [r["c1"], r["c2"], r["c4"]]}
        for m, o in zip((n, 2 * n, 4 * n), r["out"]):
            if o not in ("ok", "tse"):
                text = grow_text({"shape": r["shape"], "u": r["u"]}, m)
                chk.violation({"kind": "input", "input_kind": kind, "set": "growth", "syms": None, "text": text,
                               "channel": r["channel"]}, {"expected": "ok or TemplateSyntaxError", "observed": o},
                              key=finding_key(kind, r["channel"], text, o))
        if r["c4"] > 32 * r["c1"]:
            chk.violation({"kind": "growth", "input_kind": kind, "unit": r["u"], "shape": r["shape"], "n": n,
                           "channel": r["channel"]},
                          {"line_events": [r["c1"], r["c2"], r["c4"]], "exponent": round(e, 3), "bound": 2.5})
    chk.add("growth_measurements", len(recs))
    return recs


def units_from(strings: List[List[str]]) -> List[Dict[str, Any]]:
    us = [{"shape": "rep", "u": s} for s in strings if 1 <= len(s) <= 2]
    us += [{"shape": "nest", "u": s} for s in strings if len(s) == 2]
    return us


# ------------------------------------------------------------------ code -> spec
def trace_validate(chk: Check, recs: List[Dict[str, Any]], what: str, w: Path) -> None:
    """Batch validation of recorded observations against Trace_C12."""
    if not recs:
        return
    for i, r in enumerate(recs):
        r["id"] = i + 1
    cfg = w / f"trace12_{what}.cfg"
    cfg.write_text("SPECIFICATION TrSpec\n")
    f = w / f"traces12_{what}.ndjson"
    tlc.write_ndjson(f, recs)
    r = tlc.require_ok(tlc.run("Trace_C12", str(cfg), env={"IN": str(f)}, workers=1, timeout=3000), f"Trace_C12 {what}")
    verdicts: Dict[int, Optional[str]] = {}
    for line in r.out.splitlines():
        m = re.match(r'"ACCEPT (\d+)"$', line)
        if m:
            verdicts[int(m.group(1))] = None
        m = re.match(r'"REJECT (\d+) (\S+)"$', line)
        if m:
            verdicts[int(m.group(1))] = m.group(2)
    if len(verdicts) != len(recs):
        raise MachineryError(f"Trace_C12 {what}: {len(verdicts)} verdicts for {len(recs)} records\n"
                             + "\n".join(r.out.splitlines()[-30:]))
    for tid, why in verdicts.items():
        if why is None:
            continue
        rec = recs[tid - 1]
        if why == "bad:input_space":
            raise MachineryError(f"driver produced an input outside the modelled space: {rec}")
        if why == "bad:channels":
            raise MachineryError(f"harness did not observe the channels / engine modes the specification names: {rec}")
        if rec["kind"] == "grow":
            continue                      # already reported by growth() from the same numbers
        text = "".join(rec["syms"])
        chs = rec["chan"]
        ik = "tpl" if chs[0] == "template" else "tag"
        reported = False
        for ch, out, ms in zip(chs, rec["out"], rec.get("cpu") or [0] * len(chs)):
            if out not in ("ok", "tse") or (why == "bad:time" and ms > budget_ms(len(text))):
                reported = True
                chk.violation({"kind": "trace", "input_kind": ik, "trace_kind": rec["kind"], "syms": rec["syms"],
                               "text": text, "channel": ch},
                              {"verdict": why, "observed": out, "cpu_ms": ms, "budget_ms": budget_ms(len(text))},
                              key=finding_key(ik, ch, text, out))
        if not reported:
            raise MachineryError(f"Trace_C12 rejects record {tid} ({why}) but no channel explains it: {rec}")
    chk.add("traces_validated_against_impl", len(recs))


TAG_SYMS = ["'", '"', "[", "]", "{", "}", ":", ",", "|", "=", "...", "*", "_(", ")", "\\", " ", "%}", "a"]
TPL_SYMS = ["{% vfprobe ", "{% endvfprobe %}", "{% component 'vf_probe_c12' ", "%}", "{{", "}}", "{#", "#}",
            '"', "'", "\\", "\n", "%", "a "]


LIB_TAGS = ["component", "slot", "fill", "provide", "html_attrs", "component_css_dependencies",
            "component_js_dependencies", "vfprobe", "vf_short_c02"]
LEAD_WORDS = ["'vf_probe_c12'", '"n"', '""', '"a=b"', "a", "1", "a|upper", '_("x")',
              'k="v"', "name='vf_probe_c12'", "name=a", "name=", "data='x'", "attrs:class=cls", "k=...d",
              "only", "default", "required", "...d", "**d", '...{"a": 1}', "[1]", "{}", "=", "=v", "k=", ":", "/"]
FORMS = ["inline", "block", "open"]
WRAPS = ["bare", "comp"]


def lib_source(tag: str, words: List[str], form: str, wrap: str) -> List[str]:
    """The driver's own rendering of a library-tag case; TLC checks it against LibSource."""
    src = ["{% ", tag]
    for wd in words:
        src += [" ", wd]
    src += ([" /"] if form == "inline" else []) + [" %}"]
    if form == "block":
        src += ["x", "{% ", "end" + tag, " %}"]
    return ["{% component 'vf_probe_c12' %}"] + src + ["{% endcomponent %}"] if wrap == "comp" else src


def gen_random(header, seed: int, n_tag: int, n_tpl: int, n_mut: int, n_pump: int, n_lib: int) -> List[Dict[str, Any]]:
    """Inputs of the seeded random driver (no outcomes yet); `ik` = channel family of the input."""
    env()
    c02.set_ctx(header["ctx"])
    rnd = random.Random(seed)
    recs: List[Dict[str, Any]] = []
    for _ in range(n_tag):
        # biased towards balanced-looking inputs: plain random strings die in the first symbols
        syms = [rnd.choice(TAG_SYMS) for _ in range(rnd.randint(6, 40))]
        if rnd.random() < 0.5:
            syms = [s for s in syms if s != "%}"]
        recs.append({"kind": "tag", "ik": "tag", "syms": syms})
    for _ in range(n_tpl):
        syms = [rnd.choice(TPL_SYMS) for _ in range(rnd.randint(4, 24))]
        recs.append({"kind": "tpl", "ik": "tpl", "syms": syms})
    g = c02.Gen(rnd, header)
    for _ in range(n_mut):
        args = g.args(header["strtab"], rnd.randint(1, 3))
        st = g.style()
        base = c02.text_of(args, st, header["strtab"], header["tpltab"])
        kind = rnd.choice(["ins", "del", "rep"])
        if kind == "ins":
            m = {"kind": "ins", "p": rnd.randint(1, len(base) + 1), "c": rnd.choice(TAG_SYMS)}
            syms = base[:m["p"] - 1] + [m["c"]] + base[m["p"] - 1:]
        elif kind == "del":
            m = {"kind": "del", "p": rnd.randint(1, len(base)), "c": ""}
            syms = base[:m["p"] - 1] + base[m["p"]:]
        else:
            m = {"kind": "rep", "p": rnd.randint(1, len(base)), "c": rnd.choice(TAG_SYMS)}
            syms = base[:m["p"] - 1] + [m["c"]] + base[m["p"]:]
        recs.append({"kind": "mut", "ik": "tag", "args": args, "style": st, "m": m, "syms": syms})
    rnd = random.Random(seed + 1)       # the new kinds draw from their own stream: the ones above stay as they were
    g = c02.Gen(rnd, header)
    for i in range(n_pump):
        if i % 3 == 2:                  # a substring of a deep valid text pumped in place, whole or cut off behind it
            args = g.args(header["strtab"], rnd.randint(1, 3))
            st = g.style()
            base = c02.text_of(args, st, header["strtab"], header["tpltab"])
            lo = rnd.randint(1, len(base))
            hi = min(len(base), lo + rnd.randint(0, 3))
            k, cut = rnd.randint(20, 60), rnd.random() < 0.5
            syms = base[:lo - 1] + base[lo - 1:hi] * k + ([] if cut else base[hi:])
            recs.append({"kind": "pmut", "ik": "tag", "args": args, "style": st, "i": lo, "j": hi, "k": k, "cut": cut,
                         "syms": syms})
            continue
        alpha = "tag" if i % 3 == 0 else "tpl"
        A, lp, lu, ls, kmax = (TAG_SYMS, 4, 4, 3, 60) if alpha == "tag" else (TPL_SYMS, 3, 2, 2, 48)
        c = {"alpha": alpha, "pre": [rnd.choice(A) for _ in range(rnd.randint(0, lp))],
             "u": [rnd.choice(A) for _ in range(rnd.randint(1, lu))],
             "suf": [rnd.choice(A) for _ in range(rnd.randint(0, ls))], "k": rnd.randint(20, kmax)}
        recs.append(dict(c, kind="pump", ik=alpha, syms=pump_text(c)))
    for _ in range(n_lib):
        c = {"tag": rnd.choice(LIB_TAGS), "words": [rnd.choice(LEAD_WORDS) for _ in range(rnd.randint(3, 5))],
             "form": rnd.choice(FORMS), "wrap": rnd.choice(WRAPS)}
        recs.append(dict(c, kind="lib", ik="tpl", syms=lib_source(**c)))
    return recs


def record_random(chk: Check, recs: List[Dict[str, Any]], procs: int) -> List[Dict[str, Any]]:
    """Run the driver's inputs on the real parsers (supervised workers) and attach what happened:
    channels, outcomes, CPU milliseconds.  Inputs skipped after the hang cap are dropped."""
    res = supervised([(r["ik"], r["syms"]) for r in recs], procs, "random", full=True)
    out = []
    for g, chans, outs, cpus in res["rows"]:
        r = {k: v for k, v in recs[g].items() if k != "ik"}
        out.append(dict(r, chan=chans, out=outs, cpu=cpus))
    for g, how in res["killed"]:
        r = recs[g]
        text = "".join(r["syms"])
        chk.violation({"kind": "trace", "input_kind": r["ik"], "syms": r["syms"], "text": text, "channel": "?"},
                      {"observed": "hang", "note": f"worker {how}: the parse could not be interrupted"})
    if res["skipped"]:
        chk.cov.setdefault("skipped_after_hang_cap", {})["random"] = res["skipped"]
    ratio, ms, bud, g, ch = res["worst"]
    chk.cov.setdefault("time_bound", {})["random"] = {
        "max_cpu_over_budget": round(ratio, 4), "cpu_ms": ms, "budget_ms": bud, "channel": ch,
        "chars": len("".join(recs[g]["syms"])), "text": "".join(recs[g]["syms"])[:80]}
    return out


def roundtrip_traces(chk: Check, header, seed: int, n: int, w: Path) -> None:
    """Round trips of random deep valid texts, validated by TLC against Trace_C02: what the probe /
    component receives from the real serialisation must be explained by the specification exactly
    as what it receives from the original text."""
    c02.set_ctx(header["ctx"])
    from django_components.util.tag_parser import parse_tag
    orig = [t for t in c02.record_traces(header, seed, n, 3)]
    pairs = []
    for t in orig:
        text = "".join(t["text"])
        try:
            _, attrs = parse_tag(text, None)
            ser = " ".join(a.serialize() for a in attrs)
        except Exception:  # noqa: BLE001 - rejected original: nothing to round-trip
            continue
        t2 = dict(t)
        for pth in c02.PATHS:
            if t[pth]["o"] != "n/a":
                t2[pth] = c02.obs_record(c02.observe(pth, ser, t["style"]["slash"]))
        pairs.append((t, t2, ser))
    recs = []
    for i, (t, t2, _) in enumerate(pairs):
        a, b = dict(t), dict(t2)
        a["id"], b["id"] = 2 * i + 1, 2 * i + 2
        recs += [a, b]
    if not recs:
        raise MachineryError("no round-trip traces recorded")
    cfg = w / "trace02.cfg"
    cfg.write_text("SPECIFICATION TrSpec\n")
    f = w / "traces_rt.ndjson"
    tlc.write_ndjson(f, recs)
    r = tlc.require_ok(tlc.run("Trace_C02", str(cfg), env={"IN": str(f)}, workers=1, timeout=3000), "Trace_C02 (round trip)")
    v = c02._verdicts(r, len(recs))
    for i, (t, t2, ser) in enumerate(pairs):
        va, vb = v[2 * i + 1] or ["ok"] * 5, v[2 * i + 2] or ["ok"] * 5
        # statuses "dev:<name>" are C02's named deviations (reported there); the round trip fails
        # when the serialisation is NOT explained by the specification although the original is
        if any(b.startswith("bad:") and a != b for a, b in zip(va[1:], vb[1:])):
            chk.violation({"kind": "roundtrip-trace", "args": t["args"], "style": t["style"], "text": "".join(t["text"]),
                           "serialised": ser, "ctx": header["ctx"]},
                          {"original": va, "reparsed": vb, "received_original": t["probe"], "received_reparsed": t2["probe"]})
    chk.add("traces_validated_against_impl", len(pairs))
    chk.add("roundtrip_traces", len(pairs))


# ------------------------------------------------------------------ the check
def _phase(chk: Check, name: str, t0: float) -> float:
    now = time.time()
    chk.cov.setdefault("phase_wall_s", {})[name] = round(now - t0, 1)
    return now


def core(chk: Check, tier: str, procs: int, maxlen: int, n_bases: int, grow_n: int, n_rand: Tuple[int, ...],
         c02_tier: str, rt_k: int, pump: Tuple[int, int, int, List[int]], lib_words: int,
         stop_after: Optional[int] = None, cache: Optional[Dict[str, Any]] = None) -> None:
    env()
    cache = cache if cache is not None else {}
    w = workdir("c12")
    t0 = time.time()
    if "tag" not in cache:
        from concurrent.futures import ThreadPoolExecutor
        with ThreadPoolExecutor(max_workers=7) as ex:
            f_val = ex.submit(valid_cases, c02_tier, w, chk.seed)
            f_tag = ex.submit(enumerate_strings, "tag", maxlen, w, 4)
            f_tpl = ex.submit(enumerate_strings, "tpl", maxlen, w, 2)
            f_ptag = ex.submit(enumerate_pumped, "tag", *pump, w, 2)
            f_ptpl = ex.submit(enumerate_pumped, "tpl", *pump, w, 2)
            f_lib = ex.submit(enumerate_libtags, lib_words, w, 2)
            cache["valid"] = f_val.result()
            header, cases, _ = cache["valid"]
            rnd = random.Random(chk.seed * 4409 + 12)
            picks = rnd.sample(range(len(cases)), min(n_bases, len(cases)))
            bases = [cases[i]["texts"][rnd.randrange(len(cases[i]["texts"]))] for i in sorted(picks)]
            f_mut = ex.submit(enumerate_mutants, bases, w, 4)      # needs the valid texts only
            cache["tag"], cache["tpl"], cache["mut"] = f_tag.result(), f_tpl.result(), f_mut.result()
            cache["ptag"], cache["ptpl"], cache["lib"] = f_ptag.result(), f_ptpl.result(), f_lib.result()
        cache["nbases"] = len(bases)
    t0 = _phase(chk, "tlc_enumeration", t0)
    tag_strings, r_tag = cache["tag"]
    tpl_strings, r_tpl = cache["tpl"]
    header, cases, st02 = cache["valid"]
    mutants, r_mut = cache["mut"]
    (ptag, r_ptag), (ptpl, r_ptpl), (lib, r_lib) = cache["ptag"], cache["ptpl"], cache["lib"]
    rs = [r_tag, r_tpl, r_mut, r_ptag, r_ptpl, r_lib]
    chk.add("states", sum(r.distinct for r in rs) + st02)
    chk.add("transitions", sum(r.generated for r in rs) + st02)

    def distinct_texts(cs: List[Dict[str, Any]]) -> List[Dict[str, Any]]:
        import hashlib
        seen, keep = set(), []                 # different (pre, u, suf) can spell the same text
        for c in cs:
            key = hashlib.blake2b("".join(pump_text(c)).encode(), digest_size=12).digest()
            if key not in seen:
                seen.add(key)
                keep.append(c)
        return keep

    ptag_c, ptpl_c = distinct_texts(ptag), distinct_texts(ptpl)
    chk.cov["input_sets"] = {"tag_strings": len(tag_strings), "tpl_strings": len(tpl_strings),
                             "mutation_bases": cache["nbases"], "mutants": len(mutants), "valid_texts_cases": len(cases),
                             "pumped_tag_cases": len(ptag), "pumped_tag_texts": len(ptag_c),
                             "pumped_tpl_cases": len(ptpl), "pumped_tpl_texts": len(ptpl_c),
                             "pump": {"max_total": pump[0], "max_unit": pump[1], "max_suf": pump[2], "k": pump[3]},
                             "library_tag_sources": len(lib), "library_tag_max_words": lib_words}
    slow = run_inputs(chk, "tag", tag_strings, f"tag<= {maxlen}", procs, stop_after, lambda g: {"kind": "tag"})
    slow += run_inputs(chk, "tpl", tpl_strings, f"tpl<= {maxlen}", procs, stop_after, lambda g: {"kind": "tpl"})
    slow += run_inputs(chk, "tag", mutants, "mutants", procs, stop_after)
    chk.sample({"tag_string": "".join(tag_strings[len(tag_strings) // 2]), "tpl_string": "".join(tpl_strings[len(tpl_strings) // 3]),
                "mutant": "".join(mutants[len(mutants) // 2])})
    t0 = _phase(chk, "inputs", t0)
    slow += run_inputs(chk, "tag", ptag_c, "pumped-tag", procs, stop_after, lambda g: dict(ptag_c[g], kind="pump"))
    slow += run_inputs(chk, "tpl", ptpl_c, "pumped-tpl", procs, stop_after, lambda g: dict(ptpl_c[g], kind="pump"))
    t0 = _phase(chk, "pumped", t0)
    slow += run_inputs(chk, "tpl", [c["src"] for c in lib], "library-tags", procs, stop_after,
                       lambda g: {"kind": "lib", **{k: lib[g][k] for k in ("tag", "words", "form", "wrap")}})
    chk.sample({"pumped": "".join(pump_text(ptag_c[len(ptag_c) // 2]))[:60] + "...",
                "pumped_tpl": "".join(pump_text(ptpl_c[len(ptpl_c) // 2]))[:60] + "...",
                "library_tag": "".join(lib[len(lib) // 2]["src"])})
    t0 = _phase(chk, "library_tags", t0)
    roundtrip_all(chk, header, cases, procs, rt_k)
    t0 = _phase(chk, "roundtrip", t0)
    grow = growth(chk, "tag", units_from(tag_strings), grow_n, procs)
    grow += growth(chk, "tpl", units_from(tpl_strings), grow_n, procs)
    t0 = _phase(chk, "growth", t0)
    # code -> spec
    n_tag, n_tpl, n_mut, n_rt, n_pump, n_lib = n_rand
    recs = record_random(chk, gen_random(header, chk.seed * 9173 + 12, n_tag, n_tpl, n_mut, n_pump, n_lib), procs)
    chk.add("slowest_inputs_validated", len(slow))
    from concurrent.futures import ThreadPoolExecutor
    with ThreadPoolExecutor(max_workers=2) as ex:       # the two TLC runs wait for their JVMs meanwhile
        futs = [ex.submit(trace_validate, chk, recs + slow, "random", w),
                ex.submit(trace_validate, chk, [dict(g, u=list(g["u"])) for g in grow], "growth", w)]
        roundtrip_traces(chk, header, chk.seed * 3571 + 12, n_rt, w)
        for f in futs:
            f.result()
    _phase(chk, "trace_validation", t0)


def run(tier: str) -> int:
    chk = Check(PID, tier, "exploration")
    if tier == "quick":
        core(chk, tier, procs=12, maxlen=4, n_bases=120, grow_n=8, n_rand=(3000, 1500, 600, 150, 900, 600),
             c02_tier="selftest", rt_k=3, pump=(3, 3, 1, [48]), lib_words=2)
    else:
        core(chk, tier, procs=8, maxlen=5, n_bases=800, grow_n=32, n_rand=(30000, 15000, 6000, 1500, 9000, 6000),
             c02_tier="quick", rt_k=6, pump=(4, 2, 1, [56]), lib_words=2)
    chk.cov["evaluations"] = chk.cov["inputs"] + chk.cov["roundtrips"] + chk.cov["growth_measurements"] \
        + chk.cov["traces_validated_against_impl"]
    chk.cov["distinct_nontrivial"] = chk.cov["inputs_nontrivial"]
    chk.cov["exhaustive"] = True
    chk.cov["rule"] = RULE
    chk.assumptions += ASSUMPTIONS
    return chk.finish()


def replay(path: str) -> int:
    env()
    _init_worker(None, limit_memory=False)
    d = json.load(open(path))
    case = d["case"]
    kind = case.get("kind")
    if kind in ("input", "trace"):
        ik = "tpl" if case.get("input_kind") == "tpl" else "tag"
        text = case["text"]
        res = [(name,) + timed(fn, len(text)) for name, fn in channels(ik, text)]
        print(json.dumps({"text": text, "chars": len(text), "cpu_budget_ms": budget_ms(len(text)),
                          "outcomes [channel, outcome, cpu ms]": res}, indent=1))
        return 1 if any(o not in ("ok", "tse") for c, o, _ in res if case.get("channel") in (c, "?")) else 0
    if kind in ("roundtrip", "roundtrip-trace"):
        c02.set_ctx(case["ctx"])
        bad = roundtrip(case["text"], case["text"].rstrip().endswith("/"))
        print(json.dumps({"text": case["text"], "roundtrip": bad}, indent=1, default=repr))
        return 1 if bad and "skip" not in bad else 0
    if kind == "growth":
        unit = {"shape": case["shape"], "u": case["unit"]}
        recs = _grow_work((case["input_kind"], [unit], case["n"]))
        recs = [r for r in recs if r["channel"] == case["channel"]]
        print(json.dumps([{**r, "exponent": round(exponent(r["c1"], r["c4"]), 3)} for r in recs], indent=1))
        return 1 if any(r["c4"] > 32 * r["c1"] for r in recs) else 0
    print(f"unknown case kind {kind!r}")
    return 2


def selftest(tier: str) -> int:
    """In-process mutation probes (monkeypatched library functions; /repo is never touched)."""
    from contextlib import ExitStack, contextmanager
    from .core import run_probes
    env()
    import django_components.expression as dexpr
    import django_components.util.django_monkeypatch as dmp
    import django_components.util.tag_parser as tp
    import django_components.util.template_parser as tpar
    import django_components.util.template_tag as ttag

    @contextmanager
    def patch(obj, name, new):
        if isinstance(obj, dict):
            old, obj[name] = obj[name], new
            try:
                yield
            finally:
                obj[name] = old
            return
        old = getattr(obj, name)
        setattr(obj, name, new)
        try:
            yield
        finally:
            setattr(obj, name, old)

    def many(*ps):
        @contextmanager
        def cm():
            with ExitStack() as st:
                for p in ps:
                    st.enter_context(patch(*p))
                yield
        return cm

    def post_init_value_error(self):
        # validation errors of a value part raised with the wrong exception class
        if self.translation and not self.quoted:
            raise ValueError("Translation value must be quoted")
        if self.spread and self.filter:
            raise ValueError("Cannot define spread syntax inside a filter")

    orig_detail = tpar._detailed_tag_parser

    def hang_on_trailing_backslash(text, lineno, start_index):
        # an escape at the very end of an unterminated string: the cursor stops advancing
        if text.endswith("\\") and (text.count('"') % 2 == 1 or text.count("'") % 2 == 1):
            while True:
                pass
        return orig_detail(text, lineno, start_index)

    orig_struct_ser = tp.TagValueStruct.serialize

    def list_spread_prefix_lost(self):
        # (a list serialised without commas re-parses to the same arguments - commas are optional
        #  for the scanner - so that mutant is equivalent; this one is not)
        if self.type == "list" and self.spread:
            old, self.spread = self.spread, None
            try:
                return orig_struct_ser(self)
            finally:
                self.spread = old
        return orig_struct_ser(self)

    def dict_spread_prefix_lost(self):
        if self.type == "dict" and self.spread:
            old, self.spread = self.spread, None
            try:
                return orig_struct_ser(self)
            finally:
                self.spread = old
        return orig_struct_ser(self)

    orig_part_ser = tp.TagValuePart.serialize

    def always_double_quotes(self):
        if self.quoted:
            old, self.quoted = self.quoted, '"'
            try:
                return orig_part_ser(self)
            finally:
                self.quoted = old
        return orig_part_ser(self)

    orig_parse_template = tpar.parse_template

    def cubic_rescan(text):
        toks = orig_parse_template(text)
        n = len(toks)
        k = 0
        for a in range(n):          # every token compared with every pair of later ones
            for b in range(n):
                for c in range(n):
                    k += 1
        return toks

    orig_parse_tag = tp.parse_tag

    def recursion_per_bracket(text, parser):
        def down(n):
            return 0 if n == 0 else 1 + down(n - 1)
        down(150 * text.count("["))
        return orig_parse_tag(text, parser)

    # the tag lexer matching a whole string literal - both quotes and the content - with one pattern:
    # the alternatives `\\.` and `[^"]` overlap, so an UNTERMINATED string makes the engine try every
    # split of its backslashes (exponential in C code: invisible to line events, counted by CPU time)
    whole_string = {q: re.compile(q + r"(?:\\.|[^" + q + "])*" + q) for q in "'\""}

    def whole_string_regex(text, lineno, start_index):
        for i, c in enumerate(text):
            if c in whole_string:
                whole_string[c].match(text, i)      # the cost of the match is the mutation
                break
        return orig_detail(text, lineno, start_index)

    import django_components.tag_formatter as tfm
    from django.template import TemplateSyntaxError

    def formatter_indexes_name_kwarg(self, tokens):
        # ComponentFormatter.parse with the `name=` lookup written as a list comprehension that is
        # indexed unconditionally: IndexError when the first word has `=` and there is no name=
        tag, *args = tokens
        if not args:
            raise TemplateSyntaxError("Component tag did not receive tag name")
        if "=" in args[0]:
            names = [a for a in args if a.startswith("name=")]
            comp_name = names[0][5:]
            if len(names) > 1:
                raise TemplateSyntaxError("'name' kwarg was defined more than once.")
            final_args = [a for a in args if a not in names]
        else:
            comp_name, final_args = args[0], args[1:]
        if not comp_name:
            raise TemplateSyntaxError("Component name must be a non-empty quoted string, e.g. 'my_comp'")
        if not tfm.is_str_wrapped_in_quotes(comp_name):
            raise TemplateSyntaxError(f"Component name must be a string 'literal', got: {comp_name}")
        return tfm.TagResult(comp_name[1:-1], final_args)

    from django_components.templatetags import component_tags
    lib_tags = component_tags.register.tags       # what Parser.__init__ copies its tag table from
    orig_slot_tag = lib_tags["slot"]

    def slot_peeks_first_word(parser, token):
        # {% slot %} looking at its first argument before the generic parser has validated the tag
        token.contents.split()[1]
        return orig_slot_tag(parser, token)

    import django.template.base as dtb
    orig_compile = dtb.Template.compile_nodelist

    def tokenizer_errors_annotated_like_parser_errors(self):
        # the debug-mode handler of compile_nodelist (e.template_debug = get_exception_info(e, e.token))
        # also covering the library's own tokenizer, whose exceptions carry no `token`
        try:
            return orig_compile(self)
        except Exception as e:
            if self.engine.debug and not hasattr(e, "template_debug"):
                e.template_debug = self.get_exception_info(e, e.token)
            raise

    probes = [
        ("value-error-instead-of-syntax-error", many((tp.TagValuePart, "__post_init__", post_init_value_error))),
        ("debug-engine-annotates-tokenizer-errors", many((dtb.Template, "compile_nodelist",
                                                          tokenizer_errors_annotated_like_parser_errors))),
        ("whole-string-regex-backtracks-on-unterminated-string", many((tpar, "_detailed_tag_parser", whole_string_regex))),
        ("formatter-indexes-missing-name-kwarg", many((tfm.ComponentFormatter, "parse", formatter_indexes_name_kwarg))),
        ("slot-tag-peeks-at-missing-first-word", many((lib_tags, "slot", slot_peeks_first_word))),
        ("hang-on-trailing-backslash", many((tpar, "_detailed_tag_parser", hang_on_trailing_backslash))),
        ("list-spread-prefix-lost-in-serialisation", many((tp.TagValueStruct, "serialize", list_spread_prefix_lost))),
        ("dict-spread-prefix-lost-in-serialisation", many((tp.TagValueStruct, "serialize", dict_spread_prefix_lost))),
        ("serialize-always-double-quotes", many((tp.TagValuePart, "serialize", always_double_quotes))),
        ("cubic-rescan-of-tokens", many((dmp, "parse_template", cubic_rescan), (dexpr, "parse_template", cubic_rescan))),
        ("recursion-per-bracket", many((ttag, "parse_tag", recursion_per_bracket))),
    ]
    cache: Dict[str, Any] = {}

    def body(chk: Check) -> None:
        _E["scale"] = 0.4
        try:
            core(chk, "quick", procs=4, maxlen=3, n_bases=25, grow_n=6, n_rand=(300, 150, 100, 40, 150, 100),
                 c02_tier="selftest", rt_k=2, pump=(2, 2, 1, [40]), lib_words=1, stop_after=50, cache=cache)
        finally:
            _E["scale"] = 1.0

    return run_probes(PID, probes, body)
