"""C12 - parsing any tag or template terminates with success or TemplateSyntaxError.

Level: **exploration**.  The TLA+ specification (specs/TagArgs.tla: TagAlphabet, TplAlphabet,
ParseOutcomes, Mutated, Text, Serial; bounded instances MC_C12 / MC_C12M; Trace_C12) defines the
*input space* and the admissible outcomes; termination and cost of the Python scanners are
*observed* on the real code, not modelled (a model of the scanner's index/stack variables could
only be bound by line-level tracing of locals and would prescribe an accept set C12 does not).

spec -> code
  (i)   TLC enumerates every string of <= N symbols over the 18-symbol tag alphabet (quotes,
        brackets, braces, colon, comma, pipe, equals, `...`, `*`, `_(`, `)`, backslash, blank,
        `%}`, a letter) by AppendSym actions (quick N=4: 111 151 strings, thorough N=5:
        2 000 719) and every string of <= N symbols over the 14-symbol template alphabet
        (all tag delimiters, django-components tag openers, quotes, backslash, newline);
        the harness reads them from TLC's state dump and runs parse_tag(text),
        Template("{% vfprobe <text> %}{% endvfprobe %}"), Template("{% component '..' <text> %}
        {% endcomponent %}") resp. Template(src).
  (ii)  TLC (MC_C12M) builds every one-symbol mutation (insert/delete/replace at every position)
        of valid tag texts - layouts Text(args, style) exported by MC_C02 - same three channels.
  Verdict: every outcome must be in ParseOutcomes = {ok, TemplateSyntaxError}; another exception
  class, a timeout (reproduced with the budget doubled) or MemoryError under RLIMIT_AS is a
  violation.
  (iii) round trip: for every valid text of the MC_C02 export, the real
        " ".join(TagAttr.serialize()) is re-parsed: equal AST, and the probe tag fed with the
        serialisation receives the same values as with the original text.
  (iv)  growth: for every unit u of <= 2 symbols of both alphabets (from the TLC dump), u^n and
        a^n b^n at n, 2n, 4n: interpreter *line events* (sys.monitoring, deterministic, no
        wall clock) - fitted exponent log4(c(4n)/c(n)) > 2.5 is a violation.  (Time spent inside
        C code - the `re` engine - is invisible to this measure.)
code -> spec: seeded random strings of 6..40 symbols over both alphabets, one-symbol mutations
  of random deep valid texts, and the growth measurements are recorded and validated by TLC
  against Trace_C12 (input belongs to the modelled space / is Mutated(Text(args, style), m);
  outcomes in ParseOutcomes; c(4n) <= 32 c(n)); round-trip observations of random deep valid
  texts are validated against Trace_C02 (what the tag receives from the serialisation is
  Denote(args) whenever that holds for the original text).

Not demanded (unspecified): which strings are accepted; round trip of strings outside the
documented syntax that happen to parse; the exact text of the serialisation.
"""
from __future__ import annotations

import json
import math
import multiprocessing as mp
import random
import re
import resource
import signal
import sys
from pathlib import Path
from typing import Any, Callable, Dict, List, Optional, Tuple

from . import c02, tlc
from .core import Check, MachineryError, workdir

PID = "C12"
COMP = "vf_probe_c12"
BUDGET_S = 5.0          # per input; the median input takes < 1 ms
MEM_LIMIT = 4 << 30

RULE = ("every state of TLC's BFS over AppendSym (all strings up to the length bound over the tag and the template "
        "alphabet) and every MC_C12M mutant of sampled MC_C02 layouts is fed to parse_tag / Template; non-trivial = "
        "at least 2 symbols; distinct by construction (distinct TLC states); random longer strings, mutants of deep "
        "texts and growth measurements validated by Trace_C12, round trips by Trace_C02")
ASSUMPTIONS = [
    "termination, memory and growth are observed on the real code, not modelled (exploration)",
    "growth is measured in interpreter line events: work done inside C extensions (re) is not counted",
    "a timeout counts as a hang only if it reproduces with the budget doubled",
]

_E: Dict[str, Any] = {}


def env() -> Dict[str, Any]:
    if _E:
        return _E
    e = c02.env()
    from django_components import Component, registry

    class VfProbeC12(Component):
        template = "[C]"

        def get_context_data(self, *args, **kwargs):
            return {}

    if COMP in registry.all():
        registry.unregister(COMP)
    registry.register(COMP, VfProbeC12)
    _E.update(e)
    _E["budget"] = BUDGET_S
    return _E


# ------------------------------------------------------------------ outcomes
class _Timeout(BaseException):
    pass


def _alarm(signum, frame):
    raise _Timeout()


def outcome(fn: Callable[[], Any]) -> str:
    from django.template import TemplateSyntaxError
    budget = _E.get("budget", BUDGET_S)
    for attempt in (1, 2):
        signal.setitimer(signal.ITIMER_REAL, budget * attempt)
        try:
            fn()
            return "ok"
        except TemplateSyntaxError:
            return "tse"
        except _Timeout:
            if attempt == 2:
                return "hang"
        except BaseException as ex:  # noqa: BLE001 - the class is the observation
            return "exc:" + type(ex).__name__
        finally:
            signal.setitimer(signal.ITIMER_REAL, 0)
    return "hang"


def channels(kind: str, text: str) -> List[Tuple[str, Callable[[], Any]]]:
    from django.template import Template
    from django_components.util.tag_parser import parse_tag
    if kind == "tpl":
        return [("template", lambda: Template(text))]
    return [("parse_tag", lambda: parse_tag(text, None)),
            ("probe", lambda: Template("{% " + c02.PROBE_TAG + " " + text + " %}{% end" + c02.PROBE_TAG + " %}")),
            ("comp", lambda: Template("{% component '" + COMP + "' " + text + " %}{% endcomponent %}"))]


def outcomes(kind: str, text: str) -> List[Tuple[str, str]]:
    return [(name, outcome(fn)) for name, fn in channels(kind, text)]


TRANS_WORD = re.compile(r"""(?:^|\s)_\(["']""")


def finding_key(kind: str, channel: str, text: str, out: str) -> Optional[str]:
    """Named deviation = shape of the input + the outcome the deviation predicts."""
    if out == "exc:StopIteration" and TRANS_WORD.search(text):
        if channel == "comp" or (kind == "tpl" and "{% component " in text):
            # Token.split_contents() of the component tag_fn: a word starting with _(" or _('
            # that does not end with ") / ')
            return "component-tag:unfinished-translation-word:StopIteration"
    return None


# ------------------------------------------------------------------ workers
def _init_worker(budget: float, limit_memory: bool = True) -> None:
    env()
    _E["budget"] = budget
    signal.signal(signal.SIGALRM, _alarm)
    if limit_memory:        # only in forked workers: the main process still has to start JVMs
        try:
            resource.setrlimit(resource.RLIMIT_AS, (MEM_LIMIT, MEM_LIMIT))
        except (ValueError, OSError):
            pass
    sys.setrecursionlimit(3000)


def _work(job):
    kind, items = job
    stats: Dict[str, int] = {}
    bad = []
    for syms in items:
        text = "".join(syms)
        for ch, out in outcomes(kind, text):
            k = ch + ":" + out
            stats[k] = stats.get(k, 0) + 1
            if out not in ("ok", "tse"):
                bad.append((syms, ch, out))
    return stats, bad


def run_inputs(chk: Check, kind: str, items: List[List[str]], label: str, procs: int,
               stop_after: Optional[int] = None) -> None:
    """Feed every input (list of symbols) to the parsers of its kind; report inadmissible outcomes."""
    if not items:
        raise MachineryError(f"{label}: no inputs")
    n = max(1, min(5000, len(items) // (procs * 4) + 1))
    jobs = [(kind, items[i:i + n]) for i in range(0, len(items), n)]
    budget = _E.get("budget", BUDGET_S)
    if procs <= 1:
        _init_worker(budget, limit_memory=False)
        results = [_work(j) for j in jobs]
    else:
        with mp.get_context("fork").Pool(procs, initializer=_init_worker, initargs=(budget,)) as pool:
            try:
                results = pool.map_async(_work, jobs, chunksize=1).get(timeout=3600)
            except mp.TimeoutError as ex:
                raise MachineryError(f"{label}: worker pool did not finish within the hard limit") from ex
    total: Dict[str, int] = {}
    nbad = 0
    for stats, bad in results:
        for k, v in stats.items():
            total[k] = total.get(k, 0) + v
        for syms, ch, out in bad:
            nbad += 1
            if stop_after is not None and nbad > stop_after:
                continue
            text = "".join(syms)
            chk.violation({"kind": "input", "input_kind": kind, "set": label, "syms": syms, "text": text, "channel": ch},
                          {"expected": "ok or TemplateSyntaxError", "observed": out},
                          key=finding_key(kind, ch, text, out))
    chk.cov.setdefault("outcomes", {})[label] = dict(sorted(total.items()))
    chk.add("inputs", len(items))
    chk.add("inputs_nontrivial", sum(1 for s in items if len(s) >= 2))
    chk.add("parser_runs", sum(total.values()))


# ------------------------------------------------------------------ TLC dumps
_STR = re.compile(r'"((?:[^"\\]|\\.)*)"')
_UNESC = {"n": "\n", "t": "\t", "r": "\r", "f": "\f", '"': '"', "\\": "\\"}


def _unescape(s: str) -> str:
    return re.sub(r"\\(.)", lambda m: _UNESC.get(m.group(1), m.group(1)), s)


def read_dump(path: Path) -> List[Dict[str, Any]]:
    """States of a TLC -dump file -> [{variable: value}].  TLC prints one `name = value` line per
    variable (prefixed with /\\ when there are several) and a blank line between states; values
    used here: tuples of strings, ints, flat records."""
    out: List[Dict[str, Any]] = []
    cur: Dict[str, str] = {}
    last = None
    line_re = re.compile(r"^(?:/\\ )?(\w+) = (.*)$")

    def flush():
        if cur:
            out.append({k: _parse_value(v) for k, v in cur.items()})

    with open(path, encoding="utf-8") as f:
        for line in f:
            line = line.rstrip("\n")
            if line.startswith("State ") and line.endswith(":"):
                flush()
                cur, last = {}, None
                continue
            if not line.strip():
                continue
            m = line_re.match(line)
            if m:
                last = m.group(1)
                cur[last] = m.group(2)
            elif last is not None and line[0] == " ":      # wrapped value: continuation lines are indented
                cur[last] += " " + line.strip()
            else:
                raise MachineryError(f"cannot parse dump line {line[:120]!r} in {path}")
    flush()
    return out


def _parse_value(v: str) -> Any:
    v = v.strip()
    if v.startswith("<<"):
        return [_unescape(m.group(1)) for m in _STR.finditer(v)]
    if v.startswith("["):     # record of MC_C12M: [kind |-> "ins", p |-> 3, c |-> "x"]
        d: Dict[str, Any] = {}
        for m in re.finditer(r'(\w+) \|-> (?:"((?:[^"\\]|\\.)*)"|(-?\d+))', v):
            d[m.group(1)] = _unescape(m.group(2)) if m.group(2) is not None else int(m.group(3))
        return d
    if re.fullmatch(r"-?\d+", v):
        return int(v)
    return v


def enumerate_strings(which: str, maxlen: int, w: Path, workers: int) -> Tuple[List[List[str]], Any]:
    cfg = w / f"mc12_{which}.cfg"
    cfg.write_text(f'SPECIFICATION Spec\nCONSTANTS\n  MaxLen = {maxlen}\n  Which = "{which}"\nINVARIANT TypeOK\n')
    dump = w / f"strings_{which}"
    r = tlc.require_ok(tlc.run("MC_C12", str(cfg), workers=workers, extra=["-dump", str(dump)], timeout=3000),
                       f"MC_C12 {which}")
    states = read_dump(Path(str(dump) + ".dump"))
    if len(states) != r.distinct:
        raise MachineryError(f"MC_C12 {which}: dump has {len(states)} states, TLC reports {r.distinct}")
    return [s["s"] for s in states], r


def enumerate_mutants(bases: List[List[str]], w: Path, workers: int):
    f = w / "bases.ndjson"
    tlc.write_ndjson(f, [{"text": b} for b in bases])
    cfg = w / "mc12m.cfg"
    cfg.write_text("SPECIFICATION Spec\nINVARIANT OneSymbol\n")
    dump = w / "mutants"
    r = tlc.require_ok(tlc.run("MC_C12M", str(cfg), env={"IN": str(f)}, workers=workers,
                               extra=["-dump", str(dump)], timeout=3000), "MC_C12M")
    states = read_dump(Path(str(dump) + ".dump"))
    if len(states) != r.distinct:
        raise MachineryError(f"MC_C12M: dump has {len(states)} states, TLC reports {r.distinct}")
    seen, out = set(), []
    for st in states:
        if st["mut"]["kind"] == "none":
            continue
        k = tuple(st["txt"])
        if k not in seen:          # different mutations can give the same text
            seen.add(k)
            out.append(st["txt"])
    return out, r


# ------------------------------------------------------------------ valid texts (MC_C02 export)
def valid_cases(tier: str, w: Path, seed: int):
    """Valid argument lists with their layouts, from the MC_C02 export (configurations V, A, R)."""
    cfgs = {k: v for k, v in c02.CONFIGS[tier].items() if k != "I"}
    from concurrent.futures import ThreadPoolExecutor
    with ThreadPoolExecutor(max_workers=4) as ex:
        futs = [ex.submit(c02._tlc_export, (n, c, str(w), None, None, None)) for n, c in cfgs.items()]
        res = [f.result() for f in futs]
    header, cases = None, []
    states = 0
    for name, r, out in res:
        tlc.require_ok(r, f"MC_C02 export {name}")
        states += r.distinct
        h, cs = c02.read_cases(out)
        header = h
        cases += [c for c in cs if not c["invalid"]]
    return header, cases, states


# ------------------------------------------------------------------ round trip
def ast(attrs) -> Any:
    """TagAttr list -> comparable structure (start_index, parser and compile state left out)."""
    from django_components.util.tag_parser import TagValue, TagValueStruct

    def val(v):
        if isinstance(v, TagValueStruct):
            return ("struct", v.type, v.spread, tuple(val(e) for e in v.entries))
        if isinstance(v, TagValue):
            return ("value", tuple((p.value, p.quoted, p.spread, p.translation, p.filter) for p in v.parts))
        return ("?", repr(v))
    return tuple((a.key, val(a.value)) for a in attrs)


def roundtrip(text: str, slash: bool) -> Optional[Dict[str, Any]]:
    """None if the real serialisation of `text` re-parses to the same arguments."""
    from django_components.util.tag_parser import parse_tag
    try:
        _, a1 = parse_tag(text, None)
    except Exception as ex:  # noqa: BLE001 - a valid text that does not parse is C02's business
        return {"skip": "original does not parse: " + type(ex).__name__}
    try:
        ser = " ".join(a.serialize() for a in a1)
    except Exception as ex:  # noqa: BLE001
        return {"stage": "serialize", "exception": type(ex).__name__ + ": " + str(ex)[:200]}
    try:
        _, a2 = parse_tag(ser, None)
    except Exception as ex:  # noqa: BLE001
        return {"stage": "re-parse", "serialised": ser, "exception": type(ex).__name__ + ": " + str(ex)[:200]}
    if ast(a1) != ast(a2):
        return {"stage": "ast", "serialised": ser, "first": repr(ast(a1))[:600], "second": repr(ast(a2))[:600]}
    try:
        ser2 = " ".join(a.serialize() for a in a2)
    except Exception as ex:  # noqa: BLE001
        return {"stage": "serialize-again", "exception": type(ex).__name__}
    if ser2 != ser:
        return {"stage": "not-a-fixpoint", "serialised": ser, "again": ser2}
    o1 = c02.observe("probe", text, slash)
    o2 = c02.observe("probe", ser, slash)
    if o1["o"] != o2["o"] or (o1["o"] == "values" and not (
            c02.same(o1["args"], o2["args"]) and c02.same(o1["kwargs"], o2["kwargs"]) and o1["flags"] == o2["flags"])):
        return {"stage": "received-values", "serialised": ser, "original": c02.show(o1), "reparsed": c02.show(o2)}
    return None


_RT: Dict[str, Any] = {}


def _rt_init(header, k):
    env()
    c02.set_ctx(header["ctx"])
    _RT.update(header=header, k=k)


def _rt_work(chunk):
    out = []
    h = _RT["header"]
    for idx, case in chunk:
        for j in c02.picks(idx, len(case["texts"]), _RT["k"]):
            st = h["styles"][h["from"] - 1 + j]
            text = "".join(case["texts"][j])
            bad = roundtrip(text, st["slash"])
            if bad:
                out.append((idx, j, text, bad))
    return out


def roundtrip_all(chk: Check, header, cases, procs: int, k: int) -> None:
    idx = list(enumerate(cases))
    n = max(1, len(idx) // (procs * 4) + 1)
    chunks = [idx[i:i + n] for i in range(0, len(idx), n)]
    if procs <= 1:
        _rt_init(header, k)
        results = [_rt_work(c) for c in chunks]
    else:
        with mp.get_context("fork").Pool(procs, initializer=_rt_init, initargs=(header, k)) as pool:
            results = pool.map(_rt_work, chunks, chunksize=1)
    done = sum(len(c02.picks(i, len(c["texts"]), k)) for i, c in idx)
    for res in results:
        for i, j, text, bad in res:
            if "skip" in bad:
                chk.add("roundtrip_skipped_original_rejected")
                continue
            chk.violation({"kind": "roundtrip", "args": cases[i]["args"], "style": header["from"] + j, "text": text,
                           "ctx": header["ctx"]}, bad)
    chk.add("roundtrips", done)


# ------------------------------------------------------------------ growth
TOOL_ID = 4


def count_lines(fn: Callable[[], Any]) -> Tuple[int, str]:
    """(number of interpreter line events while fn runs, its outcome)."""
    mon = sys.monitoring
    cnt = [0]

    def cb(code, line):
        cnt[0] += 1

    mon.use_tool_id(TOOL_ID, "vf_c12")
    try:
        mon.register_callback(TOOL_ID, mon.events.LINE, cb)
        mon.set_events(TOOL_ID, mon.events.LINE)
        try:
            out = outcome(fn)
        finally:
            mon.set_events(TOOL_ID, 0)
            mon.register_callback(TOOL_ID, mon.events.LINE, None)
    finally:
        mon.free_tool_id(TOOL_ID)
    return cnt[0], out


def grow_text(unit: Dict[str, Any], n: int) -> str:
    if unit["shape"] == "rep":
        return "".join(unit["u"]) * n
    return unit["u"][0] * n + unit["u"][1] * n


def _grow_work(job):
    kind, units, n = job
    out = []
    for unit in units:
        for ch_i in range(len(channels(kind, ""))):
            cs = []
            for m in (n, 2 * n, 4 * n):
                name, fn = channels(kind, grow_text(unit, m))[ch_i]
                if m == n:
                    try:
                        fn()          # warm caches (regex compilation, lazy imports)
                    except BaseException:  # noqa: BLE001
                        pass
                    name, fn = channels(kind, grow_text(unit, m))[ch_i]
                cs.append(count_lines(fn))
            out.append({"kind": "grow", "input_kind": kind, "shape": unit["shape"], "u": unit["u"], "channel": name,
                        "n": n, "c1": cs[0][0], "c2": cs[1][0], "c4": cs[2][0], "out": [c[1] for c in cs]})
    return out


def exponent(c1: int, c4: int) -> float:
    return math.log(max(c4, 1) / max(c1, 1)) / math.log(4)


def growth(chk: Check, kind: str, units: List[Dict[str, Any]], n: int, procs: int) -> List[Dict[str, Any]]:
    sz = max(1, len(units) // (procs * 4) + 1)
    jobs = [(kind, units[i:i + sz], n) for i in range(0, len(units), sz)]
    if procs <= 1:
        _init_worker(_E.get("budget", BUDGET_S), limit_memory=False)
        results = [_grow_work(j) for j in jobs]
    else:
        with mp.get_context("fork").Pool(procs, initializer=_init_worker, initargs=(60.0,)) as pool:
            results = pool.map(_grow_work, jobs, chunksize=1)
    recs = [r for res in results for r in res]
    worst = chk.cov.setdefault("growth_worst", {})
    for r in recs:
        e = exponent(r["c1"], r["c4"])
        key = kind + ":" + r["channel"]
        if key not in worst or e > worst[key]["exponent"]:
            worst[key] = {"exponent": round(e, 3), "unit": r["u"], "shape": r["shape"], "n": n,
                          "counts": [r["c1"], r["c2"], r["c4"]]}
        for m, o in zip((n, 2 * n, 4 * n), r["out"]):
            if o not in ("ok", "tse"):
                text = grow_text({"shape": r["shape"], "u": r["u"]}, m)
                chk.violation({"kind": "input", "input_kind": kind, "set": "growth", "syms": None, "text": text,
                               "channel": r["channel"]}, {"expected": "ok or TemplateSyntaxError", "observed": o},
                              key=finding_key(kind, r["channel"], text, o))
        if r["c4"] > 32 * r["c1"]:
            chk.violation({"kind": "growth", "input_kind": kind, "unit": r["u"], "shape": r["shape"], "n": n,
                           "channel": r["channel"]},
                          {"line_events": [r["c1"], r["c2"], r["c4"]], "exponent": round(e, 3), "bound": 2.5})
    chk.add("growth_measurements", len(recs))
    return recs


def units_from(strings: List[List[str]]) -> List[Dict[str, Any]]:
    us = [{"shape": "rep", "u": s} for s in strings if 1 <= len(s) <= 2]
    us += [{"shape": "nest", "u": s} for s in strings if len(s) == 2]
    return us


# ------------------------------------------------------------------ code -> spec
def trace_validate(chk: Check, recs: List[Dict[str, Any]], what: str, w: Path) -> None:
    """Batch validation of recorded observations against Trace_C12."""
    if not recs:
        return
    for i, r in enumerate(recs):
        r["id"] = i + 1
    cfg = w / "trace12.cfg"
    cfg.write_text("SPECIFICATION TrSpec\n")
    f = w / f"traces12_{what}.ndjson"
    tlc.write_ndjson(f, recs)
    r = tlc.require_ok(tlc.run("Trace_C12", str(cfg), env={"IN": str(f)}, workers=1, timeout=3000), f"Trace_C12 {what}")
    verdicts: Dict[int, Optional[str]] = {}
    for line in r.out.splitlines():
        m = re.match(r'"ACCEPT (\d+)"$', line)
        if m:
            verdicts[int(m.group(1))] = None
        m = re.match(r'"REJECT (\d+) (\S+)"$', line)
        if m:
            verdicts[int(m.group(1))] = m.group(2)
    if len(verdicts) != len(recs):
        raise MachineryError(f"Trace_C12 {what}: {len(verdicts)} verdicts for {len(recs)} records\n"
                             + "\n".join(r.out.splitlines()[-30:]))
    for tid, why in verdicts.items():
        if why is None:
            continue
        rec = recs[tid - 1]
        if why == "bad:input_space":
            raise MachineryError(f"driver produced an input outside the modelled space: {rec}")
        if rec["kind"] == "grow":
            continue                      # already reported by growth() from the same numbers
        text = "".join(rec["syms"])
        chs = rec["chan"]
        for ch, out in zip(chs, rec["out"]):
            if out not in ("ok", "tse"):
                chk.violation({"kind": "trace", "input_kind": rec["kind"], "syms": rec["syms"], "text": text,
                               "channel": ch}, {"verdict": why, "observed": out},
                              key=finding_key("tpl" if rec["kind"] == "tpl" else "tag", ch, text, out))
    chk.add("traces_validated_against_impl", len(recs))


TAG_SYMS = ["'", '"', "[", "]", "{", "}", ":", ",", "|", "=", "...", "*", "_(", ")", "\\", " ", "%}", "a"]
TPL_SYMS = ["{% vfprobe ", "{% endvfprobe %}", "{% component 'vf_probe_c12' ", "%}", "{{", "}}", "{#", "#}",
            '"', "'", "\\", "\n", "%", "a "]


def record_random(header, seed: int, n_tag: int, n_tpl: int, n_mut: int) -> List[Dict[str, Any]]:
    env()
    _init_worker(_E.get("budget", BUDGET_S), limit_memory=False)
    c02.set_ctx(header["ctx"])
    rnd = random.Random(seed)
    recs: List[Dict[str, Any]] = []
    for _ in range(n_tag):
        # biased towards balanced-looking inputs: plain random strings die in the first symbols
        syms = [rnd.choice(TAG_SYMS) for _ in range(rnd.randint(6, 40))]
        if rnd.random() < 0.5:
            syms = [s for s in syms if s != "%}"]
        o = outcomes("tag", "".join(syms))
        recs.append({"kind": "tag", "syms": syms, "chan": [c for c, _ in o], "out": [x for _, x in o]})
    for _ in range(n_tpl):
        syms = [rnd.choice(TPL_SYMS) for _ in range(rnd.randint(4, 24))]
        o = outcomes("tpl", "".join(syms))
        recs.append({"kind": "tpl", "syms": syms, "chan": [c for c, _ in o], "out": [x for _, x in o]})
    g = c02.Gen(rnd, header)
    for _ in range(n_mut):
        args = g.args(header["strtab"], rnd.randint(1, 3))
        st = g.style()
        base = c02.text_of(args, st, header["strtab"], header["tpltab"])
        kind = rnd.choice(["ins", "del", "rep"])
        if kind == "ins":
            m = {"kind": "ins", "p": rnd.randint(1, len(base) + 1), "c": rnd.choice(TAG_SYMS)}
            syms = base[:m["p"] - 1] + [m["c"]] + base[m["p"] - 1:]
        elif kind == "del":
            m = {"kind": "del", "p": rnd.randint(1, len(base)), "c": ""}
            syms = base[:m["p"] - 1] + base[m["p"]:]
        else:
            m = {"kind": "rep", "p": rnd.randint(1, len(base)), "c": rnd.choice(TAG_SYMS)}
            syms = base[:m["p"] - 1] + [m["c"]] + base[m["p"]:]
        o = outcomes("tag", "".join(syms))
        recs.append({"kind": "mut", "args": args, "style": st, "m": m, "syms": syms,
                     "chan": [c for c, _ in o], "out": [x for _, x in o]})
    return recs


def roundtrip_traces(chk: Check, header, seed: int, n: int, w: Path) -> None:
    """Round trips of random deep valid texts, validated by TLC against Trace_C02: what the probe /
    component receives from the real serialisation must be explained by the specification exactly
    as what it receives from the original text."""
    c02.set_ctx(header["ctx"])
    from django_components.util.tag_parser import parse_tag
    orig = [t for t in c02.record_traces(header, seed, n, 3)]
    pairs = []
    for t in orig:
        text = "".join(t["text"])
        try:
            _, attrs = parse_tag(text, None)
            ser = " ".join(a.serialize() for a in attrs)
        except Exception:  # noqa: BLE001 - rejected original: nothing to round-trip
            continue
        t2 = dict(t)
        for pth in c02.PATHS:
            if t[pth]["o"] != "n/a":
                t2[pth] = c02.obs_record(c02.observe(pth, ser, t["style"]["slash"]))
        pairs.append((t, t2, ser))
    recs = []
    for i, (t, t2, _) in enumerate(pairs):
        a, b = dict(t), dict(t2)
        a["id"], b["id"] = 2 * i + 1, 2 * i + 2
        recs += [a, b]
    if not recs:
        raise MachineryError("no round-trip traces recorded")
    cfg = w / "trace02.cfg"
    cfg.write_text("SPECIFICATION TrSpec\n")
    f = w / "traces_rt.ndjson"
    tlc.write_ndjson(f, recs)
    r = tlc.require_ok(tlc.run("Trace_C02", str(cfg), env={"IN": str(f)}, workers=1, timeout=3000), "Trace_C02 (round trip)")
    v = c02._verdicts(r, len(recs))
    for i, (t, t2, ser) in enumerate(pairs):
        va, vb = v[2 * i + 1] or ["ok"] * 5, v[2 * i + 2] or ["ok"] * 5
        # statuses "dev:<name>" are C02's named deviations (reported there); the round trip fails
        # when the serialisation is NOT explained by the specification although the original is
        if any(b.startswith("bad:") and a != b for a, b in zip(va[1:], vb[1:])):
            chk.violation({"kind": "roundtrip-trace", "args": t["args"], "style": t["style"], "text": "".join(t["text"]),
                           "serialised": ser, "ctx": header["ctx"]},
                          {"original": va, "reparsed": vb, "received_original": t["probe"], "received_reparsed": t2["probe"]})
    chk.add("traces_validated_against_impl", len(pairs))
    chk.add("roundtrip_traces", len(pairs))


# ------------------------------------------------------------------ the check
def _phase(chk: Check, name: str, t0: float) -> float:
    import time
    now = time.time()
    chk.cov.setdefault("phase_wall_s", {})[name] = round(now - t0, 1)
    return now


def core(chk: Check, tier: str, procs: int, maxlen: int, n_bases: int, grow_n: int, n_rand: Tuple[int, int, int, int],
         c02_tier: str, rt_k: int, stop_after: Optional[int] = None, cache: Optional[Dict[str, Any]] = None) -> None:
    import time
    env()
    cache = cache if cache is not None else {}
    w = workdir("c12")
    t0 = time.time()
    if "tag" not in cache:
        from concurrent.futures import ThreadPoolExecutor
        with ThreadPoolExecutor(max_workers=3) as ex:
            f_tag = ex.submit(enumerate_strings, "tag", maxlen, w, 4)
            f_tpl = ex.submit(enumerate_strings, "tpl", maxlen, w, 2)
            f_val = ex.submit(valid_cases, c02_tier, w, chk.seed)
            cache["tag"], cache["tpl"], cache["valid"] = f_tag.result(), f_tpl.result(), f_val.result()
        header, cases, _ = cache["valid"]
        rnd = random.Random(chk.seed * 4409 + 12)
        picks = rnd.sample(range(len(cases)), min(n_bases, len(cases)))
        bases = [cases[i]["texts"][rnd.randrange(len(cases[i]["texts"]))] for i in sorted(picks)]
        cache["mut"] = enumerate_mutants(bases, w, 4)
        cache["nbases"] = len(bases)
    t0 = _phase(chk, "tlc_enumeration", t0)
    tag_strings, r_tag = cache["tag"]
    tpl_strings, r_tpl = cache["tpl"]
    header, cases, st02 = cache["valid"]
    mutants, r_mut = cache["mut"]
    chk.add("states", r_tag.distinct + r_tpl.distinct + r_mut.distinct + st02)
    chk.add("transitions", r_tag.generated + r_tpl.generated + r_mut.generated + st02)
    chk.cov["input_sets"] = {"tag_strings": len(tag_strings), "tpl_strings": len(tpl_strings),
                             "mutation_bases": cache["nbases"], "mutants": len(mutants), "valid_texts_cases": len(cases)}
    run_inputs(chk, "tag", tag_strings, f"tag<= {maxlen}", procs, stop_after)
    run_inputs(chk, "tpl", tpl_strings, f"tpl<= {maxlen}", procs, stop_after)
    run_inputs(chk, "tag", mutants, "mutants", procs, stop_after)
    chk.sample({"tag_string": "".join(tag_strings[len(tag_strings) // 2]), "tpl_string": "".join(tpl_strings[len(tpl_strings) // 3]),
                "mutant": "".join(mutants[len(mutants) // 2])})
    t0 = _phase(chk, "inputs", t0)
    roundtrip_all(chk, header, cases, procs, rt_k)
    t0 = _phase(chk, "roundtrip", t0)
    grow = growth(chk, "tag", units_from(tag_strings), grow_n, procs)
    grow += growth(chk, "tpl", units_from(tpl_strings), grow_n, procs)
    t0 = _phase(chk, "growth", t0)
    # code -> spec
    n_tag, n_tpl, n_mut, n_rt = n_rand
    recs = record_random(header, chk.seed * 9173 + 12, n_tag, n_tpl, n_mut)
    trace_validate(chk, recs, "random", w)
    trace_validate(chk, [dict(g, u=list(g["u"])) for g in grow], "growth", w)
    roundtrip_traces(chk, header, chk.seed * 3571 + 12, n_rt, w)
    _phase(chk, "trace_validation", t0)


def run(tier: str) -> int:
    chk = Check(PID, tier, "exploration")
    if tier == "quick":
        core(chk, tier, procs=8, maxlen=4, n_bases=120, grow_n=8, n_rand=(3000, 1500, 600, 150), c02_tier="selftest", rt_k=3)
    else:
        core(chk, tier, procs=8, maxlen=5, n_bases=800, grow_n=32, n_rand=(30000, 15000, 6000, 1500), c02_tier="quick", rt_k=6)
    chk.cov["evaluations"] = chk.cov["inputs"] + chk.cov["roundtrips"] + chk.cov["growth_measurements"] \
        + chk.cov["traces_validated_against_impl"]
    chk.cov["distinct_nontrivial"] = chk.cov["inputs_nontrivial"]
    chk.cov["exhaustive"] = True
    chk.cov["rule"] = RULE
    chk.assumptions += ASSUMPTIONS
    return chk.finish()


def replay(path: str) -> int:
    env()
    _init_worker(BUDGET_S, limit_memory=False)
    d = json.load(open(path))
    case = d["case"]
    kind = case.get("kind")
    if kind in ("input", "trace"):
        ik = "tpl" if case.get("input_kind") == "tpl" else "tag"
        res = outcomes(ik, case["text"])
        print(json.dumps({"text": case["text"], "outcomes": res}, indent=1))
        return 1 if any(o not in ("ok", "tse") for c, o in res if c == case.get("channel")) else 0
    if kind in ("roundtrip", "roundtrip-trace"):
        c02.set_ctx(case["ctx"])
        bad = roundtrip(case["text"], case["text"].rstrip().endswith("/"))
        print(json.dumps({"text": case["text"], "roundtrip": bad}, indent=1, default=repr))
        return 1 if bad and "skip" not in bad else 0
    if kind == "growth":
        unit = {"shape": case["shape"], "u": case["unit"]}
        recs = _grow_work((case["input_kind"], [unit], case["n"]))
        recs = [r for r in recs if r["channel"] == case["channel"]]
        print(json.dumps([{**r, "exponent": round(exponent(r["c1"], r["c4"]), 3)} for r in recs], indent=1))
        return 1 if any(r["c4"] > 32 * r["c1"] for r in recs) else 0
    print(f"unknown case kind {kind!r}")
    return 2


def selftest(tier: str) -> int:
    """In-process mutation probes (monkeypatched library functions; /repo is never touched)."""
    from contextlib import ExitStack, contextmanager
    from .core import run_probes
    env()
    import django_components.expression as dexpr
    import django_components.util.django_monkeypatch as dmp
    import django_components.util.tag_parser as tp
    import django_components.util.template_parser as tpar
    import django_components.util.template_tag as ttag

    @contextmanager
    def patch(obj, name, new):
        old = getattr(obj, name)
        setattr(obj, name, new)
        try:
            yield
        finally:
            setattr(obj, name, old)

    def many(*ps):
        @contextmanager
        def cm():
            with ExitStack() as st:
                for p in ps:
                    st.enter_context(patch(*p))
                yield
        return cm

    def post_init_value_error(self):
        # validation errors of a value part raised with the wrong exception class
        if self.translation and not self.quoted:
            raise ValueError("Translation value must be quoted")
        if self.spread and self.filter:
            raise ValueError("Cannot define spread syntax inside a filter")

    orig_detail = tpar._detailed_tag_parser

    def hang_on_trailing_backslash(text, lineno, start_index):
        # an escape at the very end of an unterminated string: the cursor stops advancing
        if text.endswith("\\") and (text.count('"') % 2 == 1 or text.count("'") % 2 == 1):
            while True:
                pass
        return orig_detail(text, lineno, start_index)

    orig_struct_ser = tp.TagValueStruct.serialize

    def list_spread_prefix_lost(self):
        # (a list serialised without commas re-parses to the same arguments - commas are optional
        #  for the scanner - so that mutant is equivalent; this one is not)
        if self.type == "list" and self.spread:
            old, self.spread = self.spread, None
            try:
                return orig_struct_ser(self)
            finally:
                self.spread = old
        return orig_struct_ser(self)

    def dict_spread_prefix_lost(self):
        if self.type == "dict" and self.spread:
            old, self.spread = self.spread, None
            try:
                return orig_struct_ser(self)
            finally:
                self.spread = old
        return orig_struct_ser(self)

    orig_part_ser = tp.TagValuePart.serialize

    def always_double_quotes(self):
        if self.quoted:
            old, self.quoted = self.quoted, '"'
            try:
                return orig_part_ser(self)
            finally:
                self.quoted = old
        return orig_part_ser(self)

    orig_parse_template = tpar.parse_template

    def cubic_rescan(text):
        toks = orig_parse_template(text)
        n = len(toks)
        k = 0
        for a in range(n):          # every token compared with every pair of later ones
            for b in range(n):
                for c in range(n):
                    k += 1
        return toks

    orig_parse_tag = tp.parse_tag

    def recursion_per_bracket(text, parser):
        def down(n):
            return 0 if n == 0 else 1 + down(n - 1)
        down(150 * text.count("["))
        return orig_parse_tag(text, parser)

    probes = [
        ("value-error-instead-of-syntax-error", many((tp.TagValuePart, "__post_init__", post_init_value_error))),
        ("hang-on-trailing-backslash", many((tpar, "_detailed_tag_parser", hang_on_trailing_backslash))),
        ("list-spread-prefix-lost-in-serialisation", many((tp.TagValueStruct, "serialize", list_spread_prefix_lost))),
        ("dict-spread-prefix-lost-in-serialisation", many((tp.TagValueStruct, "serialize", dict_spread_prefix_lost))),
        ("serialize-always-double-quotes", many((tp.TagValuePart, "serialize", always_double_quotes))),
        ("cubic-rescan-of-tokens", many((dmp, "parse_template", cubic_rescan), (dexpr, "parse_template", cubic_rescan))),
        ("recursion-per-bracket", many((ttag, "parse_tag", recursion_per_bracket))),
    ]
    cache: Dict[str, Any] = {}

    def body(chk: Check) -> None:
        _E["budget"] = 0.4
        try:
            core(chk, "quick", procs=4, maxlen=3, n_bases=25, grow_n=6, n_rand=(300, 150, 100, 40),
                 c02_tier="selftest", rt_k=2, stop_after=50, cache=cache)
        finally:
            _E["budget"] = BUDGET_S

    return run_probes(PID, probes, body)
