"""C10 - stock templating is preserved: unchanged alone, composes with components.

(a) Differential: every generated stock-Django template / template family (text, variables,
    if / for / with, include, extends / block / block.super, plus filter, autoescape, firstof,
    cycle, a custom simple_tag and quoted tag arguments as opaque built-ins) is compiled and
    rendered by the patched Template class and by the ORIGINAL Template.compile_nodelist /
    Template.render / tag_re captured before django_components was set up; bytes, exception class
    and message, the Context afterwards and engine.debug on/off must agree, and both must agree
    with the stock fragment of the TLA+ reference semantics (third opinion).
(b) Inlining law: specs/DjcFamilies.tla - Flat(P) resolves {% extends %} / {% block %} /
    {{ block.super }} / {% include %} by hand; every generated component program in which the page
    and/or component templates are split into base + child (+ include) families must render, for
    real, exactly Run(Flat(P)); TLC evaluates the law's right-hand side and checks that Flat leaves
    no family node and is idempotent.
    Partials: a second batch of families (`add_partials`) moves chunks - preferably chunks holding component tags
    with a body - out of any template of the program (base or block override of the page's family or of an
    extends-based component's family, plain templates, existing partials; at top level or inside fills, slots,
    if / for / with / provide) into included templates and writes {% block %} tags inside the partial, inside the
    fills / implicit bodies of the component tags there and beside them, named (mostly) like blocks of the INCLUDING
    family.  By the specification an include is inlined with NO overrides (DjcFamilies!Inline), so each such block
    stands for its own content; TLC also checks PartialBlockNamesIrrelevant (renaming every block of the included
    templates leaves Flat(P) unchanged).  In that batch nearly every inject() has a default value (otherwise more
    than half of the programs end in the KeyError of an inject() without provider and compare no output).
    Left out of the partials (said here, not loosened elsewhere): chunks holding {{ block.super }} (it has no
    meaning in an included template); chunks holding a default alias whose {% fill default=.. %} stays outside,
    and {% block %} tags around a default alias - the open finding `default-alias-inside-block-override`
    (DESIGN 9.5) is keyed by the lexical shape "default alias inside a block", which the partials must neither
    widen nor hide; a block name is used once per template (Django refuses duplicates at compile time).
"""
from __future__ import annotations

import copy
import json
import random
from typing import Any, Dict, List, Optional

from . import boot, djc, prog as P
from .core import Check
from .pool import pmap

PID = "C10"


# ------------------------------------------------------------------ families
def fam_src(nodes, tag: str) -> str:
    """Template source incl. family nodes."""
    out = []
    for n in nodes:
        t = n["t"]
        if t == "include":
            out.append('{%% include "%s" %%}' % n["name"])
        elif t == "block":
            out.append("{%% block %s %%}%s{%% endblock %%}" % (n["name"], fam_src(n["a"], tag)))
        elif t == "super":
            out.append("{{ block.super }}")
        elif "a" in n and t not in ("text", "var", "fld", "isf", "defref"):
            # re-use the plain materialiser for the node itself, with family-aware children
            m = dict(n)
            inner = fam_src(n["a"], tag)
            m["a"] = [{"t": "text", "id": "\x00A\x00"}]
            if "b" in n and isinstance(n["b"], list):
                innerb = fam_src(n["b"], tag)
                m["b"] = [{"t": "text", "id": "\x00B\x00"}]
            s = P.tpl_src([m], tag)
            s = s.replace("[\x00A\x00]", inner)
            if "b" in n and isinstance(n["b"], list):
                s = s.replace("[\x00B\x00]", innerb)
            out.append(s)
        else:
            out.append(P.tpl_src([n], tag))
    return "".join(out)


def _super_host(n):
    """The node list of a component body in which {{ block.super }} can be written: the implicit body, or the
    content of the first plain {% fill %} of a body with explicit fills."""
    if n.get("t") != "comp" or n.get("only"):
        # (`only` in django mode: the fill is rendered with the callee's isolated context, which - like every other
        #  variable of the caller - does not hold Django's `block` variable)
        return None
    if n.get("body") == "impl":
        return n["a"]
    if n.get("body") == "fills":
        for f in n["a"]:
            if f["t"] == "fill":
                return f["a"]
    return None


def split_template(rnd: random.Random, nodes: List[Dict[str, Any]], base_name: str, inc_name: str, tpls: List[Dict[str, Any]],
                   prefix: str = "b", allow_super_inside: bool = False):
    """Split a template's top-level node list into base + child (+ include): returns (ext, child nodes).
    Top-level chunks become blocks of a base template; the child overrides some of them (optionally
    with {{ block.super }}), so that Flat(child) has exactly the original nodes."""
    if not nodes or rnd.random() < 0.3:
        # include only: move a chunk into an included template
        if nodes and rnd.random() < 0.6:
            k = rnd.randrange(len(nodes))
            tpls.append({"name": inc_name, "a": [nodes[k]]})
            return "", nodes[:k] + [{"t": "include", "name": inc_name}] + nodes[k + 1:]
        return "", nodes
    base, child = [], []
    for j, n in enumerate(nodes):
        bn = f"{prefix}{j}"
        mode = rnd.choice(["base", "override", "super-after", "super-before", "plain", "super-inside"])
        if mode == "plain":
            base.append(n)
        elif mode == "base":
            base.append({"t": "block", "name": bn, "a": [n]})
        elif mode == "override":
            base.append({"t": "block", "name": bn, "a": [{"t": "text", "id": "BASEONLY"}]})
            child.append({"t": "block", "name": bn, "a": [n]})
        elif mode == "super-after":
            base.append({"t": "block", "name": bn, "a": [n]})
            child.append({"t": "block", "name": bn, "a": [{"t": "super"}]})
        elif mode == "super-inside" and allow_super_inside and _super_host(n) is not None:
            # {{ block.super }} used INSIDE the body of a component tag (a fill or the implicit body) of the override
            base.append({"t": "block", "name": bn, "a": [{"t": "text", "id": "BASESUPER"}]})
            m = copy.deepcopy(n)
            _super_host(m).insert(0, {"t": "super"})
            child.append({"t": "block", "name": bn, "a": [m]})
        elif mode == "super-inside":
            base.append(n)
        else:
            base.append({"t": "block", "name": bn, "a": []})
            child.append({"t": "block", "name": bn, "a": [{"t": "super"}, n]})
    # blocks at NESTED positions of the base (inside fills, slot defaults, if / for / with bodies):
    # {% block %} tags may sit anywhere; the child overrides some of them
    counter = [len(nodes)]

    def nest(lst):
        for j, n in enumerate(lst):
            for key in ("a", "b"):
                if isinstance(n.get(key), list) and n["t"] not in ("block",):
                    # the body of a component tag with explicit fills may hold only fill-level nodes
                    if n["t"] == "comp" and n.get("body") == "fills":
                        for f in n[key]:
                            nest([f])
                        continue
                    if n["t"] in ("if", "for", "with") and n[key] and n[key][0].get("t") in ("fill", "if", "for", "with") \
                            and any(x.get("t") == "fill" for x in n[key]):
                        nest(n[key])
                        continue
                    kids = n[key]
                    for k2 in range(len(kids)):
                        if kids[k2]["t"] in ("fill", "block", "super") or rnd.random() > 0.2:
                            continue
                        # an implicit component body that flattens to nothing counts as "no body" in the
                        # specification while the real tag still holds a node: is_filled is not determined there
                        if n["t"] == "comp" and n.get("body") == "impl" and len(kids) == 1:
                            continue
                        counter[0] += 1
                        bn = f"{prefix}n{counter[0]}"
                        e = kids[k2]
                        mode = rnd.choice(["base", "override", "super-before"])
                        if mode == "base":
                            kids[k2] = {"t": "block", "name": bn, "a": [e]}
                        elif mode == "override":
                            kids[k2] = {"t": "block", "name": bn, "a": [{"t": "text", "id": "BASEONLY"}]}
                            child.append({"t": "block", "name": bn, "a": [e]})
                        else:
                            kids[k2] = {"t": "block", "name": bn, "a": []}
                            child.append({"t": "block", "name": bn, "a": [{"t": "super"}, e]})
                    nest([x for x in kids if x["t"] != "block"])
    nest([b for b in base if b["t"] != "block"] + [x for b in base if b["t"] == "block" for x in b["a"]])
    # an {% include %} is a family of its own: a block of the included template that bears the name of a
    # block overridden by the child keeps its own content (Django isolates the render context per template)
    if child and rnd.random() < 0.35:
        bn = rnd.choice(child)["name"]
        tpls.append({"name": inc_name, "a": [{"t": "block", "name": bn, "a": [{"t": "text", "id": "INCOWN"}]}]})
        base.insert(rnd.randrange(len(base) + 1), {"t": "include", "name": inc_name})
    tpls.append({"name": base_name, "a": base})
    return base_name, child


def family_program(rnd: random.Random, p: Dict[str, Any]) -> Dict[str, Any]:
    q = copy.deepcopy(p)
    tpls: List[Dict[str, Any]] = []
    # block names are unique per family unless `collide` (same names in the page's and the components' families)
    collide = q.get("block_names_collide", False)
    page_split = rnd.random() < 0.6
    for i, c in enumerate(q["comps"], start=1):
        if rnd.random() < 0.6:
            c["ext"], c["tpl"] = split_template(rnd, c["tpl"], f"vf_{q['id']}_c{i}_base.html", f"vf_{q['id']}_c{i}_inc.html", tpls,
                                                "b" if collide else f"c{i}x")
        else:
            c["ext"] = ""
    # {{ block.super }} inside the body of a component tag of an override: only where the whole component tree is
    # rendered while the page's block is still being rendered (a page-level component = render root) and where the
    # fill's `block` variable is the page's (isolated mode, or no component template has blocks of its own);
    # elsewhere it is a recorded limitation (deferred rendering / django-mode shadowing of `block`), see DESIGN 9.5
    allow = q["mode"] == "isolated" or not any(c["ext"] for c in q["comps"])
    ext, nodes = split_template(rnd, q["page"], f"vf_{q['id']}_page_base.html", f"vf_{q['id']}_page_inc.html", tpls,
                                "b" if collide else "pg", allow_super_inside=allow) if page_split else ("", q["page"])
    q["pext"], q["page"] = ext, nodes
    q["tpls"] = tpls
    return q


# ------------------------------------------------------------------ partials (component tags inside included templates)
def _has(n, kinds) -> bool:
    if n["t"] in kinds:
        return True
    return any(_has(c, kinds) for k in ("a", "b") if isinstance(n.get(k), list) for c in n[k])


def _has_comp_body(n) -> bool:
    if n["t"] == "comp" and n.get("body") in ("impl", "fills") and n.get("a"):
        return True
    return any(_has_comp_body(c) for k in ("a", "b") if isinstance(n.get(k), list) for c in n[k])


def _free_defref(n, bound=frozenset()) -> bool:
    """A default alias used in the subtree whose {% fill default=.. %} lies outside of it."""
    if n["t"] == "defref":
        return n["x"] not in bound
    if n["t"] == "fill" and n.get("fv"):
        bound = bound | {n["fv"]}
    return any(_free_defref(c, bound) for k in ("a", "b") if isinstance(n.get(k), list) for c in n[k])


def _block_names(nodes, acc=None) -> List[str]:
    acc = [] if acc is None else acc
    for n in nodes:
        if n["t"] == "block" and n["name"] not in acc:
            acc.append(n["name"])
        for k in ("a", "b"):
            if isinstance(n.get(k), list):
                _block_names(n[k], acc)
    return acc


def _positions(nodes, fill_level=False, in_body=False):
    """Every (list, index, inside-a-component-body?) of a node standing at an ordinary position (where any tag
    may be written): not the fill level of a component body with explicit fills."""
    for k, n in enumerate(nodes):
        if not fill_level and n["t"] != "fill":
            yield nodes, k, in_body
        for key in ("a", "b"):
            kids = n.get(key)
            if not isinstance(kids, list):
                continue
            if n["t"] == "comp":
                yield from _positions(kids, n.get("body") == "fills", True)
            elif n["t"] == "fill":
                yield from _positions(kids, False, in_body)
            else:
                yield from _positions(kids, fill_level, in_body)


def add_partials(rnd: random.Random, q: Dict[str, Any]) -> Dict[str, Any]:
    """Move chunks of the templates of a family program into included PARTIALS - wherever the chunk stands: in the
    base or in a block override of the page's family, of a component's family, in a plain template, in an existing
    partial - preferring chunks that hold component tags with a body, and write {% block %} tags inside the partial,
    around nodes inside the fills / the implicit body of those component tags and around nodes beside them.  The block
    names are (mostly) names of blocks of the INCLUDING family.  An included template is a family of its own
    (DjcFamilies!Inline: an include is inlined with no overrides), so every such block stands for its own content and
    Flat(program) is the program before this pass."""
    tpls = q["tpls"]
    by_name = {t["name"]: t for t in tpls}
    fams = []                      # (roots: the node lists of the templates of one family, prefix of its partial names)
    hosts = [("page", q.get("pext"), q["page"])] + [(f"c{i}", c.get("ext"), c["tpl"]) for i, c in enumerate(q["comps"], start=1)]
    for label, ext, nodes in hosts:
        roots = [nodes]
        if ext:
            roots.append(by_name[ext]["a"])
        inc = by_name.get(f"vf_{q['id']}_{label}_inc.html")
        if inc is not None:
            roots.append(inc["a"])
        fams.append((label, roots))
    every = _block_names([n for _, roots in fams for r in roots for n in r])
    made = 0
    for _ in range(rnd.choice([1, 1, 2, 3])):
        # (families with blocks of their own - extends-based pages / components - are taken three times as often)
        label, roots = rnd.choice([f for f in fams for _w in range(3 if len(f[1]) > 1 else 1)])
        names = _block_names([n for r in roots for n in r])
        cands = [(lst, k) for r in roots for lst, k, _b in _positions(r)
                 if lst[k]["t"] not in ("block", "super", "include", "defref") and not _has(lst[k], {"super"})
                 and not _free_defref(lst[k])]
        rich = [c for c in cands if _has_comp_body(c[0][c[1]])]
        if rich and rnd.random() < 0.85:
            cands = rich
        if not cands:
            continue
        lst, k = rnd.choice(cands)
        chunk = lst[k]
        # {% block %} tags inside the partial (a name may be used once per template)
        holder = [chunk]
        used = set(_block_names(holder))
        spots = [(l2, k2, b2) for l2, k2, b2 in _positions(holder)
                 if l2[k2]["t"] not in ("block", "super", "include", "fill") and not _has(l2[k2], {"defref"})]
        inside = [s for s in spots if s[2]]
        picks = [rnd.choice(inside) for _w in range(rnd.randint(1, 3))] if inside else []
        picks += [s for s in spots if rnd.random() < 0.15]
        fresh = 0
        done = set()
        for l2, k2, _b in picks:
            if (id(l2), k2) in done:
                continue
            done.add((id(l2), k2))
            pool = [n for n in (names if names and rnd.random() < 0.8 else every) if n not in used]
            if pool and rnd.random() < 0.9:
                bn = rnd.choice(pool)
            else:
                fresh += 1
                bn = f"{label}p{made}f{fresh}"
            used.add(bn)
            l2[k2] = {"t": "block", "name": bn, "a": [l2[k2]]}
        made += 1
        name = f"vf_{q['id']}_{label}_part{made}.html"
        part = {"name": name, "a": holder}
        lst[k] = {"t": "include", "name": name}
        tpls.append(part)
        by_name[name] = part
        # the new partial belongs to the family that includes it (later chunks may be taken out of it)
        roots.append(part["a"])
    q["partials"] = made
    return q


def _partial_block_in_body(p) -> int:
    """1 if a partial of the program holds a {% block %} inside the body of a component tag."""
    def walk(nodes, inside=False):
        for n in nodes:
            if n["t"] == "block" and inside:
                return True
            for k in ("a", "b"):
                if isinstance(n.get(k), list) and walk(n[k], inside or n["t"] == "comp"):
                    return True
        return False
    return int(any(walk(t["a"]) for t in p["tpls"] if "_part" in t["name"]))


def _real_family(prog):
    """Render a family program for real: templates go to the locmem loader."""
    from django.template import Context, Template, engines
    tag = "c_" + prog["mode"]
    loads = "{% load lib_" + prog["mode"] + " vf_tags %}"
    P.reset_library_state()
    P.registry(prog["mode"])
    store = boot.locmem()
    for t in prog["tpls"]:
        store[t["name"]] = loads + fam_src(t["a"], tag)
    engines["django"].engine.template_loaders[0].reset() if hasattr(engines["django"].engine.template_loaders[0], "reset") else None
    extra = {}
    for i, c in enumerate(prog["comps"], start=1):
        body = fam_src(c["tpl"], tag)
        extra[i] = {"template": ('{% extends "' + c["ext"] + '" %}' if c.get("ext") else "") + loads + body}
    P.install(prog, extra=extra)
    try:
        src = ('{% extends "' + prog["pext"] + '" %}' if prog.get("pext") else "") + loads + fam_src(prog["page"], tag)
        html = Template(src).render(Context(P.page_context(prog)))
    except Exception as e:  # noqa: BLE001
        return {"err": type(e).__name__, "msg": str(e)[:300], "out": [], "junk": ""}
    finally:
        for t in prog["tpls"]:
            store.pop(t["name"], None)
        P.reset_library_state()
    toks, junk = P.tokens(html)
    return {"err": "", "out": toks, "junk": junk}


def finding_key(p, e, o, m) -> Optional[str]:
    """Named shapes of the known block-stack defect (the BlockContext is shared between the templates of
    different component instances through the render context):
    - an extends-based component instance rendered inside the output of another extends-based instance
      (django mode), or
    - the same {% block %} names used in the page's family and in a component's family."""
    if m["what"] not in ("tokens", "hang", "unexpected-error", "error-class"):
        return None
    ext = {i + 1 for i, c in enumerate(p["comps"]) if c.get("ext")}
    insts = [(tuple(path), c) for path, c in e["insts"] if c in ext]
    # the default alias of a fill used inside a {% block %} override that sits in that fill (open finding)
    if m["what"] in ("tokens", "hang") and _defref_in_block(p):
        return "default-alias-inside-block-override:default-content-not-rendered"
    # (the three shapes below were repaired - KNOWN_FINDINGS.txt lists them as `fixed:` - so these keys excuse
    #  nothing any more; they only label a violation should the defect return)
    if p.get("block_names_collide"):
        return "same-block-names-in-two-families:blocks-of-other-template"
    # a {% block %} written inside a {% slot %} (default content) or inside the body of a component tag
    # (a {% fill %} or the implicit body) is rendered through a separate Template / context copy that does
    # not see the family's block overrides
    if _block_in_slot_or_comp_body(p):
        # ... and what goes wrong is that a block prints the content of the wrong level of its family (base instead
        # of override or the reverse, once or every time): a token difference is excused only if every token that
        # differs can come from the content of a {% block %} of the program
        if m["what"] == "tokens" and not _block_content_difference(p, e, o):
            return None
        return "block-inside-slot-or-component-body:not-resolved-in-its-family"
    # django mode: the BlockContext of the surrounding render is shared into every component template, so an
    # extends-based component rendered together with another family (the page's, or another extends-based
    # component instance) can get blocks of the other family
    if p["mode"] == "django" and insts and (p.get("pext") or len(insts) > 1):
        return "django-extends-component-with-other-family:blocks-of-other-template"
    return None


def _defref_in_block(p) -> bool:
    def walk(nodes, inblock=False):
        for n in nodes:
            if n["t"] == "defref" and inblock:
                return True
            for k in ("a", "b"):
                if isinstance(n.get(k), list) and walk(n[k], inblock or n["t"] == "block"):
                    return True
        return False
    return walk(p["page"]) or any(walk(c["tpl"]) for c in p["comps"]) or any(walk(t["a"]) for t in p["tpls"])


def _atom(tok: str) -> str:
    return tok.split("=", 1)[0] + "=" if "=" in tok else tok


def _block_content_difference(p, e, o) -> bool:
    """True if the multiset difference between expected and observed tokens consists only of tokens that the
    content of some {% block %} node (base or override) can print; block contents holding component / slot /
    default-alias / include nodes can print anything (no narrowing then)."""
    import collections
    atoms = set()
    wild = [False]

    def content(nodes):
        for n in nodes:
            t = n["t"]
            if t == "text":
                atoms.add(n["id"])
            elif t == "var":
                atoms.add(n["x"] + "=")
            elif t == "fld":
                atoms.add(n["x"] + "." + n["f"] + "=")
            elif t == "isf":
                atoms.add("?" + n["s"] + "=")
            elif t in ("comp", "slot", "defref", "include", "fill"):
                wild[0] = True
            for k in ("a", "b"):
                if isinstance(n.get(k), list):
                    content(n[k])

    def walk(nodes):
        for n in nodes:
            if n["t"] == "block":
                content(n["a"])
            for k in ("a", "b"):
                if isinstance(n.get(k), list):
                    walk(n[k])
    walk(p["page"])
    for c in p["comps"]:
        walk(c["tpl"])
    for t in p["tpls"]:
        walk(t["a"])
    if wild[0]:
        return True
    ce, co = collections.Counter(e["out"]), collections.Counter(o.get("out") or [])
    diff = list((ce - co).elements()) + list((co - ce).elements())
    return all(_atom(t) in atoms for t in diff)


def _block_in_slot_or_comp_body(p) -> bool:
    def walk(nodes, inside=False):
        for n in nodes:
            if n["t"] == "block" and inside:
                return True
            for k in ("a", "b"):
                if isinstance(n.get(k), list) and walk(n[k], inside or n["t"] in ("comp", "slot")):
                    return True
        return False
    return walk(p["page"]) or any(walk(c["tpl"]) for c in p["comps"]) or any(walk(t["a"]) for t in p["tpls"])


# ------------------------------------------------------------------ (a) stock differential
OPAQUE = ['{% filter upper %}a{{ x }}{% endfilter %}', '{% autoescape off %}{{ h }}{% endautoescape %}{{ h }}',
          '{% firstof nope y "z" %}', '{% for i in xs %}{% cycle "o" "e" %}{% endfor %}', "{% vf_echo x 'q' k=y %}",
          '{% with w="a b" v=\'c"d\' %}[{{ w }}{{ v }}]{% endwith %}', "{% if x == 'px' and y %}T{% else %}F{% endif %}",
          '{% for i in xs reversed %}{{ forloop.counter0 }}{{ i }}{% empty %}E{% endfor %}', '{{ x|default:"d"|upper }}',
          "{% comment %}{% if %}{% endcomment %}", "{% verbatim %}{{ x }}{% endverbatim %}", "{# c #}", "{% templatetag openblock %}",
          "{% nosuchtag %}", "{% if x %}", "{% endif %}", "{{ x|nofilter }}", "{% include 'missing.html' %}", "{{ 1|add:x }}",
          "{% with %}{% endwith %}", '{% block dup %}{% endblock %}{% block dup %}{% endblock %}']


def stock_family(rnd: random.Random, k: int) -> Dict[str, Any]:
    """A stock-Django template family (no components) as sources + the stock fragment as a program."""
    g = P.Gen(rnd, depth=3, width=3, collide=True)
    g.n = 0
    g.tid = 0
    g.default_slot = {}
    page = g.nodes(lex=0, depth=3, in_fill=None)
    p = {"id": k, "mode": "django", "devs": [], "dyn": False, "pyctx": False, "comps": [], "page": page,
         "ctx": [["x", P.S("px")], ["y", P.S("py")], ["xs", P.L(["i1", "i2"])], ["sn", P.L(["a", "b"])], ["on", P.S("1")],
                 ["off", P.S("")], ["sa", P.S("a")], ["one", P.L(["o1"])], ["h", P.S("<b>&")]]}
    q = family_program(rnd, p)
    q["opaque"] = [rnd.choice(OPAQUE) for _ in range(rnd.randint(0, 2))]
    q["newline"] = rnd.random() < 0.25
    return q


def _render_with(src: str, ctxd: Dict[str, Any], stock: bool, debug: bool):
    import django.template.base as tb
    from django.template import Context, Template, engines
    eng = engines["django"].engine
    saved = (tb.Template.compile_nodelist, tb.Template.render, tb.tag_re, eng.debug)
    if stock:
        tb.Template.compile_nodelist = boot.STOCK["compile_nodelist"]
        tb.Template.render = boot.STOCK["render"]
        tb.tag_re = boot.STOCK["tag_re"]
    eng.debug = debug
    ctx = Context(dict(ctxd))
    try:
        t = Template(src)
        out = t.render(ctx)
        res = {"out": out, "err": "", "msg": ""}
    except Exception as e:  # noqa: BLE001
        res = {"out": None, "err": type(e).__name__, "msg": str(e)[:300]}
    finally:
        tb.Template.compile_nodelist, tb.Template.render, tb.tag_re, eng.debug = saved
    res["ctx"] = [sorted((k, repr(v)) for k, v in d.items()) for d in ctx.dicts]
    res["rc"] = len(ctx.render_context.dicts)
    return res


def _stock_case(q):
    from django.template import engines
    eng = engines["django"].engine
    if "vf_stock" not in eng.template_libraries:
        from django.template.library import Library
        lib = Library()

        @lib.simple_tag
        def vf_echo(*a, **kw):
            return "|".join(map(str, a)) + "|" + ",".join(f"{k}={v}" for k, v in sorted(kw.items()))
        eng.template_libraries["vf_stock"] = lib
    store = boot.locmem()
    sep = "\n" if q["newline"] else ""
    for t in q["tpls"]:
        store[t["name"]] = "{% load vf_stock %}" + fam_src(t["a"], "c_x")
    src = ('{% extends "' + q["pext"] + '" %}' if q.get("pext") else "") + "{% load vf_stock %}" + \
        fam_src(q["page"], "c_x") + sep + sep.join(q["opaque"])
    ctxd = P.page_context(q)
    out = {}
    try:
        for debug in (False, True):
            out[f"patched{int(debug)}"] = _render_with(src, ctxd, False, debug)
            out[f"stock{int(debug)}"] = _render_with(src, ctxd, True, debug)
    finally:
        for t in q["tpls"]:
            store.pop(t["name"], None)
    out["src"] = src
    return out


def body(chk: Check, *, n_stock: int, n_fam: int, deep: int, n_part: int = 0) -> None:
    boot.locmem()
    rnd = random.Random(chk.seed * 1000003 + 10)
    # ---- (a) differential patched vs stock vs specification
    qs = [stock_family(rnd, i + 1) for i in range(n_stock)]
    exp = djc.oracle(qs, module="Eval_Fam")
    chk.add("states", djc.oracle.last_states)
    res = pmap(_stock_case, qs, workers=12)
    for q, r in zip(qs, res):
        chk.count(["stock", q["page"], q["tpls"], q["opaque"], q["newline"]])
        if r.get("hang"):
            chk.violation({"label": "stock-differential", "json": q}, {"what": "hang"})
            continue
        for debug in (0, 1):
            a, b = r[f"patched{debug}"], r[f"stock{debug}"]
            if (a["out"], a["err"], a["msg"], a["ctx"], a["rc"]) != (b["out"], b["err"], b["msg"], b["ctx"], b["rc"]):
                chk.violation({"label": "stock-differential", "debug": bool(debug), "source": r["src"], "json": q},
                              {"what": "patched-differs-from-stock",
                               "patched": {k: a[k] for k in ("out", "err", "msg", "rc")},
                               "stock": {k: b[k] for k in ("out", "err", "msg", "rc")}})
                break
        else:
            # third opinion: the stock fragment of the reference semantics (only when nothing opaque follows)
            e = exp[q["id"]]
            if not q["opaque"] and not e["zone"] and not r["stock0"]["err"]:
                toks, junk = P.tokens(r["stock0"]["out"])
                if toks != e["out"]:
                    from .core import MachineryError
                    raise MachineryError(f"reference semantics disagrees with STOCK Django on a stock template: {r['src']!r}: "
                                         f"{e['out']} vs {toks}")
    chk.add("stock_templates", len(qs))
    chk.sample({"stock_template": res[0]["src"], "patched_out": res[0]["patched0"]["out"]}, limit=2)
    # ---- (b) inlining law with components
    g = P.Gen(rnd, depth=deep, width=3, collide=False, provide=True, required=0.0)
    fam = []
    for i in range(n_fam):
        p = g.program(10 ** 5 + i, P.MODES[i % 2])
        p["block_names_collide"] = i % 10 == 9
        fam.append(family_program(rnd, p))
    # ... and families with PARTIALS: component tags (with {% block %} tags inside their fills that bear the names of
    # blocks of the including family) written inside included templates, the {% include %} anywhere in a page family,
    # a component's family or a plain template (generated after the batch above: its programs stay what they were)
    for i in range(n_part):
        p = g.program(2 * 10 ** 5 + i, P.MODES[i % 2])
        p["block_names_collide"] = i % 10 == 9
        # (most generated programs end in the KeyError of an inject() without provider and compare no output: here
        #  nearly every inject() gets a default value)
        for c in p["comps"]:
            for d in c["data"]:
                if d["k"] in ("inject", "injkeys") and not d["dflt"] and rnd.random() < 0.9:
                    d["dflt"] = "dflt"
        fam.append(add_partials(rnd, family_program(rnd, p)))
    expf = djc.oracle(fam, module="Eval_Fam")
    chk.add("states", djc.oracle.last_states)
    obs = pmap(_real_family, fam, workers=12)
    real_key = finding_key
    import itertools
    bad = []
    for p, o in zip(fam, obs):
        e = expf[p["id"]]
        if e["zone"]:
            chk.add("zone", 1)
            continue
        chk.count(["family", p["mode"], p["page"], p["comps"], p["tpls"]], nontrivial=bool(p["tpls"]))
        if p.get("partials"):
            chk.add("families_with_partials", 1)
            chk.add("partials_with_block_in_component_body", _partial_block_in_body(p))
        m = djc.mismatch(e, o)
        if m is not None:
            bad.append((p, o, m))
    devs = djc.known_devs(chk)
    subsets = [list(c) for k in range(1, len(devs) + 1) for c in itertools.combinations(devs, k)]
    explained = {}
    if bad and subsets:
        batch = [dict(p, devs=sub, id=i * 100 + si) for i, (p, o, m) in enumerate(bad) for si, sub in enumerate(subsets)]
        r2 = djc.oracle(batch, module="Eval_Fam")
        for i, (p, o, m) in enumerate(bad):
            for si, sub in enumerate(subsets):
                if not r2[i * 100 + si]["zone"] and djc.mismatch(r2[i * 100 + si], o) is None:
                    explained[i] = sub
                    break
    for i, (p, o, m) in enumerate(bad):
        case = {"label": "family", "program": {"mode": p["mode"], "pext": p["pext"], "page": fam_src(p["page"], "c__"),
                                               "comps": [[c.get("ext"), fam_src(c["tpl"], "c__")] for c in p["comps"]],
                                               "tpls": {t["name"]: fam_src(t["a"], "c__") for t in p["tpls"]}}, "json": p}
        if i in explained:
            for d in explained[i]:
                chk.violation(case, m, key="dev:" + d)
        else:
            chk.violation(case, m, key=real_key(p, expf[p["id"]], o, m))
    chk.add("families", len(fam))
    chk.add("traces_validated_against_impl", len(fam) + len(qs))
    if fam:
        p = fam[0]
        chk.sample({"family": {"pext": p["pext"], "page": fam_src(p["page"], "c__"), "tpls": {t["name"]: fam_src(t["a"], "c__") for t in p["tpls"]}},
                    "expected": expf[p["id"]]["out"]}, limit=3)


def run(tier: str) -> int:
    boot.setup()
    chk = Check(PID, tier, "model_checking")
    if tier == "quick":
        body(chk, n_stock=4000, n_fam=4000, deep=3, n_part=800)
    else:
        body(chk, n_stock=20000, n_fam=20000, deep=4, n_part=4000)
    chk.cov["transitions"] = chk.cov.get("states", 0)
    chk.cov["exhaustive"] = False
    chk.cov["rule"] = ("seeded stock templates/families (text, var, if/for/with, include, extends/block/block.super + opaque built-ins, "
                       "engine.debug on/off) rendered by patched and original Template internals; seeded component programs split into "
                       "base+child(+include) families compared with Run(Flat(P)) evaluated by TLC; a further batch with chunks (component tags "
                       "with bodies) moved into included partials that hold blocks named like the including family's blocks, inside "
                       "and beside the component bodies. Distinct by content.")
    chk.assumptions += ["multiline_tags=True (default): sources with a newline between an opening delimiter and its closer are a documented "
                        "deviation and are not generated; block tags have balanced quotes and no quoted closer",
                        "templates are served by the locmem loader"]
    return chk.finish()


def selftest(tier: str) -> int:
    """In-process mutation probes (never /repo)."""
    from contextlib import contextmanager
    from .core import run_probes
    boot.setup()
    import django.template.base as tb
    import django_components.util.django_monkeypatch as mp
    import django_components.component as dc

    @contextmanager
    def patch(obj, name, new):
        old = getattr(obj, name)
        setattr(obj, name, new)
        try:
            yield
        finally:
            setattr(obj, name, old)

    def render_context_never_isolated():
        # the patched Template.render forgets the "not a component" default
        cur = tb.Template.render

        def render(self, context, *a, **kw):
            had = hasattr(self, "_djc_is_component_nested")
            if not had:
                self._djc_is_component_nested = True
            try:
                return cur(self, context, *a, **kw)
            finally:
                if not had:
                    del self._djc_is_component_nested
        return patch(tb.Template, "render", render)

    def render_leaves_a_render_context_layer():
        cur = tb.Template.render

        def render(self, context, *a, **kw):
            out = cur(self, context, *a, **kw)
            context.render_context.push()
            return out
        return patch(tb.Template, "render", render)

    def lexer_drops_whitespace_only_text():
        orig = mp.parse_template

        def pt(src):
            return [t for t in orig(src) if not (t.token_type.name == "TEXT" and not t.contents.strip())]
        return patch(mp, "parse_template", pt)

    def fills_remember_closest_block_context_layer():
        # fills resolve their {% block %} tags against the closest render-context layer that HAS block overrides
        # instead of the layer of the template they are written in (walks through the layer of an {% include %})
        orig = dc.resolve_fills

        def rf(context, nodelist, component_name):
            slots = orig(context, nodelist, component_name)
            layers = context.render_context.dicts
            idx = next((k for k in range(len(layers) - 1, -1, -1) if "block_context" in layers[k]), None)
            for s in slots.values():
                s._djc_render_ctx_layer = layers[-1 if idx is None else idx]
            return slots
        return patch(dc, "resolve_fills", rf)

    # (a probe forcing component / fill templates to an isolated render context lands entirely inside the
    # shape-keyed known findings about blocks in component bodies and is therefore not listed)
    return run_probes(PID, [("render-context-never-isolated", render_context_never_isolated),
                            ("render-leaves-a-render-context-layer", render_leaves_a_render_context_layer),
                            ("lexer-drops-whitespace-only-text", lexer_drops_whitespace_only_text),
                            ("fills-remember-closest-block-context-layer", fills_remember_closest_block_context_layer)],
                      lambda chk: body(chk, n_stock=1200, n_fam=1200, deep=3, n_part=400))


def replay(path: str) -> int:
    boot.setup()
    boot.locmem()
    d = json.load(open(path))
    c = d["case"]
    if c["label"] == "family":
        p = c["json"]
        m = djc.mismatch(djc.oracle([p], module="Eval_Fam")[p["id"]], _real_family(p))
        print(json.dumps(m, indent=1, default=repr)[:3000])
        return 1 if m else 0
    r = _stock_case(c["json"])
    a, b = r["patched0"], r["stock0"]
    print(json.dumps({"patched": a, "stock": b}, indent=1, default=repr)[:3000])
    return 1 if (a["out"], a["err"], a["msg"]) != (b["out"], b["err"], b["msg"]) else 0
