"""Operation traces of the provide / inject reference counting, recorded from the REAL functions.

code -> spec binding for specs/ProvideRefs.tla (general refcount machine; used by C05, C06, C07):
every call of set_provided_context_var / managed_provide_cache (entry, exit) /
register_provide_reference / unregister_provide_reference / get_injected_context_var made by real
renders is logged at its linearization point - for the four critical sections inside the library's own
`_provide_lock` (an RLock), after the state change - together with its arguments (for a register: the provide ids the context
shows), its result and the full projected state of the three registries.  No source hooks: the
module-level names are wrapped in the three modules that bind them.  Nested calls (the unregister
inside the exit block of managed_provide_cache) are not logged separately: the exit is ONE action of
the specification.  specs/Trace_ProvideRefs.tla validates the traces in one TLC batch.

Clauses (see Trace_ProvideRefs.tla): HARD clauses contradict C05 / C06 directly (a registry function
raised; inject under a visible provider found no data; registries not empty at the end of a top-level
render; references to data that is no longer cached) and are reported as violations; SOFT clauses
(the implementation-shaped state differs from the specification's transformer although nothing
observable went wrong; an environment assumption of the specification did not hold) are counted as
`model_drift` in the evidence and never alarm.
"""
from __future__ import annotations

import threading
from contextlib import contextmanager
from typing import Any, Dict, List, Optional

_state: Dict[str, Any] = {"installed": False, "available": False, "events": None, "nest": None, "multi": False}
_tls = threading.local()


def _snapshot(pp) -> Dict[str, Any]:
    # (base-class reads: under C07's cooperative scheduler the registries are traced subclasses whose
    #  operations are yield points - the snapshot must not be one)
    return {"cache": sorted(dict.keys(pp.provide_cache)),
            "refs": {k: sorted(set.__iter__(v)) for k, v in dict.items(pp.provide_references)},
            "all": sorted(set.__iter__(pp.all_reference_ids))}


def install() -> bool:
    """Wrap the provide functions (idempotent).  False if the library no longer has these names."""
    if _state["installed"]:
        return _state["available"]
    _state["installed"] = True
    try:
        import django_components.component as dc
        import django_components.perfutil.provide as pp
        import django_components.provide as dp
        from django_components.context import _INJECT_CONTEXT_KEY_PREFIX as PREFIX
        o_reg, o_unreg, o_mpc = pp.register_provide_reference, pp.unregister_provide_reference, pp.managed_provide_cache
        o_set, o_get = dp.set_provided_context_var, dp.get_injected_context_var
        assert dc.register_provide_reference is o_reg and dc.unregister_provide_reference is o_unreg
        assert dp.managed_provide_cache is o_mpc and dp.register_provide_reference is o_reg
        assert dc.get_injected_context_var is o_get
    except Exception:  # noqa: BLE001 - refactored library: the sub-check is switched off, never an alarm
        return False

    def log(ev: Dict[str, Any]) -> None:
        evs = _state["events"]
        if evs is None:
            return
        try:
            ev["t"] = threading.get_ident()
            # set / inject are not critical sections: with several threads their snapshot could show the middle of
            # another thread's critical section, so none is taken (the trace specification then follows the model)
            ev["snap"] = not (_state["multi"] and ev["op"] in ("set", "inject"))
            ev["post"] = _snapshot(pp)
            evs.append(ev)
        except Exception:  # noqa: BLE001 - the recorder must never disturb the render: the trace is dropped
            _state["broken"] = True

    def nested() -> bool:
        return getattr(_tls, "depth", 0) > 0

    @contextmanager
    def frame():
        _tls.depth = getattr(_tls, "depth", 0) + 1
        try:
            yield
        finally:
            _tls.depth -= 1

    @contextmanager
    def section():
        """The library's own lock, if it is (still) a re-entrant one."""
        lk = getattr(pp, "_provide_lock", None)
        if lk is not None and type(lk).__name__ in ("RLock", "_RLock", "CoopRLock") and hasattr(lk, "__enter__"):
            with lk:
                yield
        else:
            yield

    def arg(a, kw, i, name, default=""):
        try:
            return a[i] if len(a) > i else kw.get(name, default)
        except Exception:  # noqa: BLE001
            return default

    def visible(context) -> List[str]:
        try:
            return sorted({v for k, v in context.flatten().items() if isinstance(k, str) and k.startswith(PREFIX)
                           and isinstance(v, str)})
        except Exception:  # noqa: BLE001
            _state["broken"] = True
            return []

    # (wrappers pass their arguments through untouched: a changed signature must not fail in the recorder)
    def register(*a, **kw):
        if _state["events"] is None or nested():
            return o_reg(*a, **kw)
        with section():
            ev = {"op": "reg", "id": str(arg(a, kw, 1, "reference_id")), "ps": visible(arg(a, kw, 0, "context", None)), "raised": ""}
            try:
                with frame():
                    return o_reg(*a, **kw)
            except BaseException as e:  # noqa: BLE001
                ev["raised"] = type(e).__name__
                raise
            finally:
                log(ev)

    def unregister(*a, **kw):
        if _state["events"] is None or nested():
            return o_unreg(*a, **kw)
        with section():
            ev = {"op": "unreg", "id": str(arg(a, kw, 0, "reference_id")), "ps": [], "raised": ""}
            try:
                with frame():
                    return o_unreg(*a, **kw)
            except BaseException as e:  # noqa: BLE001
                ev["raised"] = type(e).__name__
                raise
            finally:
                log(ev)

    @contextmanager
    def managed(*a, **kw):
        if _state["events"] is None:
            with o_mpc(*a, **kw):
                yield
            return
        provide_id = str(arg(a, kw, 0, "provide_id"))
        cm = o_mpc(*a, **kw)
        with section():
            ev = {"op": "enter", "id": provide_id, "ps": [], "raised": ""}
            try:
                with frame():
                    cm.__enter__()
            except BaseException as e:  # noqa: BLE001
                ev["raised"] = type(e).__name__
                raise
            finally:
                log(ev)
        try:
            yield
        except BaseException as body_exc:  # noqa: BLE001
            with section():
                ev = {"op": "exit", "id": provide_id, "ps": [], "raised": "", "body_failed": True}
                try:
                    with frame():
                        swallowed = cm.__exit__(type(body_exc), body_exc, body_exc.__traceback__)
                except BaseException as e:  # noqa: BLE001
                    if e is not body_exc:
                        ev["raised"] = type(e).__name__
                    raise
                finally:
                    log(ev)
            if not swallowed:
                raise
        else:
            with section():
                ev = {"op": "exit", "id": provide_id, "ps": [], "raised": "", "body_failed": False}
                try:
                    with frame():
                        cm.__exit__(None, None, None)
                except BaseException as e:  # noqa: BLE001
                    ev["raised"] = type(e).__name__
                    raise
                finally:
                    log(ev)

    # set_provided_context_var / get_injected_context_var are not critical sections of the library (one dict
    # write / read): the wrappers do not take the lock either, the event is logged right after the access
    def set_provided(*a, **kw):
        if _state["events"] is None:
            return o_set(*a, **kw)
        ev = {"op": "set", "id": "", "ps": [], "raised": ""}
        try:
            pid = o_set(*a, **kw)
            ev["id"] = pid if isinstance(pid, str) else ""
            return pid
        except BaseException as e:  # noqa: BLE001
            ev["raised"] = type(e).__name__
            raise
        finally:
            if ev["id"] or ev["raised"]:
                log(ev)

    def get_injected(*a, **kw):
        if _state["events"] is None:
            return o_get(*a, **kw)
        p = None
        try:
            context, key = arg(a, kw, 1, "context", None), arg(a, kw, 2, "key", None)
            p = context.get(PREFIX + key) if isinstance(key, str) and context is not None else None
        except Exception:  # noqa: BLE001
            p = None
        if not isinstance(p, str):
            return o_get(*a, **kw)     # no provider visible: nothing to bind
        ev = {"op": "inject", "id": p, "ps": [], "raised": "", "found": True}
        try:
            return o_get(*a, **kw)
        except BaseException as e:  # noqa: BLE001
            ev["found"] = False
            ev["raised"] = type(e).__name__
            raise
        finally:
            log(ev)

    pp.register_provide_reference = register
    pp.unregister_provide_reference = unregister
    pp.managed_provide_cache = managed
    dc.register_provide_reference = register
    dc.unregister_provide_reference = unregister
    dp.register_provide_reference = register
    dp.managed_provide_cache = managed
    dp.set_provided_context_var = set_provided
    dp.get_injected_context_var = get_injected
    dc.get_injected_context_var = get_injected
    _state["available"] = True
    _state["pp"] = pp
    return True


def start(multi: bool = False) -> bool:
    """Begin recording (events are appended until `stop`).  multi: several threads will call the library."""
    if not install():
        return False
    _state["multi"] = multi
    _state["broken"] = False
    _state["events"] = []
    return True


def snapshot_now() -> Dict[str, Any]:
    return _snapshot(_state["pp"])


def mark_end(failed: bool) -> None:
    """A top-level render has returned / raised: the registries must be empty now."""
    evs = _state["events"]
    if evs is None:
        return
    evs.append({"op": "end", "id": "", "ps": [], "raised": "", "failed": bool(failed), "snap": True,
                "t": threading.get_ident(), "post": _snapshot(_state["pp"])})


def stop() -> Optional[List[Dict[str, Any]]]:
    """The recorded events; None if the recorder could not observe the library faithfully (trace not bound)."""
    evs, _state["events"] = _state["events"], None
    return None if _state.get("broken") else evs


# ---- projection for TLC ---------------------------------------------------------------------------
MAXP, MAXR = 24, 60       # per trace; longer traces are cut at the last "end" inside the bound


def project(events: List[Dict[str, Any]], pre: Optional[Dict[str, Any]] = None) -> Optional[Dict[str, Any]]:
    """Rename ids (providers p1.., other referrers r1.. in order of first appearance) and flatten the
    state for Trace_ProvideRefs.  `pre`: registry state when recording started (must be empty for the
    trace to be bound; otherwise None is returned and the caller counts it)."""
    if events is None or (pre and (pre["cache"] or pre["refs"] or pre["all"])):
        return None
    pids: Dict[str, str] = {}
    rids: Dict[str, str] = {}
    for e in events:
        if e["op"] == "set" and e["id"]:
            pids.setdefault(e["id"], f"p{len(pids) + 1}")

    def nm(x: str) -> str:
        if x in pids:
            return pids[x]
        return rids.setdefault(x, f"r{len(rids) + 1}")

    out = []
    for e in events:
        post = e["post"]
        # provide ids that were never `set` inside this trace cannot be named as providers: unbound trace
        ev = {"op": e["op"], "id": nm(e["id"]) if e["id"] else "", "ps": [nm(x) for x in e["ps"]],
              "raised": e["raised"], "found": bool(e.get("found", True)), "failed": bool(e.get("failed", False)),
              "snap": bool(e.get("snap", True)),
              "cache": [nm(x) for x in post["cache"]],
              "rkeys": [nm(k) for k in post["refs"]],
              "rvals": [[nm(x) for x in post["refs"][k]] for k in post["refs"]],
              "all": [nm(x) for x in post["all"]]}
        out.append(ev)
        if len(pids) > MAXP or len(rids) > MAXR:
            return {"events": out, "np": len(pids), "nr": len(rids), "too_big": True}
    return {"events": out, "np": len(pids), "nr": len(rids), "too_big": False}
