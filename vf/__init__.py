"""Harness binding the TLA+ specifications in /verif/specs to django-components in /repo."""
