"""Component programs: the abstract syntax shared by C01/C03/C04/C05/C06/C10/C14,
a seeded random generator, and the materialiser that turns an abstract program into
real Component classes + Django templates in a private registry (one per context mode).

The JSON form of a program is exactly what specs/DjcSemantics.tla evaluates.
"""
from __future__ import annotations

import random
import re
from typing import Any, Dict, List, Optional, Tuple

MODES = ("django", "isolated")

# ------------------------------------------------------------------ expressions / nodes


def C(v: str) -> Dict[str, Any]:
    return {"k": "c", "v": v, "x": ""}


def V(x: str) -> Dict[str, Any]:
    return {"k": "v", "x": x, "v": ""}


def S(v: str) -> Dict[str, Any]:
    return {"k": "s", "v": v}


def L(v: List[str]) -> Dict[str, Any]:
    return {"k": "l", "v": list(v)}


def text(i) -> Dict[str, Any]:
    return {"t": "text", "id": f"t{i}"}


def no_assets() -> Dict[str, Any]:
    return {"js": "", "css": "", "mjs": [], "mcss": [], "base": 0, "ext": True}


FALSY_DEFAULTS = ["f:zero", "f:empty", "f:false", "f:dict", "f:list"]
_FALSY = {"f:zero": 0, "f:empty": "", "f:false": False, "f:dict": {}, "f:list": []}


def datadef(x, k, v="", a="", dflt="") -> Dict[str, Any]:
    return {"x": x, "k": k, "v": v, "a": a, "dflt": dflt}


# ------------------------------------------------------------------ generator
class Gen:
    """Seeded generator of well-formed component programs.

    Well-formed = inside the quantifier of C01/C03/C05 and outside the zones listed in
    DESIGN.md: no {% slot %} / is_filled lexically at page level, no text beside explicit
    fills, stratified call graph (template i only calls components j > i)."""

    SCALARS = ["x", "y", "z"]
    SLOTS = ["a", "b"]

    def __init__(self, rnd: random.Random, *, ncomps=(1, 4), depth=3, width=3, provide=False,
                 elems=False, collide=True, required=0.04, loops=True, withs=True, dyn_fill=True,
                 isf=True, aliases=True, hooks=0.0, alias_collide=False, assigns=0.0):
        self.r = rnd
        self.ncomps = ncomps
        self.depth = depth
        self.width = width
        self.provide = provide
        self.elems = elems
        self.collide = collide
        self.required = required
        self.loops = loops
        self.withs = withs
        self.dyn_fill = dyn_fill
        self.isf = isf
        self.aliases = aliases
        self.hooks = hooks
        self.alias_collide = alias_collide
        self.assigns = assigns        # C03: probability of assignment tags ({% firstof .. as v %}) in a body with fills
        self.tid = 0
        self.eid = 0

    def _t(self):
        self.tid += 1
        return text(self.tid)

    def program(self, pid: int, mode: str) -> Dict[str, Any]:
        r = self.r
        self.tid = 0
        self.eid = 0
        n = r.randint(*self.ncomps)
        self.n = n
        # which slot name (if any) is flagged default in each component
        self.default_slot = {i: r.choice([None, "a", "b"]) for i in range(1, n + 1)}
        comps = []
        for i in range(1, n + 1):
            data = []
            for x in self.SCALARS:
                k = r.random()
                if k < 0.35:
                    data.append(datadef(x, "const", v=f"c{i}{x}"))
                elif k < 0.65:
                    data.append(datadef(x, "kwarg", a=x))
            if r.random() < 0.3:
                data.append(datadef("ys", "clist", v=f"c{i}ys"))
            if self.provide:
                for key in ("p", "q"):
                    if r.random() < 0.45:
                        kind = r.choice(["inject", "inject", "injkeys"])
                        dflt = r.choice(["", "", "dflt"])
                        # falsy defaults are defaults too: inject(key, 0 / "" / False / {} / [])
                        if kind == "inject" and dflt == "dflt" and r.random() < 0.5:
                            dflt = r.choice(FALSY_DEFAULTS)
                        data.append(datadef("inj_" + key, kind, a=key, dflt=dflt))
            if self.elems:
                data.append(datadef("cid", "id"))
                data.append(datadef("me", "self"))
                if r.random() < 0.08:
                    data.append(datadef("_rng", "seedrng"))
            comps.append({"data": data, "tpl": None, "assets": no_assets()})
        if self.hooks:
            for i in range(1, n + 1):
                if r.random() < self.hooks:
                    comps[i - 1]["hook"] = {"bx": r.choice(["", "hb", "hb", "x"] if self.collide else ["", "hb"]), "bv": f"B{i}",
                                            "after": r.choice(["none", "same", "wrap", "wrap", "replace"])}
                else:
                    comps[i - 1]["hook"] = {"bx": "", "bv": "", "after": "none"}
        for i in range(n, 0, -1):
            comps[i - 1]["tpl"] = self.nodes(lex=i, depth=self.depth, in_fill=None, top=True)
            if self.elems:
                comps[i - 1]["tpl"].insert(0, {"t": "var", "x": "cid"})
                if r.random() < 0.5:
                    comps[i - 1]["tpl"].append({"t": "fld", "x": "me", "f": "id"})
        ctx = [["x", S("px")], ["y", S("py")], ["xs", L(["i1", "i2"])], ["sn", L(["a", "b"])],
               ["on", S("1")], ["off", S("")], ["sa", S("a")], ["one", L(["o1"])], ["fl", L(["", "f1", ""])]]
        page = self.nodes(lex=0, depth=self.depth, in_fill=None, top=True)
        if not any(self._has_comp(nd) for nd in page):
            page.append(self.comp(lex=0, depth=self.depth, in_fill=None))
        out = {"id": pid, "mode": mode, "devs": [], "dyn": False, "pyctx": False, "ctx": ctx, "comps": comps, "page": page}
        if self.alias_collide:
            out["scf"] = True
        return out

    def _has_comp(self, nd) -> bool:
        if nd["t"] == "comp":
            return True
        return any(self._has_comp(c) for k in ("a", "b") for c in nd.get(k, []) if isinstance(c, dict))

    # names ------------------------------------------------------------
    def scalar(self) -> str:
        return self.r.choice(self.SCALARS)

    def expr(self):
        r = self.r
        if r.random() < 0.5:
            return C(f"k{r.randint(1, 9)}")
        return V(r.choice(self.SCALARS + ["i", "w"]))

    # node lists -------------------------------------------------------
    def nodes(self, lex: int, depth: int, in_fill: Optional[Dict[str, str]], top=False) -> List[Dict[str, Any]]:
        r = self.r
        k = r.randint(1, self.width)
        out = []
        for _ in range(k):
            out.append(self.node(lex, depth, in_fill))
        return out

    def node(self, lex: int, depth: int, in_fill: Optional[Dict[str, str]]) -> Dict[str, Any]:
        r = self.r
        choices = ["text", "text", "var", "var"]
        if depth > 0:
            choices += ["if"]
            if self.loops:
                choices += ["for"]
            if self.withs:
                choices += ["with"]
            if lex < self.n:
                choices += ["comp", "comp", "comp"]
            if lex > 0:
                choices += ["slot", "slot", "slot"]
            if self.provide:
                choices += ["provide", "provide"]
            if self.elems:
                choices += ["elem", "elem"]
        if lex > 0 and self.isf:
            choices += ["isf"]
        if in_fill:
            if in_fill.get("fv"):
                choices += ["defref", "defref"]
            if in_fill.get("dv"):
                choices += ["sdata", "sdata"]
        t = r.choice(choices)
        if t == "text":
            return self._t()
        if t == "var":
            x = r.choice(self.SCALARS + (["i", "w"] if r.random() < 0.5 else []) + (["inj_p.f", "inj_q.g"] if self.provide else [])
                         + (["hb", "hb"] if self.hooks else []) + (["v", "v", "v"] if self.assigns else []))
            if "." in x:
                a, f = x.split(".")
                return {"t": "fld", "x": a, "f": f}
            if r.random() < 0.08 and self.loops:
                return {"t": "fld", "x": "forloop", "f": "counter"}
            return {"t": "var", "x": x}
        if t == "isf":
            return {"t": "isf", "s": r.choice(self.SLOTS + ["default"])}
        if t == "defref":
            return {"t": "defref", "x": in_fill["fv"]}
        if t == "sdata":
            return {"t": "fld", "x": in_fill["dv"], "f": r.choice(["k", "m"])}
        if t == "if":
            return {"t": "if", "x": r.choice(["on", "off"] + self.SCALARS),
                    "a": self.nodes(lex, depth - 1, in_fill), "b": self.nodes(lex, depth - 1, in_fill) if r.random() < 0.5 else []}
        if t == "for":
            lv = r.choice(["i", "i", "x"]) if self.collide else "i"
            return {"t": "for", "x": lv, "xs": r.choice(["xs", "xs", "ys", "fl"]), "a": self.nodes(lex, depth - 1, in_fill)}
        if t == "with":
            wv = r.choice(["w", "w", "x", "y"]) if self.collide else "w"
            return {"t": "with", "x": wv, "e": self.expr(), "a": self.nodes(lex, depth - 1, in_fill)}
        if t == "slot":
            name = r.choice(self.SLOTS)
            # flags are per tag: most tags of the default slot's name carry the flag, some do not
            d = self.default_slot.get(lex) == name and r.random() < 0.85
            data = [["k", self.expr()]] + ([["m", self.expr()]] if r.random() < 0.5 else []) if r.random() < 0.6 else []
            return {"t": "slot", "n": name, "d": d, "r": r.random() < self.required, "data": data,
                    "a": self.nodes(lex, depth - 1, in_fill) if r.random() < 0.8 else []}
        if t == "provide":
            key = r.choice(["p", "q"])
            kw = [["f", self.expr()]] if key == "p" else [["g", self.expr()], ["h", self.expr()]]
            return {"t": "provide", "key": key, "kw": kw, "a": self.nodes(lex, depth - 1, in_fill)}
        if t == "elem":
            self.eid += 1
            return {"t": "elem", "id": f"e{self.eid}", "a": self.nodes(lex, depth - 1, in_fill) if r.random() < 0.7 else []}
        return self.comp(lex, depth, in_fill)

    def comp(self, lex: int, depth: int, in_fill) -> Dict[str, Any]:
        r = self.r
        c = r.randint(lex + 1, self.n)
        kw = [[x, self.expr()] for x in self.SCALARS if r.random() < 0.4]
        body = r.choice(["none", "impl", "fills", "fills"]) if depth > 0 else "none"
        a: List[Dict[str, Any]] = []
        if body == "impl":
            a = self.nodes(lex, depth - 1, in_fill)
        elif body == "fills":
            a = self.fills(lex, depth - 1, in_fill)
        return {"t": "comp", "c": c, "kw": kw, "only": r.random() < 0.15, "body": body, "a": a}

    def asg(self) -> Dict[str, Any]:
        """Assignment tag {% firstof e "dflt" as x %}: binds x for the rest of the enclosing body.  Names: fresh (v) or
        colliding with page / data / with names (y, z, w) - never a loop variable (x, i, s)."""
        r = self.r
        x = r.choice(["v", "v", "y", "z", "w"]) if self.collide else "v"
        e = V(r.choice(self.SCALARS + ["i", "w", "v"])) if r.random() < 0.8 else C(f"k{r.randint(1, 9)}")
        return {"t": "asg", "x": x, "e": e, "dflt": f"d{r.randint(1, 9)}"}

    def fills(self, lex: int, depth: int, in_fill) -> List[Dict[str, Any]]:
        """Fill-level nodes: fill tags, possibly under if / for / with; with `assigns` also assignment tags
        directly in the body (before / between / after the fills) and directly in a for / with wrapper."""
        out = self._fills0(lex, depth, in_fill)
        if not self.assigns or self.r.random() >= self.assigns:
            return out
        r = self.r
        for f in out:
            if f["t"] in ("for", "with") and r.random() < 0.4:
                f["a"].insert(0, self.asg())
        for _ in range(r.choice([1, 1, 2])):
            # mostly before the first fill (every fill then sees it), sometimes between / after
            out.insert(0 if r.random() < 0.6 else r.randint(0, len(out)), self.asg())
        return out

    def _fills0(self, lex: int, depth: int, in_fill) -> List[Dict[str, Any]]:
        r = self.r
        names = ["a", "b", "default"]
        r.shuffle(names)
        out: List[Dict[str, Any]] = []
        k = r.randint(1, 2)
        if self.dyn_fill and self.loops and r.random() < 0.15:
            # looped, dynamically named fills: {% for s in sn %}{% fill name=s %}
            f = self.fill(lex, depth, V("s"), in_fill)
            return [{"t": "for", "x": "s", "xs": "sn", "a": [f]}]
        for name in names[:k]:
            ne = C(name)
            if self.dyn_fill and name == "a" and r.random() < 0.2:
                ne = V("sa")
            f = self.fill(lex, depth, ne, in_fill)
            w = r.random()
            if w < 0.16:
                f = {"t": "if", "x": r.choice(["on", "on", "off", "x", "i", "i"]), "a": [f], "b": []}
            elif w < 0.24 and self.withs:
                wv = r.choice(["w", "x"]) if self.collide else "w"
                f = {"t": "with", "x": wv, "e": self.expr(), "a": [f]}
            elif w < 0.34 and self.loops:
                # a fill in a one-element loop keeps names unique
                f = {"t": "for", "x": r.choice(["i", "x"]) if self.collide else "i", "xs": "one", "a": [f]}
            out.append(f)
        return out

    def fill(self, lex: int, depth: int, ne, in_fill) -> Dict[str, Any]:
        r = self.r
        dv = "sd" if self.aliases and r.random() < 0.3 else ""
        fv = "df" if self.aliases and r.random() < 0.3 else ""
        if self.alias_collide:
            # alias names that are also names of page / data / loop / with variables: the aliases win inside the fill
            dv = r.choice(["sd", "x", "x", "z"]) if r.random() < 0.5 else ""
            fv = r.choice(["df", "y", "y"]) if r.random() < 0.5 else ""
        inner = {"dv": dv, "fv": fv}
        return {"t": "fill", "ne": ne, "dv": dv, "fv": fv, "a": self.nodes(lex, depth, inner) if r.random() < 0.9 else []}


# ------------------------------------------------------------------ materialiser
def _expr_src(e) -> str:
    return '"%s"' % e["v"] if e["k"] == "c" else e["x"]


def _kw_src(kw) -> str:
    return "".join(f" {k}={_expr_src(e)}" for k, e in kw)


_snap_id = [0]
_SCF = [""]          # "|vf_sc" while the templates of a program with colliding alias names (prog["scf"]) are written


def tpl_src(nodes: List[Dict[str, Any]], tag: str, dyn: bool = False, probes: bool = False) -> str:
    """Django template source of a node list; `tag` is the component start tag of the registry.
    dyn: every component tag goes through the dynamic component (`is=`); probes: every component
    tag is surrounded by {% vf_snap n %} tags that record the caller's Context (C03)."""
    out = []
    def tpl(ns):
        return tpl_src(ns, tag, dyn, probes)
    for n in nodes:
        t = n["t"]
        if t == "text":
            out.append(f"[{n['id']}]")
        elif t == "var":
            out.append("[%s={{ %s%s }}]" % (n["x"], n["x"], _SCF[0]))
        elif t == "fld":
            out.append("[%s.%s={{ %s.%s%s }}]" % (n["x"], n["f"], n["x"], n["f"], _SCF[0]))
        elif t == "isf":
            out.append("[?%s={{ component_vars.is_filled.%s }}]" % (n["s"], n["s"]))
        elif t == "defref":
            # (with colliding alias names the name may be bound to an ordinary value where the alias is shadowed:
            #  the specification's defref prints the default content of a slot reference and nothing otherwise)
            out.append("{{ %s%s }}" % (n["x"], "|vf_ref" if _SCF[0] else ""))
        elif t == "if":
            out.append("{%% if %s %%}%s{%% else %%}%s{%% endif %%}" % (n["x"], tpl(n["a"]), tpl(n["b"])))
        elif t == "for":
            out.append("{%% for %s in %s %%}%s{%% endfor %%}" % (n["x"], n["xs"], tpl(n["a"])))
        elif t == "with":
            out.append("{%% with %s=%s %%}%s{%% endwith %%}" % (n["x"], _expr_src(n["e"]), tpl(n["a"])))
        elif t == "asg":
            out.append('{%% firstof %s "%s" as %s %%}' % (_expr_src(n["e"]), n["dflt"], n["x"]))
        elif t == "slot":
            fl = (" default" if n["d"] else "") + (" required" if n["r"] else "")
            out.append('{%% slot "%s"%s%s %%}%s{%% endslot %%}' % (n["n"], _kw_src(n["data"]), fl, tpl(n["a"])))
        elif t == "fill":
            al = (' data="%s"' % n["dv"] if n["dv"] else "") + (' default="%s"' % n["fv"] if n["fv"] else "")
            out.append("{%% fill name=%s%s %%}%s{%% endfill %%}" % (_expr_src(n["ne"]), al, tpl(n["a"])))
        elif t == "provide":
            out.append('{%% provide "%s"%s %%}%s{%% endprovide %%}' % (n["key"], _kw_src(n["kw"]), tpl(n["a"])))
        elif t == "elem":
            out.append('<div data-e="%s">%s</div>' % (n["id"], tpl(n["a"])))
        elif t == "comp":
            only = " only" if n["only"] else ""
            cname = "%sc%d" % (tag[2] if tag.startswith("c_") else "", n["c"])   # names are unique per mode registry
            name = '"dynamic" is="%s"' % cname if dyn else '"%s"' % cname
            src = '{%% %s %s%s%s %%}%s{%% end%s %%}' % (tag, name, _kw_src(n["kw"]), only, tpl(n["a"]), tag)
            if probes:
                _snap_id[0] += 1
                src = '{%% vf_snap %d "b" %%}%s{%% vf_snap %d "a" %%}' % (_snap_id[0], src, _snap_id[0])
            out.append(src)
        else:
            raise ValueError(t)
    return "".join(out)


_regs: Dict[str, Any] = {}


def registry(mode: str):
    """Private registry + library for a context mode (both modes live in one process)."""
    if mode in _regs:
        return _regs[mode]
    from django.template import engines
    from django.template.library import Library
    from django_components import ComponentFormatter, ComponentRegistry, RegistrySettings
    from django_components.components.dynamic import DynamicComponent
    lib = Library()
    reg = ComponentRegistry(library=lib, settings=RegistrySettings(context_behavior=mode,
                                                                  tag_formatter=ComponentFormatter("c_" + mode)))
    eng = engines["django"].engine
    eng.template_libraries["lib_" + mode] = lib
    if "vf_tags" not in eng.template_libraries:
        eng.template_libraries["vf_tags"] = _vf_tags()
    reg.register("dynamic", DynamicComponent)
    _regs[mode] = (reg, lib)
    return _regs[mode]


SNAPS: Dict[int, List[Any]] = {}
SNAP_DIFFS: List[str] = []


def _ctx_fingerprint(context) -> Any:
    """What a caller can observe of its Context: every layer's public items + render_context depth."""
    layers = []
    for d in context.dicts:
        layers.append(sorted((k, repr(v)) for k, v in d.items() if not k.startswith("_") and k != "component_vars"
                             and k != "forloop"))
    return [layers, len(context.dicts), len(context.render_context.dicts)]


def _vf_tags():
    from django.template.library import Library
    lib = Library()

    @lib.simple_tag(takes_context=True)
    def vf_snap(context, n, which):
        # "b"efore pushes the caller's fingerprint, "a"fter pops and compares (renders may nest)
        st = SNAPS.setdefault(n, [])
        if which == "b":
            st.append(_ctx_fingerprint(context))
        else:
            before = st.pop() if st else None
            now = _ctx_fingerprint(context)
            if before != now:
                SNAP_DIFFS.append(f"snap {n}: before={before} after={now}")
        return ""

    @lib.filter
    def vf_ref(v):
        from django_components.slots import SlotRef
        return v if isinstance(v, SlotRef) else ""

    @lib.filter
    def vf_sc(v):
        # prints scalars only (the specification's Show): dicts (slot data), SlotRef (default alias), lists,
        # objects print nothing - used when alias names collide with ordinary variable names
        return v if isinstance(v, (str, int)) and not isinstance(v, bool) else ""
    return lib


class UserFault(Exception):
    """Raised by generated user callbacks on request of a fault plan (C06)."""


def to_py(v) -> Any:
    if v["k"] == "s":
        return v["v"]
    if v["k"] == "l":
        return list(v["v"])
    if v["k"] == "d":
        return {k: to_py(x) for k, x in v["v"]}
    return None


def make_component(prog, idx: int, tag: str, log: Optional[list] = None, extra: Optional[Dict[str, Any]] = None,
                   dyn: bool = False, probes: bool = False):
    """Real Component subclass for comps[idx-1] of the program."""
    from django_components import Component
    spec = prog["comps"][idx - 1]
    data = spec["data"]
    _SCF[0] = "|vf_sc" if prog.get("scf") else ""
    src = "" if (extra and "template" in extra) else tpl_src(spec["tpl"], tag, dyn, probes)

    def get_context_data(self, **kwargs):
        if log is not None:
            log.append(("gcd", idx, self.id))
        d: Dict[str, Any] = {}
        for e in data:
            k = e["k"]
            if k == "const":
                d[e["x"]] = e["v"]
            elif k == "id":
                d[e["x"]] = self.id
            elif k == "seedrng":
                import random as _random
                _random.seed(20260926)
                d[e["x"]] = ""
            elif k == "self":
                d[e["x"]] = self
            elif k == "clist":
                d[e["x"]] = [e["v"] + "1", e["v"] + "2"]
            elif k == "kwarg":
                d[e["x"]] = kwargs.get(e["a"], "")
            elif k == "inject":
                if e["dflt"].startswith("f:"):
                    d[e["x"]] = self.inject(e["a"], _FALSY[e["dflt"]])
                else:
                    d[e["x"]] = self.inject(e["a"], e["dflt"]) if e["dflt"] else self.inject(e["a"])
            elif k == "injkeys":
                v = self.inject(e["a"], e["dflt"]) if e["dflt"] else self.inject(e["a"])
                d[e["x"]] = ",".join(v._fields) if hasattr(v, "_fields") else v
        return d

    attrs: Dict[str, Any] = {"template": "{% load lib_" + prog["mode"] + " vf_tags %}" + src,
                             "get_context_data": get_context_data}
    a = spec.get("assets") or no_assets()
    bases = (Component,)
    if a["base"]:
        bases = (prog["_classes"][a["base"] - 1],)
    if a["js"] != "" or a["base"]:
        attrs["js"] = a["js"] if a["js"] != "" else " "
    if a["css"] != "" or a["base"]:
        attrs["css"] = a["css"] if a["css"] != "" else " "
    # optional fields (C04): extl = Media.extend in its list form (indices of classes defined earlier);
    # mform = how a Media class WITHOUT own files is spelled: "absent" (no Media class at all; default),
    # "bare" (`class Media: pass`), "explicit" (`extend = True` only), "emptylists" (`js = []`, `css = {}`)
    extl = a.get("extl")
    mform = a.get("mform") or "absent"
    if a["mjs"] or a["mcss"] or not a["ext"] or a.get("media_always") or extl is not None or mform != "absent":
        css = a["mcss"]
        if a.get("cssdict"):
            css = {"all": a["mcss"][:1], "print": a["mcss"][1:]} if a["mcss"] else {}
        md: Dict[str, Any] = {"extend": a["ext"]}
        if extl is not None:
            md["extend"] = [prog["_classes"][k - 1] for k in extl]
        elif mform in ("bare", "emptylists") and a["ext"]:
            del md["extend"]                 # `extend` defaults to True
        if a["mjs"]:
            md["js"] = list(a["mjs"])
        elif mform == "emptylists":
            md["js"] = []
        if css:
            md["css"] = css
        elif mform == "emptylists":
            md["css"] = {}
        attrs["Media"] = type("Media", (), md)
    hook = spec.get("hook")
    if hook:
        if hook["bx"]:
            def on_render_before(self, context, template):
                context[hook["bx"]] = hook["bv"]
            attrs["on_render_before"] = on_render_before
        if hook["after"] != "none":
            def on_render_after(self, context, template, content):
                if hook["after"] == "wrap":
                    return f"[A{idx}]{content}[/A{idx}]"
                if hook["after"] == "replace":
                    return f"[R{idx}]"
                return content
            attrs["on_render_after"] = on_render_after
    if extra:
        attrs.update(extra)
    name = {"ascii": f"VfC{idx}", "under": f"_vf_{idx}_c", "uni": f"VfTabl\u00e9{idx}"}[a.get("name", "ascii")]
    return type(name, bases, attrs)


def install(prog, log: Optional[list] = None, extra=None, dyn: bool = False, probes: bool = False):
    """(Re-)register the program's components c1..cN in the registry of its mode."""
    reg, _ = registry(prog["mode"])
    tag = "c_" + prog["mode"]
    classes = []
    prog["_classes"] = classes
    for i in range(1, len(prog["comps"]) + 1):
        name = f"{prog['mode'][0]}c{i}"
        if name in reg.all():
            reg.unregister(name)
        cls = make_component(prog, i, tag, log, (extra or {}).get(i), dyn, probes)
        reg.register(name, cls)
        classes.append(cls)
    prog.pop("_classes", None)
    return classes


def page_context(prog) -> Dict[str, Any]:
    return {k: to_py(v) for k, v in prog["ctx"]}


def page_src(prog, dyn: bool = False, probes: bool = False) -> str:
    _SCF[0] = "|vf_sc" if prog.get("scf") else ""
    return "{% load lib_" + prog["mode"] + " vf_tags %}" + tpl_src(prog["page"], "c_" + prog["mode"], dyn, probes)


RENDERED_RE = re.compile(r"<!-- _RENDERED [^>]*-->")
DJCID_RE = re.compile(r"\sdata-djc-id-\w+(=\"\")?")
TOKEN_RE = re.compile(r"\[([^\[\]]*)\]")


def tokens(html: str) -> Tuple[List[str], str]:
    """Token list of a rendered page + the residue outside tokens (must be empty)."""
    s = RENDERED_RE.sub("", html)
    s = DJCID_RE.sub("", s)
    toks = TOKEN_RE.findall(s)
    junk = TOKEN_RE.sub("", s).strip()
    return toks, junk


def reset_library_state() -> List[str]:
    """Empty the per-render registries of the library (so one leaking case cannot contaminate the
    next); returns the names of those that were not empty."""
    import django_components.perfutil.component as pc
    import django_components.perfutil.provide as pp
    dirty = []
    for mod, names in ((pc, ["component_context_cache", "component_renderer_cache", "child_component_attrs"]),
                       (pp, ["provide_cache", "provide_references", "all_reference_ids"])):
        for nme in names:
            obj = getattr(mod, nme, None)
            if obj:
                dirty.append(nme)
                obj.clear()
    return dirty


def render_page(prog, dyn: bool = False, probes: bool = False) -> Dict[str, Any]:
    """Render the page of an installed program for real.  Observation: tokens / error class,
    and (C03) whether the caller's Context is unchanged around every component tag and after the render."""
    from django.template import Context, Template
    SNAPS.clear()
    SNAP_DIFFS.clear()
    ctx = Context(page_context(prog))
    before = _ctx_fingerprint(ctx)
    try:
        t = Template(page_src(prog, dyn, probes))
        html = t.render(ctx)
    except Exception as e:  # noqa: BLE001 - the class is the observation
        return {"err": type(e).__name__, "msg": str(e)[:300], "out": [], "junk": "", "ctx_changed": ""}
    toks, junk = tokens(html)
    changed = "" if _ctx_fingerprint(ctx) == before else "page context differs after render"
    if SNAP_DIFFS:
        changed = changed or "caller context differs after a component tag: " + SNAP_DIFFS[0]
    return {"err": "", "out": toks, "junk": junk, "html": html if len(html) < 3000 else html[:3000], "ctx_changed": changed}
