"""X06 - which template a component renders (template source resolution).

Contract (specs/TemplateSource.tla, written from the documentation only; the sentences relied on):
 [D1] docstrings of Component.template_file / template / get_template / get_template_name: "Only one of
      template_file, get_template_name, template or get_template must be defined."; CHANGELOG v0.97: "You now
      must use only one of template, get_template, template_name, or get_template_name."
 [D2] defining_js_css_html_files.md: "You cannot use both inlined code and separate file for a single language
      type: You can only either set Component.template or Component.template_file".
 [D3] subclassing_components.md: "If a child component class defines either member of a pair (e.g., either template
      or template_file), it takes precedence and the parent's definition is ignored completely. For example, if a
      child component defines template_file, the parent's template or template_file will be ignored." ... "All other
      attributes and methods ... follow standard Python inheritance rules."
 [D4] docstring of template_file: "The filepath must be either: Relative to the directory where the Component's
      Python file is defined. Relative to one of the component directories, as set by COMPONENTS.dirs or
      COMPONENTS.app_dirs. Relative to the template directories, as set by Django's TEMPLATES setting.";
      defining_js_css_html_files.md: "NOTE: In case of ambiguity, the preference goes to resolving the files relative
      to the component's directory."; "At component class creation, django-components checks all file paths defined
      on the component"; a path relative to COMPONENTS.dirs "is the same as writing" the component-relative one.
 [D5] template_name: "Alias for template_file"; get_template "supersedes get_template_string ... is the same as
      get_template_string, except it allows to return either a string or a Template instance" (spellings, chosen
      by the harness per case).
 [D6] template / get_template: "Inlined Django template ... Can be a plain string or a Template instance.";
      get_template_name(context) -> Optional[str]: "Filepath to the Django template associated with this component.
      The filepath must be relative to either the file where the component class was defined, or one of the roots
      of STATIFILES_DIRS"; installation.md: the TEMPLATES loaders incl. django_components.template_loader.Loader
      "allow Django to load component HTML files as Django templates".  access_component_input.md: self.input can
      be used inside get_template_name / get_template.
 [D7] settings template_cache_size: templates are "cached to a global in-memory cache ... This speeds up the next
      render" (a cache only speeds up; TemplateCache.tla Transparent);  CHANGELOG: "Fix bug: Relative path in
      extends and include does not work when using template_file" (relative {% include "./x" %} in a template file
      is resolved against that template file, as Django does for named templates).

A case is a chain of component classes K1 <- K2 <- .. (single inheritance), each defining any of: inline `template`
(str or Template instance), `template_file`/`template_name` (a name relative to the component's directory / to the
COMPONENTS dir / to the TEMPLATES dir / existing nowhere), both, a get_template_name() override and a
get_template()/get_template_string() override whose return value (None / name / str / Template) depends on a
selector passed with the render (kwargs, read through self.input or the context).  The modules are real files below
<workdir>/comps/d<i>/ (on sys.path, COMPONENTS.dirs via override_settings); TEMPLATES has the loaders locmem,
filesystem(<workdir>/tpl), django_components.template_loader.Loader, optionally wrapped in the cached loader.

spec -> code: TLC (MC_X06) enumerates every chain of the catalogues (depth 1 complete; depth 2: every static kind x
              few methods, few static kinds x every method table [quick: pairwise per method]; thorough: all x all,
              depth 3, histories of 4) and, for chains whose
              sources go through the template cache, every history of 3 renders/clears for template_cache_size
              0, 1, 2; it checks KaseOK (Decided, OnlyOne, ParentIgnored, EmptySubclassSame), NoLeak and the
              TemplateCache invariants and exports the admitted outcome set of every render.  The harness builds the
              real classes, renders every (class, selector) - Component.render(), render_to_response(), or a
              {% tag %} of a private registry (both context modes; also two components on one page) - under a
              template_cache_size / cached-loader configuration and compares the tag printed by the chosen template
              (and the per-render value v: a template that ran with another render's data is a mismatch) with the
              admitted set.
code -> spec: seeded random chains beyond the bound (depth <= 4, 4 directories, tables of 4 selectors, any mix of
              definitions, histories of 10-24 renders/clears, cache sizes 0/1/2/3/128) are recorded and validated by
              TLC (Trace_X06) against the same operators, one verdict per trace.

Admitted sets / not generated (docs silent): a name that exists both in a COMPONENTS dir and in a TEMPLATES dir (no
order stated: both admitted); a name returned by get_template_name that exists next to the component AND for the
loaders (both admitted; which class's directory with inheritance: both admitted); template_file naming a template
that only a non-filesystem loader has (not generated); "both" on a class that has subclasses (not generated);
template = None / methods on mixins / multiple inheritance (C16 covers the attribute level); relative includes in
inline templates (no documented base).  An exception of any type counts as the documented refusal (the docs do not
name the exception class).  A method returning None counts as "not defined" (Optional return type, default
implementation returns None).

--selftest: 8 in-process mutation probes, and the three proposed repairs (proposed_fixes/X06-*.diff applied to a
scratch copy of the sources, the touched definitions installed in-process): with them nothing fails and no finding
key is produced.

Finding keys (shape of the abstract case : outcome the deviation predicts), see KNOWN_FINDINGS.txt:
 F1 same-text-template-files-with-relative-include:include-resolved-against-first-compiled-file
 F2 child-overrides-template-of-base-with-missing-file:render-raises-could-not-find
 F3 get_template_name-returns-path-relative-to-component-file:TemplateDoesNotExist
"""
from __future__ import annotations

import importlib.util
import json
import os
import random
import re
import sys
from concurrent.futures import ThreadPoolExecutor
from contextlib import contextmanager
from pathlib import Path
from typing import Any, Dict, List, Optional, Tuple

from . import tlc
from .core import Check, MachineryError, canon, sha, workdir
from .pool import pmap

PID = "X06"
MAXD = 4                      # component directories d1..d4 / MaxLv of the specs
NEAR = ("near.html", "nearc.html", "neart.html", "inc.html")
IN_C = ("nearc.html", "c.html", "ct.html")
IN_T = ("neart.html", "t.html", "ct.html")
IN_MEM = ("mem.html", "mem2.html")
NEAR_ONLY = ("near.html", "inc.html")
CONFIGS = [(size, cl) for size in (0, 1, 2, 128) for cl in (False, True)]

# exceptions that can only come from the generated modules / the harness itself, never a refusal by the library
HARNESS_ERRORS = ("NameError", "SyntaxError", "IndentationError", "ImportError", "ModuleNotFoundError", "IndexError")

KEY_F1 = "same-text-template-files-with-relative-include:include-resolved-against-first-compiled-file"
KEY_F2 = "child-overrides-template-of-base-with-missing-file:render-raises-could-not-find"
KEY_F3 = "get_template_name-returns-path-relative-to-component-file:TemplateDoesNotExist"

_world: Optional["World"] = None


# ---------------------------------------------------------------- the real side: files, settings, classes
def _text(tag: str) -> str:
    return "[" + tag + "|{{ v }}]"


class World:
    """<root>/comps        = COMPONENTS.dirs[0] (on sys.path);  c.html nearc.html ct.html
       <root>/comps/d<i>/  = directory of the modules of the classes placed in d<i>; near.html nearc.html
                             neart.html, inc.html (identical text everywhere, includes ./p.html), p.html
       <root>/tpl          = TEMPLATES DIRS;  neart.html t.html ct.html
       locmem loader       : mem.html mem2.html
    Every template text prints its own tag: [<tag>|{{ v }}]."""

    def __init__(self) -> None:
        self.root = workdir("x06fs")
        self.comps = self.root / "comps"
        self.tpl = self.root / "tpl"
        self.comps.mkdir()
        self.tpl.mkdir()
        for n in IN_C:
            (self.comps / n).write_text(_text("cdir:" + n))
        for n in IN_T:
            (self.tpl / n).write_text(_text("tdir:" + n))
        for d in range(1, MAXD + 1):
            dd = self.comps / f"d{d}"
            dd.mkdir()
            for n in NEAR:
                if n != "inc.html":
                    (dd / n).write_text(_text(f"near:{d}:{n}"))
            (dd / "inc.html").write_text('[inc.html|{% include "./p.html" %}|{{ v }}]')
            (dd / "p.html").write_text(f"near:{d}")
        self.mem = {n: _text("mem:" + n) for n in IN_MEM}
        self.uid = 0
        if str(self.comps) not in sys.path:
            sys.path.insert(0, str(self.comps))


def world() -> World:
    global _world
    if _world is None:
        from . import boot
        boot.setup()
        _world = World()
    return _world


_env_state: Dict[str, Any] = {}
_regs: Dict[str, Any] = {}        # private registries, one per context mode and process (the library maps a start
                                  # tag to one registry for the life of the process)


def _registries() -> Dict[str, Any]:
    if not _regs:
        from django.template.library import Library
        from django_components import ComponentFormatter, ComponentRegistry, RegistrySettings
        for mode in ("django", "isolated"):
            lib = Library()
            reg = ComponentRegistry(library=lib, settings=RegistrySettings(
                context_behavior=mode, tag_formatter=ComponentFormatter("x06" + mode[0])))
            _regs[mode] = (reg, lib)
    return _regs


@contextmanager
def env(size: int, cached_loader: bool):
    """Settings of one configuration: COMPONENTS.dirs + template_cache_size, the three loaders (optionally behind
    Django's cached loader), a fresh template cache and private registries for both context modes."""
    from django.test.utils import override_settings
    from django.template import engines
    import django_components.cache as dcache
    w = world()
    loaders: List[Any] = [("django.template.loaders.locmem.Loader", dict(w.mem)),
                          "django.template.loaders.filesystem.Loader",
                          "django_components.template_loader.Loader"]
    if cached_loader:
        loaders = [("django.template.loaders.cached.Loader", loaders)]
    templates = [{"BACKEND": "django.template.backends.django.DjangoTemplates", "DIRS": [str(w.tpl)],
                  "OPTIONS": {"builtins": ["django_components.templatetags.component_tags"], "loaders": loaders}}]
    comps = {"autodiscover": False, "dirs": [str(w.comps)], "template_cache_size": size}
    with override_settings(TEMPLATES=templates, COMPONENTS=comps):
        dcache.template_cache = None
        eng = engines["django"].engine
        regs = {}
        for mode, (reg, lib) in _registries().items():
            eng.template_libraries["x06lib_" + mode] = lib
            regs[mode] = reg
        old = dict(_env_state)
        _env_state.update(regs=regs, size=size)
        try:
            yield
        finally:
            _env_state.clear()
            _env_state.update(old)
            dcache.template_cache = None


def _level_source(i: int, rec: Dict[str, Any], dirs: List[int], uid: str, rnd: random.Random,
                  gt_name: str = "get_template") -> str:
    """Python source of the module that defines class K<i>."""
    lines = ["from django.template import Template", "from django_components import Component"]
    if i > 1:
        lines.append(f"from d{dirs[i - 2]}.x06_{uid}_{i - 1} import K{i - 1}")
    via_input = rnd.random() < 0.6
    selexpr = 'self.input.kwargs["sel"]' if via_input else 'context["sel"]'
    body: List[str] = []
    st = rec["st"]
    if st in ("inline", "both"):
        body.append(f"    template = {_text(f'inl:{i}')!r}")
    if st == "obj":
        body.append(f"    template = Template({_text(f'ino:{i}')!r})")
    if st in ("file", "both"):
        attr = "template_name" if rnd.random() < 0.35 else "template_file"     # [D5] alias
        body.append(f"    {attr} = {rec['fn']!r}")
    if i == 1:
        body += ["    def get_context_data(self, **kwargs):",
                 '        return {"v": kwargs["v"], "sel": kwargs["sel"]}']
    if rec["gtn"]:
        tbl = [None if x == "None" else x for x in rec["gtn"]]
        lines.append(f"_GTN = {tbl!r}")
        body += ["    def get_template_name(self, context):", f"        return _GTN[{selexpr}]"]
    if rec["gt"]:
        def text(r: str) -> str:
            return _text("gt" + r if r.endswith(":x") else f"gt{r}:{i}")
        shared = rnd.random() < 0.5            # Template objects made once per module or once per call
        ents = []
        for r in rec["gt"]:
            if r == "None":
                ents.append("None")
            elif r.startswith("s:"):
                ents.append(repr(text(r)))
            else:
                ents.append(f"Template({text(r)!r})" if shared else f"(lambda: Template({text(r)!r}))")
        lines.append("_GT = [" + ", ".join(ents) + "]")
        body += [f"    def {gt_name}(self, context):", f"        r = _GT[{selexpr}]",
                 "        return r() if callable(r) else r"]
    if not body:
        body.append("    pass")
    base = "Component" if i == 1 else f"K{i - 1}"
    return "\n".join(lines + ["", "", f"class K{i}({base}):"] + body) + "\n"


class Chain:
    """The real classes of a case.  classes[i] is K<i+1> or None from the first class that could not be created."""

    def __init__(self, K: Dict[str, Any], forms: int) -> None:
        w = world()
        w.uid += 1
        self.K = K
        self.uid = f"{os.getpid()}_{w.uid}"
        self.rnd = random.Random(forms)
        self.classes: List[Any] = []
        self.create_exc: Optional[str] = None
        self.mods: List[str] = []
        self.files: List[Path] = []
        self.names: Dict[Tuple[int, str], Any] = {}
        self.pages: Dict[Tuple[int, int, str], Any] = {}
        self.sources: List[str] = []
        # [D5] the legacy spelling get_template_string (strings only) - one spelling per chain: the docs do not
        # say what happens when a class has both methods
        only_str = all(not r.startswith("o:") for rec in K["lv"] for r in rec["gt"])
        gt_name = "get_template_string" if only_str and self.rnd.random() < 0.3 else "get_template"
        for i, rec in enumerate(K["lv"], start=1):
            src = _level_source(i, rec, K["dirs"], self.uid, self.rnd, gt_name)
            self.sources.append(src)
            if self.create_exc is not None:
                self.classes.append(None)
                continue
            modname = f"d{K['dirs'][i - 1]}.x06_{self.uid}_{i}"
            path = w.comps / f"d{K['dirs'][i - 1]}" / f"x06_{os.getpid()}_{i}.py"
            path.write_text(src)
            self.files.append(path)
            spec = importlib.util.spec_from_file_location(modname, path)
            mod = importlib.util.module_from_spec(spec)
            sys.modules[modname] = mod
            self.mods.append(modname)
            try:
                spec.loader.exec_module(mod)
                self.classes.append(getattr(mod, f"K{i}"))
            except Exception as e:     # [D2] refusal at class creation
                self.create_exc = f"{type(e).__name__}: {e}"[:200]
                self.classes.append(None)

    def render(self, c: int, sel: int, v: int, route: str) -> Dict[str, Any]:
        """Render class K<c>; the event carries the tag the chosen template printed."""
        ev = {"op": "render", "c": c, "sel": sel, "obs": "error", "exc": "", "route": route}
        cls = self.classes[c - 1]
        if cls is None:
            ev["exc"] = "creation: " + (self.create_exc or "")
            return ev
        try:
            if route == "py":
                out = cls.render(kwargs={"v": v, "sel": sel})
            elif route == "py-response":
                out = cls.render_to_response(kwargs={"v": v, "sel": sel}).content.decode()
            else:
                mode = "django" if route == "tag-django" else "isolated"
                from django.template import Context
                out = self._registered(c, mode)[1].render(Context({"v": v, "sel": sel}))
        except Exception as e:
            ev["exc"] = f"{type(e).__name__}: {e}".replace("\n", " | ")[:240]
            return ev
        ev["obs"] = decode(out, v)
        if ev["obs"].startswith("undecodable"):
            ev["exc"] = repr(out)[:200]
        return ev

    def _registered(self, c: int, mode: str) -> Tuple[str, Any]:
        """Name of class K<c> in the private registry of `mode` and the page that uses it once (nothing rendered)."""
        key = (c, mode)
        if key not in self.names:
            from django.template import Template
            name = f"k{self.uid}_{c}"
            _env_state["regs"][mode].register(name, self.classes[c - 1])
            t = "x06" + mode[0]
            self.names[key] = (name, Template(
                "{% load x06lib_" + mode + " %}{% " + t + ' "' + name + '" v=v sel=sel / %}'))
        return self.names[key]

    def render_pair(self, a: Tuple[int, int, int], b: Tuple[int, int, int], route: str) -> Optional[List[Dict[str, Any]]]:
        """One page that uses two components one after the other ((c, sel, v) each): two render events, or None
        when the page raised (the caller then renders them one by one)."""
        from django.template import Context, Template
        mode = "django" if route == "tag-django" else "isolated"
        for c in (a[0], b[0]):
            if self.classes[c - 1] is None:
                return None
            self._registered(c, mode)
        t = "x06" + mode[0]
        key = (a[0], b[0], mode)
        if key not in self.pages:
            na, nb = self.names[(a[0], mode)][0], self.names[(b[0], mode)][0]
            self.pages[key] = Template("{% load x06lib_" + mode + " %}{% " + t + ' "' + na + '" v=v1 sel=s1 / %}#'
                                       "{% " + t + ' "' + nb + '" v=v2 sel=s2 / %}')
        try:
            out = self.pages[key].render(Context({"v1": a[2], "s1": a[1], "v2": b[2], "s2": b[1]}))
        except Exception:
            return None
        parts = out.split("#")
        if len(parts) != 2:
            return None
        return [{"op": "render", "c": x[0], "sel": x[1], "obs": decode(part, x[2]), "exc": "",
                 "route": route + "-pair"} for x, part in zip((a, b), parts)]

    def close(self) -> None:
        for (c, mode), (name, _) in self.names.items():
            try:
                _env_state["regs"][mode].unregister(name)
            except Exception:
                pass
        for m in self.mods:
            sys.modules.pop(m, None)
        try:     # hygiene only: dead classes must not pile up in the process-global memo of Component.media
            import django_components.component_media as cm
            for cls in self.classes:
                if cls is not None:
                    cm.media_cache.pop(cls, None)
        except Exception:
            pass


def decode(out: str, v: int) -> str:
    # a page that uses the {% tag %} keeps the dependency marker comment of the component (no middleware here)
    out = re.sub(r"<!-- _RENDERED [^>]*-->", "", out)
    m = re.fullmatch(r"\[inc\.html\|near:(\d+)\|(-?\d+)\]", out)
    if m:
        tag, shown = f"near:{m.group(1)}:inc.html", m.group(2)
    else:
        m = re.fullmatch(r"\[([^|\[\]]+)\|(-?\d*)\]", out)
        if not m:
            return "undecodable"
        tag, shown = m.group(1), m.group(2)
    if shown != str(v):
        return f"stale-context:{tag}:{shown}"      # the template ran with another render's data
    return tag


def clear_template_cache() -> None:
    import django_components.cache as dcache
    dcache.get_template_cache().clear()


def reset_template_cache() -> None:
    """A case starts with an empty template cache of the configured size (cases are independent)."""
    import django_components.cache as dcache
    dcache.template_cache = None


# ---------------------------------------------------------------- finding keys
def static_level(K: Dict[str, Any], c: int) -> int:
    for i in range(c, 0, -1):
        if K["lv"][i - 1]["st"] != "none":
            return i
    return 0


def finding_key(K: Dict[str, Any], ev: Dict[str, Any], earlier: List[Dict[str, Any]], size: int) -> Optional[str]:
    """Named deviation that predicts exactly this wrong outcome for this shape of case, or None."""
    c, sel, obs = ev["c"], ev["sel"], ev["obs"]
    s = static_level(K, c)
    lv = K["lv"]
    m = re.fullmatch(r"near:(\d+):inc\.html", obs)
    if m and s and lv[s - 1]["st"] == "file" and lv[s - 1]["fn"] == "inc.html" and size != 0 \
            and int(m.group(1)) != K["dirs"][s - 1]:
        # the other copy of the text was compiled before (and not cleared since)
        since = []
        for e in earlier:
            since = [] if e["op"] == "clear" else since + [e]
        if any(e.get("obs") == obs for e in since):
            return KEY_F1
    if obs == "error" and ev["exc"].startswith("ValueError") and "Could not find template file none.html" in ev["exc"] \
            and s and any(lv[j - 1]["st"] == "file" and lv[j - 1]["fn"] == "none.html" for j in range(1, s)) \
            and not (lv[s - 1]["st"] == "file" and lv[s - 1]["fn"] == "none.html"):
        return KEY_F2
    if obs == "error" and ev["exc"].startswith("TemplateDoesNotExist"):
        for i in range(c, 0, -1):
            if lv[i - 1]["gtn"]:
                if lv[i - 1]["gtn"][sel] in NEAR_ONLY:
                    return KEY_F3
                break
    return None


# ---------------------------------------------------------------- spec -> code
def _cfg(path: Path, spec: str, size: Optional[int], body: str = "", invs: Tuple[str, ...] = ()) -> None:
    ms = "MaxSize <- Unbounded" if size is None else f"MaxSize = {size}"
    path.write_text(f"SPECIFICATION {spec}\nCONSTANTS\n  Keys = {{}}\n  Vals = {{}}\n  None = 0\n  {ms}\n"
                    f"  MaxLv = {MAXD}\n{body}" + "".join(f"INVARIANT {i}\n" for i in invs))


def families(tier: str, small: bool = False) -> List[Dict[str, Any]]:
    """What TLC enumerates: name, depth, catalogues, directory plans, history bound, cache size."""
    f = [dict(name="d1", depths="{1}", base="LvAllBase", leaf="LvAllLeaf", plans="PlansOne", h=0, size=2)]
    if small:       # selftest: the same families, smaller catalogues
        f += [dict(name="d2m", depths="{2}", base="LvMidBase", leaf="LvMidLeaf", plans="PlansBoth", h=0, size=2),
              dict(name="hist1", depths="{2}", base="LvHistBase", leaf="LvHistLeaf", plans="PlansSplit", h=2, size=1)]
        return f
    f += [dict(name="d2m", depths="{2}", base="LvMidBase", leaf="LvMidLeaf", plans="PlansBoth", h=0, size=2)]
    if tier == "quick":
        f += [dict(name="d2sa", depths="{2}", base="LvStatBase0", leaf="LvStatLeaf", plans="PlansSplit", h=0, size=2),
              dict(name="d2sb", depths="{2}", base="LvStatBase", leaf="LvStatLeaf0", plans="PlansSplit", h=0, size=2),
              dict(name="d2g", depths="{2}", base="LvGtnBase", leaf="LvGtnLeaf", plans="PlansSplit", h=0, size=2),
              dict(name="d2t", depths="{2}", base="LvGtBase", leaf="LvGtLeaf", plans="PlansSplit", h=0, size=2)]
    else:
        f += [dict(name="d2s", depths="{2}", base="LvStatBase", leaf="LvStatLeaf", plans="PlansSplit", h=0, size=2),
              dict(name="d2d", depths="{2}", base="LvDynBase", leaf="LvDynLeaf", plans="PlansSplit", h=0, size=2)]
    for size in (0, 1, 2):      # size 0 caches nothing: shorter histories in the quick tier
        f.append(dict(name=f"hist{size}", depths="{2}", base="LvHistBase", leaf="LvHistLeaf", plans="PlansSplit",
                      h=2 if (size == 0 and tier == "quick") else 3, size=size))
    if tier != "quick":
        f += [dict(name="d3", depths="{3}", base="LvMidBase", leaf="LvMidLeaf", plans="Plans3", h=0, size=2)]
        for p in range(1, 5):
            f.append(dict(name=f"d2all{p}", depths="{2}", base=f"LvAllBaseP{p}", leaf="LvAllLeaf",
                          plans="PlansSplit", h=0, size=2))
        f.append(dict(name="hist4", depths="{2}", base="LvHistBase", leaf="LvHistLeaf", plans="PlansSplit",
                      h=4, size=1))
    return f


def _export_family(args) -> Tuple[Dict[str, Any], List[Dict[str, Any]], Any]:
    fam, w = args
    cfg = w / f"mc_{fam['name']}.cfg"
    out = w / f"cases_{fam['name']}.ndjson"
    if out.exists():
        out.unlink()
    body = (f"  Depths = {fam['depths']}\n  BaseLv <- {fam['base']}\n  LeafLv <- {fam['leaf']}\n"
            f"  DirPlans <- {fam['plans']}\n  H = {fam['h']}\n")
    invs = ("KaseOK0", "NoLeak", "Transparent", "GotIsRight", "Bounded", "DictMatchesList", "Export")
    _cfg(cfg, "MCSpec", fam["size"], body, invs)
    r = tlc.require_ok(tlc.run("MC_X06", str(cfg), env={"OUT": str(out)}, workers=1), f"MC_X06 {fam['name']}")
    rows = tlc.read_ndjson(out)
    if not rows:
        raise MachineryError(f"MC_X06 {fam['name']}: nothing exported")
    return fam, rows, r


def export_all(chk: Check, tier: str, small: bool = False) -> List[Dict[str, Any]]:
    w = workdir("x06mc")
    fams = families(tier, small)
    items: List[Dict[str, Any]] = []
    with ThreadPoolExecutor(max_workers=5) as ex:
        for fam, rows, r in ex.map(_export_family, [(f, w) for f in fams]):
            chk.add("states", r.distinct)
            chk.add("transitions", r.generated)
            chk.cov.setdefault("families", {})[fam["name"]] = len(rows)
            seen = set()
            for row in rows:
                k = sha([row["k"], row["hist"]])
                if k in seen:          # two spec behaviours (an admitted choice) with the same history
                    continue
                seen.add(k)
                row["fam"] = fam["name"]
                items.append(row)
    return items


def run_row(row: Dict[str, Any], chain: Optional[Chain], forms: int, size: int) -> Tuple[List[Dict[str, Any]], Chain]:
    """Replay one exported behaviour; returns the events (with the admitted set attached)."""
    rnd = random.Random(forms * 7 + 1)
    if chain is None:
        chain = Chain(row["k"], forms)
    reset_template_cache()
    depth = len(row["k"]["lv"])
    route = rnd.choice(["py", "py-response", "tag-django", "tag-isolated"])
    pairing = route.startswith("tag") and rnd.random() < 0.5
    evs: List[Dict[str, Any]] = []
    if row["hist"]:
        ops = [(h["op"], h["c"], h["sel"], h["exp"]) for h in row["hist"]]
    else:
        pairs = [(c, s) for c in range(1, depth + 1) for s in range(3)]
        rnd.shuffle(pairs)
        pairs += pairs[:2]                     # warm repeats
        ops = [("render", c, s, row["table"][c - 1][s]) for c, s in pairs]
        if depth > 1 and rnd.random() < 0.3:
            ops.insert(rnd.randrange(1, len(ops)), ("clear", 0, 0, []))
    n = 0
    while n < len(ops):
        op, c, s, exp = ops[n]
        if op == "clear":
            clear_template_cache()
            evs.append({"op": "clear", "c": 0, "sel": 0, "obs": "-", "exc": ""})
            n += 1
            continue
        v = (forms + 31 * n) % 1000
        # two components on one page (both are expected to render): the choices must stay apart within a page, too
        if pairing and n + 1 < len(ops) and ops[n + 1][0] == "render" and "error" not in exp \
                and "error" not in ops[n + 1][3]:
            two = chain.render_pair((c, s, v), (ops[n + 1][1], ops[n + 1][2], v + 1), route)
            if two is not None:
                two[0]["exp"], two[1]["exp"] = exp, ops[n + 1][3]
                evs += two
                n += 2
                continue
        ev = chain.render(c, s, v=v, route=route)
        ev["exp"] = exp
        evs.append(ev)
        n += 1
    return evs, chain


def _replay_chunk(args) -> Dict[str, Any]:
    (size, cl), rows, seed = args
    bad: List[Dict[str, Any]] = []
    n_renders = 0
    nontrivial = []
    errs: Dict[str, int] = {}
    with env(size, cl):
        chain: Optional[Chain] = None
        chain_key = None
        for row in rows:
            forms = int(sha([seed, row["k"], row["hist"]]), 16) % (1 << 30)
            key = canon(row["k"]) if row["hist"] else None     # histories of one chain share the classes
            if chain is not None and key != chain_key:
                chain.close()
                chain = None
            evs, chain = run_row(row, chain if key is not None and key == chain_key else None, forms, size)
            chain_key = key
            if key is None:
                chain.close()
                chain = None
            n_renders += sum(1 for e in evs if e["op"] == "render")
            nontrivial.append(any(e["op"] == "render" and e["exp"] != ["error"] for e in evs)
                              or sum(1 for l in row["k"]["lv"] if l["st"] != "none" or l["gtn"] or l["gt"]) > 1)
            for n, ev in enumerate(evs):
                if ev["op"] == "render" and ev["obs"] == "error":
                    cls_ = ev["exc"].replace("creation: ", "").split(":")[0]
                    errs[cls_] = errs.get(cls_, 0) + 1
                if ev["op"] == "render" and ev["obs"] not in ev["exp"]:
                    bad.append({"row": {k: row[k] for k in ("k", "hist", "fam")}, "cfg": [size, cl], "forms": forms,
                                "event": n, "events": evs[: n + 1],
                                "key": finding_key(row["k"], ev, evs[:n], size)})
        if chain is not None:
            chain.close()
    return {"bad": bad, "renders": n_renders, "nontrivial": nontrivial, "errs": errs}


def replay_exported(chk: Check, items: List[Dict[str, Any]], workers: int = 6) -> None:
    # histories: configuration = the cache size the behaviour was explored with; others: round robin
    groups: Dict[Tuple[int, bool], List[Dict[str, Any]]] = {}
    plain = [r for r in items if not r["hist"]]
    hist = [r for r in items if r["hist"]]
    for n, row in enumerate(plain):
        groups.setdefault(CONFIGS[n % len(CONFIGS)], []).append(row)
    hist.sort(key=lambda r: (r["max"], canon(r["k"])))
    for row in hist:
        cl = int(sha(row["k"]), 16) % 2 == 1
        groups.setdefault((row["max"], cl), []).append(row)
    chunks = []
    for cfg, rows in sorted(groups.items()):
        step = 400
        for i in range(0, len(rows), step):
            chunks.append((cfg, rows[i:i + step], chk.seed))
    world()                                       # files exist before the workers fork
    results = pmap(_replay_chunk, chunks, workers=workers, per_item_s=300.0, chunk=1)
    for (cfg, rows, _), res in zip(chunks, results):
        if not isinstance(res, dict) or "bad" not in res:
            raise MachineryError(f"replay chunk failed: {res!r}"[:300])
        chk.add("renders_replayed", res["renders"])
        for k, n in res["errs"].items():
            if k in HARNESS_ERRORS:
                raise MachineryError(f"generated module or harness raised {k} (not a refusal by the library)")
            ec = chk.cov.setdefault("refusal_exception_classes", {})
            ec[k] = ec.get(k, 0) + n
        for row, nt in zip(rows, res["nontrivial"]):
            chk.count([row["k"], row["hist"], cfg], nontrivial=nt)
        for b in res["bad"]:
            ev = b["events"][-1]
            chk.violation({"kind": "export-row", "row": b["row"], "cfg": b["cfg"], "forms": b["forms"]},
                          {"event": b["event"], "admitted": ev["exp"], "observed": ev["obs"], "exc": ev["exc"],
                           "route": ev.get("route"), "events": b["events"]}, key=b["key"])
    chk.add("cases_replayed", len(items))
    for fam in ("d1", "d2sa", "d2s", "d2g", "d2d", "hist1"):
        rows = [r for r in items if r["fam"] == fam]
        if rows:
            r = rows[(len(rows) * 2) // 3]
            chk.sample({"family": fam, "k": r["k"], "hist": r["hist"], "table": r["table"]}, limit=6)


# ---------------------------------------------------------------- code -> spec
ST_CHOICES = [("none", "-")] * 10 + [("inline", "-")] * 3 + [("obj", "-")] + \
    [("file", n) for n in ("near.html", "nearc.html", "neart.html", "c.html", "t.html", "ct.html", "inc.html",
                           "inc.html", "none.html", "d1/near.html", "d2/near.html", "d3/near.html", "d4/near.html")]
GTN_VALUES = ["None"] * 8 + ["mem.html", "mem2.html", "t.html", "c.html", "ct.html", "nearc.html", "neart.html",
                             "none.html", "near.html", "d2/near.html", "d4/near.html"]
GT_VALUES = ["None"] * 8 + ["s:a", "s:b", "s:x", "s:x", "o:a", "o:b", "o:x"]


def gen_chain(rnd: random.Random) -> Dict[str, Any]:
    depth = rnd.choice([1, 2, 2, 3, 3, 4])
    lv = []
    for i in range(depth):
        st, fn = rnd.choice(ST_CHOICES)
        if i == depth - 1 and rnd.random() < 0.04:
            st, fn = "both", rnd.choice(["near.html", "t.html", "none.html"])
        gtn = [rnd.choice(GTN_VALUES) for _ in range(4)] if rnd.random() < 0.3 else []
        gt = [rnd.choice(GT_VALUES) for _ in range(4)] if rnd.random() < 0.3 else []
        lv.append({"st": st, "fn": fn, "gtn": gtn, "gt": gt})
    dirs = [rnd.randint(1, MAXD) for _ in range(depth)]
    return {"lv": lv, "dirs": dirs}


def _record_chunk(args) -> List[Dict[str, Any]]:
    (size, cl), seeds = args
    out = []
    with env(size, cl):
        for tid, sd in seeds:
            rnd = random.Random(sd)
            K = gen_chain(rnd)
            chain = Chain(K, sd)
            reset_template_cache()
            evs = []
            routes = ["py", "py-response", "tag-django", "tag-isolated"]
            for n in range(rnd.randint(10, 24)):
                if rnd.random() < 0.1:
                    clear_template_cache()
                    evs.append({"op": "clear", "c": 0, "sel": 0, "obs": "-", "exc": ""})
                    continue
                pick = lambda: (rnd.randint(1, len(K["lv"])), rnd.randrange(4), rnd.randrange(1000))   # noqa: E731
                route = rnd.choice(routes)
                if route.startswith("tag") and rnd.random() < 0.3:
                    a, b = pick(), pick()
                    two = chain.render_pair(a, b, route)
                    evs += two if two is not None else [chain.render(*a, route=route), chain.render(*b, route=route)]
                    continue
                evs.append(chain.render(*pick(), route=route))
            chain.close()
            out.append({"id": tid, "k": K, "size": size, "cached_loader": cl, "events": evs})
    return out


def _parse_verdicts(r: tlc.TlcResult, n: int, what: str) -> Dict[int, List[Dict[str, Any]]]:
    """Trace_X06 prints REJECT lines per failing event and ACCEPT/DONE per trace; every trace must end."""
    rej: Dict[int, List[Dict[str, Any]]] = {}
    ended = set()
    for line in r.out.splitlines():
        m = re.match(r'<<"REJECT", (\d+), (\d+), (.*)>>', line)
        if m:
            rej.setdefault(int(m.group(1)), []).append({"event": int(m.group(2)), "clauses": m.group(3)})
        m = re.match(r'<<"(ACCEPT|DONE)", (\d+)', line)
        if m:
            ended.add(int(m.group(2)))
    if len(ended) != n:
        raise MachineryError(f"{what}: {len(ended)} verdicts for {n} traces\n" + "\n".join(r.out.splitlines()[-30:]))
    return rej


def _validate_size(args):
    size, traces, w = args
    f = w / f"traces_{size}.ndjson"
    slim = [{"id": t["id"], "k": t["k"],
             "events": [{"op": e["op"], "c": e["c"], "sel": e["sel"], "obs": e["obs"]} for e in t["events"]]}
            for t in traces]
    tlc.write_ndjson(f, slim)
    cfg = w / f"trace_{size}.cfg"
    _cfg(cfg, "TrSpec", size, "", ("NoLeak", "Transparent", "Bounded", "DictMatchesList"))
    r = tlc.run("Trace_X06", str(cfg), env={"IN": str(f)}, workers=1)
    return size, r


def random_traces(chk: Check, ntraces: int, workers: int = 6) -> None:
    world()
    sizes = (0, 1, 2, 3, 128)
    cfgs = [(s, cl) for s in sizes for cl in (False, True)]
    per: Dict[Tuple[int, bool], List[Tuple[int, int]]] = {}
    for n in range(ntraces):
        per.setdefault(cfgs[n % len(cfgs)], []).append((n + 1, chk.seed * 1000003 + n * 7919 + 6))
    chunks = []
    for cfg, seeds in sorted(per.items()):
        for i in range(0, len(seeds), 60):
            chunks.append((cfg, seeds[i:i + 60]))
    traces: List[Dict[str, Any]] = []
    for res in pmap(_record_chunk, chunks, workers=workers, per_item_s=300.0, chunk=1):
        if not isinstance(res, list):
            raise MachineryError(f"trace recording failed: {res!r}"[:300])
        traces += res
    by_size: Dict[int, List[Dict[str, Any]]] = {}
    for t in traces:
        by_size.setdefault(t["size"], []).append(t)
    w = workdir("x06tr")
    with ThreadPoolExecutor(max_workers=4) as ex:
        results = list(ex.map(_validate_size, [(s, ts, w) for s, ts in sorted(by_size.items())]))
    for size, r in results:
        ts = by_size[size]
        if r.violated:
            chk.violation({"kind": "trace-invariant", "size": size},
                          {"violated": r.violated, "tlc_tail": r.out.splitlines()[-30:]})
            continue
        tlc.require_ok(r, f"Trace_X06 size={size}")
        rej = _parse_verdicts(r, len(ts), f"Trace_X06 size={size}")
        chk.add("trace_states", r.distinct)
        index = {t["id"]: t for t in ts}
        for tid, fails in rej.items():
            t = index[tid]
            for why in fails:
                n = why["event"] - 1
                ev = t["events"][n]
                chk.violation({"kind": "trace", "k": t["k"], "size": size, "cached_loader": t["cached_loader"],
                               "events": t["events"][: n + 1]},
                              {"clauses": why["clauses"], "observed": ev["obs"], "exc": ev["exc"]},
                              key=finding_key(t["k"], ev, t["events"][:n], size))
        for t in ts:
            chk.count([t["k"], [(e["op"], e["c"], e["sel"]) for e in t["events"]], size],
                      nontrivial=any(e["obs"] not in ("error", "-") for e in t["events"]))
    chk.add("traces_validated_against_impl", len(traces))
    chk.add("trace_renders", sum(1 for t in traces for e in t["events"] if e["op"] == "render"))
    if traces:
        t = traces[len(traces) // 2]
        chk.sample({"trace": {"k": t["k"], "size": t["size"], "events": [
            {k: e[k] for k in ("op", "c", "sel", "obs")} for e in t["events"][:6]]}}, limit=8)


# ---------------------------------------------------------------- entry points
def _body(chk: Check, tier: str, small: bool = False, items: Optional[List[Dict[str, Any]]] = None) -> None:
    world()
    if items is None:
        items = export_all(chk, tier, small)
    replay_exported(chk, items)
    random_traces(chk, ntraces=150 if small else (400 if tier == "quick" else 6000))


def run(tier: str) -> int:
    from . import boot
    boot.setup()
    chk = Check(PID, tier, "model_checking")
    _body(chk, tier)
    chk.cov["exhaustive"] = True
    chk.cov["rule"] = (
        "TLC enumerates every chain of the catalogues of MC_X06 (depth 1: 14 static kinds x 6 get_template_name "
        "tables x 5 get_template tables; depth 2: every static kind x few methods, few static kinds x every method "
        "table (quick: pairwise per method), same-dir and split-dir plans; thorough: all x all, depth 3, H=4) and every history of H renders/clears "
        "over cache-relevant chains for template_cache_size 0/1/2; every behaviour is replayed on real classes "
        "(real module files, override_settings) under a rotating cache-size / cached-loader configuration and a "
        "seeded choice of render route and spellings; the printed tag must be in the exported admitted set. "
        "Random chains/histories beyond the bound are validated by Trace_X06.  Non-trivial = some render shows a "
        "template or more than one level defines something; distinct by hash of (chain, history, configuration)")
    chk.assumptions += [
        "a source is 'defined' in a render iff its value is non-None (methods are Optional[...], defaults return None)",
        "an exception of any type is the documented refusal (the docs name no exception class); refusal of "
        "template+template_file may happen at class creation or at render",
        "a component-relative template_file is resolved against the directory of the class that defines it",
        "loaders are configured in the order locmem, filesystem, components loader; Django's first-match rule decides "
        "names given by get_template_name; component-relative names are admitted in addition (docstring)",
        "the context passed to get_template_name/get_template contains the data of get_context_data (40% of the "
        "generated methods read the selector from it, the others from self.input.kwargs)",
    ]
    return chk.finish()


# ---------------------------------------------------------------- selftest
@contextmanager
def _patched(pairs):
    """pairs: (object, attribute name, new value); restored on exit."""
    old = [(o, n, o.__dict__[n] if isinstance(o, type) else getattr(o, n)) for o, n, _ in pairs]
    for o, n, v in pairs:
        setattr(o, n, v)
    try:
        yield
    finally:
        for o, n, v in old:
            setattr(o, n, v)


def _repaired():
    """The three proposed diffs, applied to a scratch copy of the sources and installed in-process (only the
    definitions they touch): with them no case may fail and no finding key may be produced."""
    import ast
    import dataclasses
    import shutil
    import subprocess
    import django_components
    import django_components.component as dcomp
    import django_components.component_media as cm
    import django_components.template as dt
    from .core import REPO, ROOT
    w = workdir("x06fix")
    dst = w / "src" / "django_components"
    dst.mkdir(parents=True)
    for f in ("template.py", "component_media.py", "component.py"):
        shutil.copy(REPO / "src" / "django_components" / f, dst / f)
    for key in (KEY_F1, KEY_F2, KEY_F3):
        d = ROOT / "proposed_fixes" / f"X06-{key}.diff"
        p = subprocess.run(["patch", "-p1", "-s", "-i", str(d)], cwd=str(w), capture_output=True, text=True)
        if p.returncode != 0:
            raise MachineryError(f"proposed fix does not apply to the current sources: {d.name}: {p.stdout[:200]}")

    def defs(fname, live, names):
        tree = ast.parse((dst / fname).read_text())
        out = {}
        for node in tree.body:
            if isinstance(node, (ast.FunctionDef, ast.ClassDef)) and node.name in names:
                ns = live.__dict__
                code = compile(ast.Module(body=[node], type_ignores=[]), str(dst / fname), "exec")
                scratch: Dict[str, Any] = {}
                exec(code, ns, scratch)
                out[node.name] = scratch[node.name]
            if isinstance(node, ast.ClassDef) and node.name == "Component" and "Component._get_template" in names:
                for sub in node.body:
                    if isinstance(sub, ast.FunctionDef) and sub.name == "_get_template":
                        code = compile(ast.Module(body=[sub], type_ignores=[]), str(dst / fname), "exec")
                        scratch = {}
                        exec(code, live.__dict__, scratch)
                        out["Component._get_template"] = scratch["_get_template"]
        missing = set(names) - set(out)
        if missing:
            raise MachineryError(f"patched {fname} lacks {missing}")
        return out

    cm.field = dataclasses.field
    t = defs("template.py", dt, {"cached_template"})
    m = defs("component_media.py", cm, {"ComponentMedia", "_get_comp_cls_attr", "_raise_load_error_or_return",
                                       "_resolve_media", "resolve_component_relative_template_name"})
    dcomp.resolve_component_relative_template_name = m["resolve_component_relative_template_name"]
    c = defs("component.py", dcomp, {"Component._get_template"})
    pairs = [(dt, "cached_template", t["cached_template"]), (dcomp, "cached_template", t["cached_template"]),
             (django_components, "cached_template", t["cached_template"]),
             (dcomp.Component, "_get_template", c["Component._get_template"])]
    for name, obj in m.items():
        if not hasattr(cm, name):
            setattr(cm, name, obj)
        pairs.append((cm, name, obj))
    return _patched(pairs)


def selftest(tier: str) -> int:
    """In-process mutation probes (never touch /repo) + the proposed repairs."""
    from . import boot
    from .core import run_probes
    boot.setup()
    import django_components.component as dcomp
    import django_components.component_media as cm
    import django_components.template as dt
    from django.core.exceptions import ImproperlyConfigured
    from django.template import Template
    from django.template.loader import get_template
    Component = dcomp.Component
    orig_get = Component.__dict__["_get_template"]

    def near_not_preferred():
        # the conversion of component-relative paths is lost: names go to the COMPONENTS / TEMPLATES dirs as written
        return _patched([(cm, "_resolve_component_relative_files", lambda comp_cls, comp_media, comp_dirs: None)])

    def precedence_instead_of_refusal():
        # several sources given: the first one in a fixed order wins instead of ImproperlyConfigured
        def _get_template(self, context, component_id):
            name = self.get_template_name(context)
            if name is not None:
                return get_template(name).template
            body = getattr(self, "get_template_string", self.get_template)(context)
            if body is None:
                body = self.template
            if body is None:
                raise ImproperlyConfigured("no template")
            return dcomp.cached_template(body) if isinstance(body, str) else body
        return _patched([(Component, "_get_template", _get_template)])

    def template_memoised_per_class():
        # "optimisation": the Template of a component class is looked up once
        memo: Dict[Any, Any] = {}

        def _get_template(self, context, component_id):
            k = type(self)
            if k not in memo:
                memo[k] = orig_get(self, context, component_id)
            return memo[k]
        return _patched([(Component, "_get_template", _get_template)])

    def cache_keyed_by_component():
        # the template cache is keyed by the component (its template name) instead of the template text

        def cached_template(template_string, template_cls=None, origin=None, name=None, engine=None):
            cache = dt.get_template_cache()
            key = ("by-name", name)
            t = cache.get(key)
            if t is None:
                t = (template_cls or Template)(template_string, origin=origin, name=name, engine=engine)
                cache.set(key, t)
            return t
        return _patched([(dt, "cached_template", cached_template), (dcomp, "cached_template", cached_template)])

    def nothing_given_renders_empty():
        def _get_template(self, context, component_id):
            try:
                return orig_get(self, context, component_id)
            except ImproperlyConfigured as e:
                if "must be set" in str(e):
                    return Template("")
                raise
        return _patched([(Component, "_get_template", _get_template)])

    def template_name_alias_dropped():
        # the metaclass no longer moves a class-body `template_name` to `template_file`
        def __new__(mcs, name, bases, attrs):
            attrs["template_name"] = dcomp.ComponentTemplateNameDescriptor()
            return cm.ComponentMediaMeta.__new__(mcs, name, bases, attrs)
        return _patched([(dcomp.ComponentMeta, "__new__", staticmethod(__new__))])

    def legacy_get_template_string_ignored():
        # [D5] the lookup uses get_template only: a component that still spells it get_template_string gets nothing
        def _get_template(self, context, component_id):
            if hasattr(self, "get_template_string"):
                return orig_get(_Shim(self), context, component_id)
            return orig_get(self, context, component_id)
        return _patched([(Component, "_get_template", _get_template)])

    class _Shim:
        """Delegates to a component but has no get_template_string."""

        def __init__(self, comp):
            object.__setattr__(self, "_c", comp)

        def __getattr__(self, n):
            if n == "get_template_string":
                raise AttributeError(n)
            return getattr(object.__getattribute__(self, "_c"), n)

        @property
        def __class__(self):
            return type(object.__getattribute__(self, "_c"))

    def method_result_ignored_when_static_present():
        # a static template silently wins over what get_template returned (no refusal, dynamic choice lost)
        def _get_template(self, context, component_id):
            if self.template is not None and self.get_template_name(context) is None:
                body = self.template
                if isinstance(body, str):
                    return dcomp.cached_template(template_string=body, name=self.template_file or self.name)
                return body
            return orig_get(self, context, component_id)
        return _patched([(Component, "_get_template", _get_template)])

    base = Check(PID, "quick", "other", silent=True)
    items = export_all(base, "quick", small=True)

    def body(chk: Check) -> None:
        _body(chk, "quick", small=True, items=items)

    rc = run_probes(PID, [("component-relative-path-not-converted", near_not_preferred),
                          ("precedence-instead-of-refusal", precedence_instead_of_refusal),
                          ("template-memoised-per-class", template_memoised_per_class),
                          ("template-cache-keyed-by-component", cache_keyed_by_component),
                          ("nothing-given-renders-empty", nothing_given_renders_empty),
                          ("template_name-alias-dropped", template_name_alias_dropped),
                          ("legacy-get_template_string-ignored", legacy_get_template_string_ignored),
                          ("static-template-wins-over-get_template", method_result_ignored_when_static_present)],
                    body)
    # the proposed repairs: nothing fails and no finding key is produced any more
    try:
        cmgr = _repaired()
    except MachineryError as e:
        print(f"  repairs: not checked ({str(e)[:120]})")
        return rc
    chk = Check(PID, "quick", "other", silent=False)
    chk.max_violation_files = 0
    with cmgr:
        _body(chk, "quick", small=True, items=items)
    ok = chk.violations == 0 and not chk.known_hit
    print(f"  repairs (proposed_fixes/X06-*.diff installed in-process): violations={chk.violations} "
          f"known-findings-hit={sum(chk.known_hit.values())} -> {'clean' if ok else 'NOT CLEAN'}")
    return rc if ok else 1


def _redo(chain: "Chain", events: List[Dict[str, Any]]) -> List[Dict[str, Any]]:
    """Re-execute a recorded list of events (same routes, pages with two components as recorded)."""
    out: List[Dict[str, Any]] = []
    n = 0
    while n < len(events):
        e = events[n]
        if e["op"] == "clear":
            clear_template_cache()
            out.append(dict(e))
            n += 1
            continue
        route = e.get("route", "py")
        if route.endswith("-pair") and n + 1 < len(events) and events[n + 1].get("route") == route:
            f = events[n + 1]
            two = chain.render_pair((e["c"], e["sel"], 500 + n), (f["c"], f["sel"], 501 + n), route[:-5])
            if two is not None:
                out += two
                n += 2
                continue
        out.append(chain.render(e["c"], e["sel"], v=500 + n, route=route[:-5] if route.endswith("-pair") else route))
        n += 1
    return out


def replay(path: str) -> int:
    from . import boot
    boot.setup()
    d = json.load(open(path))
    case = d["case"]
    world()
    if case.get("kind") == "export-row":
        size, cl = case["cfg"]
        K = case["row"]["k"]
        recorded = d["detail"]["events"]
        forms = case["forms"]
    elif case.get("kind") == "trace":
        size, cl, K, recorded, forms = case["size"], case["cached_loader"], case["k"], case["events"], 0
    else:
        print("unknown replay kind")
        return 2
    print("chain:", json.dumps(K))
    bad = 0
    with env(size, cl):
        chain = Chain(K, forms)
        for src in chain.sources:
            print(src)
        reset_template_cache()
        for e, ev in zip(recorded, _redo(chain, recorded)):
            if ev["op"] == "clear":
                print("clear template cache")
                continue
            line = f"render K{ev['c']} sel={ev['sel']} route={ev['route']}: observed {ev['obs']} {ev['exc']}"
            if "exp" in e:
                ok = ev["obs"] in e["exp"]
                bad += not ok
                line += f" admitted {e['exp']} {'ok' if ok else 'MISMATCH'}"
            else:
                line += f" (recorded {e['obs']})"
            print(line)
        chain.close()
    if case.get("kind") == "trace":
        print("verdict of the specification on a trace: re-run the check with the same VERIF_SEED (Trace_X06); "
              f"recorded clauses: {d['detail'].get('clauses')}")
        return 1
    return 1 if bad else 0
