"""X04 - HTTP surface: components as views and the dependency middleware (extension check).

Specification: specs/HttpSurface.tla (Part 1 view dispatch, Part 2 render_to_response, Part 3 the
middleware as a machine over a response), specs/MC_X04.tla (bounded instances + export),
specs/Trace_X04.tla (trace validation).  The contract is extracted from the documentation only:

  docs/concepts/fundamentals/components_as_views.md
    "Components define the `Component.as_view()` class method that can be used the same as `View.as_view()`."
    "By default, you can define GET, POST or other HTTP handlers directly on the Component, same as you do
     with View."
    "`Component.as_view()` is a shorthand for calling `View.as_view()` and passing the component instance
     as one of the arguments."
    "the request is still handled by `Component.View.get()` or `Component.View.post()` methods. However, by
     default, `Component.View.get()` points to `Component.get()`, and so on."
    "If you were to overwrite the `View.post()` method, then `Component.post()` would be ignored."
  Django's View (the class those sentences point to): dispatch() delegates GET to get() etc., "By default, a
    HEAD request will be delegated to get()"; a method the view does not support -> http_method_not_allowed
    (405, Allow header); options() "Returns a response with the Allow header containing a list of the view's
    allowed HTTP method names"; http_method_names "The list of HTTP method names that this view will accept".
  Component.render_to_response docstring
    "Render the component and wrap the content in the response class.  The response class is taken from
     `Component.response_class`. Defaults to `django.http.HttpResponse`."
    "Any additional args and kwargs are passed to the `response_class`."
    "`request` ... Unused if context is already an instance of `Context`"
  docs/concepts/advanced/rendering_js_css.md, docs/overview/installation.md, docs/guides/devguides/dependency_mgmt.md
    "The middleware searches the outgoing HTML for all components that were rendered to generate the HTML,
     and adds the JS and CSS associated with those components."  /  "scans all outgoing HTML"
    "the `ComponentDependencyMiddleware` middleware just calls `render_dependencies()`, passing in the HTML content."
    "It ensures that only the necessary stylesheets and scripts are loaded in your HTML responses"
    MIDDLEWARE = [ "# ... other middleware classes ...", the middleware, "# ... other middleware classes ..." ]
    "nor `<head>` nor `<body>` HTML tags. So the component's JS and CSS will NOT be inserted, and will be lost."
    "`Component.render_to_response()` (always renders dependencies)"
  Django's CommonMiddleware: "Sets the Content-Length header for non-streaming responses."

spec -> code: TLC enumerates (a) every dispatch case: handlers on the nested View x handlers on the Component
              (all 2 x 255 one-sided subsets of the 8 method names; all 16 x 16 two-sided subsets of 4) x
              http_method_names settings x request method x URL-argument shape; (b) all 1536 input
              combinations of render_to_response; (c) the state graph of the response pipeline: every initial
              response (kind x content type x status x Content-Length x body shape x markers) and every
              sequence of <= 3 layers out of {ComponentDependencyMiddleware, CommonMiddleware}, one exported
              line per transition with the admitted outcome set.  Every case is replayed on real Component
              classes (django.test.RequestFactory, real URL resolution, the real middleware classes chained
              by hand, sync and - asyncio.run - async) and compared.
code -> spec: a seeded driver builds random sites (components with random handler sets / nested Views /
              http_method_names / child components, mounted in a real URLconf next to plain views that
              return every response kind), serves random request sequences through django's BaseHandler
              (sync and async) with random MIDDLEWARE stacks, records the answer of the dispatch and the
              response after every layer (recording taps between the middlewares), and TLC validates the
              batch against the same specification (Trace_X04).

Unspecified zones (admitted as sets or not generated; rule 1):
  * content types that are HTML only under some reading (`TEXT/HTML`, `application/xhtml+xml`,
    `text/html-sandboxed`, no Content-Type header) and streaming responses declared text/html: untouched
    or processed, both admitted (docs say "HTML responses" and nothing more);
  * whether a pass over a document that carries no component markers adds the component-independent client
    script (`django_components.min.js`) again: both admitted.  OBSERVED: it does - the documented set-up
    (middleware + a component view answering with render_to_response) delivers that script twice; the JS/CSS
    of the components themselves stay delivered exactly once, which is what the specification demands;
  * where inside the document the tags go, what the generated blocks contain, placeholders: C08 / C04;
  * Content-Encoding set by an inner layer (gzip), malformed markers, non-ASCII class names: not generated;
  * object identity / class of the response object returned by the middleware: not compared;
  * async handlers (`async def get`) on a component: not generated (docs do not mention them).

Named deviations (genuine defects of the unchanged tree, KNOWN_FINDINGS.txt; the predictions live in
HttpSurface!DevAnswer / DevCdmOutcomes, so any *other* wrong outcome on the same shape is a VIOLATION):
  request-method-without-handler:AttributeError, head-request-get-handler-only:AttributeError,
  options-request-no-options-handler:AttributeError,
  method-outside-http_method_names:allow-lists-methods-without-handler,
  content-length-set-by-inner-layer-and-body-changed:content-length-left-stale.
"""
from __future__ import annotations

import asyncio
import base64
import io
import itertools
import json
import logging
import os
import random
import re
import sys
import types
from typing import Any, Dict, List, Optional, Tuple

from . import tlc
from .core import Check, MachineryError, canon, workdir

PID = "X04"
ALL_METHODS = ["get", "post", "put", "patch", "delete", "head", "options", "trace"]
HTML_CT = ["text/html; charset=utf-8", "text/html", "text/html;charset=utf-8", "text/html; charset=iso-8859-1"]
OTHER_CT = ["text/plain; charset=utf-8", "application/json", "text/xml", "text/css", "application/octet-stream",
            "image/svg+xml", "application/javascript"]
UNSPEC_CT = ["TEXT/HTML; charset=utf-8", "Text/Html", "application/xhtml+xml", "text/html-sandboxed", "none"]
ALL_CT = HTML_CT + OTHER_CT + UNSPEC_CT
DEFAULT_CT = "text/html; charset=utf-8"
CDM = "django_components.middleware.ComponentDependencyMiddleware"
COMMON = "django.middleware.common.CommonMiddleware"
DEV_CL = "content-length-set-by-inner-layer-and-body-changed:content-length-left-stale"

_uniq = itertools.count(1)
_MAIN_PID = os.getpid()
_child_ready = False
WORKERS = 6


def _child_init() -> None:
    """In a forked worker: asgiref's global single-thread executor believes it still has the parent's
    thread; give the worker a fresh one (otherwise sync_to_async never runs there)."""
    global _child_ready
    if os.getpid() != _MAIN_PID and not _child_ready:
        from concurrent.futures import ThreadPoolExecutor
        from asgiref.sync import SyncToAsync
        SyncToAsync.single_thread_executor = ThreadPoolExecutor(max_workers=1)
        _child_ready = True
R_ID = re.compile(r"data-djc-id-\w{6}")
R_MARK = re.compile(rb"<!--\s*_RENDERED\s+([^,\s]+),")
CORE_SCRIPT = b"django_components.min.js"
KW_SHAPES = {  # abstract URL-argument shape -> (route, concrete path, args the handler must receive, kwargs)
    "none": ("path", "v/", "/v/", [], {}),
    "pk": ("path", "v/<int:pk>/", "/v/7/", [], {"pk": 7}),
    "pk_slug": ("path", "v/<int:pk>/<slug:name>/", "/v/7/ab-c/", [], {"pk": 7, "name": "ab-c"}),
    "posargs": ("re_path", r"^v/(\d+)/(\w+)/$", "/v/7/abc/", ["7", "abc"], {}),
}


def _quiet() -> None:
    logging.getLogger("django.request").disabled = True
    logging.getLogger("django.security").disabled = True
    import warnings
    warnings.filterwarnings("ignore", message=".*StreamingHttpResponse must consume.*")


def _rf():
    from django.test import RequestFactory
    return RequestFactory()


# ===================================================================== real component classes
def js_tok(name: str) -> str:
    return f"/*vfjs:{name}*/console.log('{name}');"


def css_tok(name: str) -> str:
    return f"/*vfcss:{name}*/.{name}{{color:red}}"


def _echo_handler(who: str, name: str, via_rtr: bool):
    """A handler that reports who it is and what it was called with."""
    from django.http import HttpResponse

    def handler(self, request, *args, **kwargs):
        comp = self if who == "comp" else self.component
        echo = json.dumps({"who": who, "h": name, "method": request.method, "args": list(args), "kwargs": kwargs,
                           "q": request.GET.get("q"), "inst": comp is getattr(type(comp), "vf_instance", None)},
                          sort_keys=True)
        if via_rtr:
            return comp.render_to_response(kwargs={"echo": echo})
        return HttpResponse(echo, content_type="application/json")
    handler.__name__ = name
    return handler


def make_view_component(name: str, vd, cd, names, names_via: str, *, rtr_all: bool = False, template: str = None,
                        assets: bool = True, on: str = "class"):
    """A real Component with handlers `cd` on itself and `vd` on a nested View(ComponentView); returns
    (class, view function).  names: None = http_method_names untouched."""
    from django_components import Component, ComponentView
    d: Dict[str, Any] = {
        "template": template or "<html><head></head><body>[[T0]][echo={{ echo|safe }}][[T1]]</body></html>",
        "get_context_data": lambda self, echo="": {"echo": echo},
        "__module__": __name__,
    }
    if assets:
        d["js"] = js_tok(name)
        d["css"] = css_tok(name)
    for m in cd:
        d[m] = _echo_handler("comp", m, rtr_all or m == "get")
    if vd or (names is not None and names_via == "class"):
        vdct: Dict[str, Any] = {m: _echo_handler("view", m, rtr_all or m == "get") for m in vd}
        if names is not None and names_via == "class":
            vdct["http_method_names"] = list(names)
        d["View"] = type("View", (ComponentView,), vdct)
    cls = type(name, (Component,), d)
    target = cls
    if on == "instance":
        target = cls.vf_instance = cls()
    if names is not None and names_via != "class":
        view = target.as_view(http_method_names=list(names))
    else:
        view = target.as_view()
    return cls, view


def classify_answer(resp, exc: Optional[BaseException]) -> Tuple[Dict[str, Any], Dict[str, Any]]:
    """Project what the dispatch did onto HttpSurface's answer record, plus what the handler saw."""
    seen: Dict[str, Any] = {"method": "", "args": None, "kwargs": None, "inst": False}
    if exc is not None:
        return {"res": "raises", "st": 0, "who": type(exc).__name__, "h": "", "allow": []}, seen
    st = resp.status_code
    allow = sorted(x.strip().lower() for x in resp.headers.get("Allow", "").split(",") if x.strip())
    body = resp.content.decode("utf-8", "replace") if not getattr(resp, "streaming", False) else ""
    echo = None
    m = re.search(r"\[echo=(\{.*?\})\]\[\[T1\]\]", body, re.S)
    try:
        if m:
            echo = json.loads(m.group(1))
        elif body.startswith('{"args"'):
            echo = json.loads(body)
    except ValueError:
        echo = None
    if st == 405:
        return {"res": "405", "st": 405, "who": "none", "h": "", "allow": allow}, seen
    if echo is not None:
        seen = {"method": echo["method"].lower(), "args": echo["args"], "kwargs": echo["kwargs"], "inst": echo["inst"]}
        return {"res": "handled", "st": st, "who": echo["who"], "h": echo["h"], "allow": []}, seen
    if st == 200 and "Allow" in resp.headers and body == "":
        return {"res": "options", "st": 200, "who": "auto", "h": "", "allow": allow}, seen
    return {"res": "other", "st": st, "who": "?", "h": "", "allow": allow}, seen


def same_answer(a: Dict[str, Any], b: Dict[str, Any]) -> bool:
    return (a["res"], a["st"], a["who"], a["h"], sorted(a["allow"])) == (b["res"], b["st"], b["who"], b["h"], sorted(b["allow"]))


# ===================================================================== spec -> code: dispatch
_VIEW_CACHE: Dict[str, Any] = {}


def replay_dispatch(row: Dict[str, Any]) -> Optional[Tuple[Dict[str, Any], Optional[str]]]:
    """Replay one exported dispatch case; None if it conforms, else (detail, finding key or None)."""
    from django.urls import path, re_path
    from django.urls.resolvers import RegexPattern, URLResolver
    vd, cd, names = sorted(row["vd"]), sorted(row["cd"]), sorted(row["names"])
    restricted = set(names) != set(ALL_METHODS)
    names_via = "class" if (len(vd) + len(cd) + len(names)) % 2 == 0 else "initkwargs"
    ck = canon([vd, cd, names if restricted else None, names_via, row["kw"], row["on"]])
    if ck not in _VIEW_CACHE:
        if len(_VIEW_CACHE) > 4000:
            _VIEW_CACHE.clear()
        name = f"X04D{next(_uniq)}"
        _, view = make_view_component(name, vd, cd, names if restricted else None, names_via, on=row["on"])
        kind, route, url, args, kwargs = KW_SHAPES[row["kw"]]
        pat = path(route, view) if kind == "path" else re_path(route, view)
        _VIEW_CACHE[ck] = (URLResolver(RegexPattern(r"^/"), [pat]), url, args, kwargs)
    resolver, url, args, kwargs = _VIEW_CACHE[ck]
    req = _rf().generic(row["m"].upper(), url, QUERY_STRING="q=1")
    match = resolver.resolve(url)
    resp, exc = None, None
    try:
        resp = match.func(req, *match.args, **match.kwargs)
    except Exception as e:      # noqa: BLE001 - the observation
        exc = e
    obs, seen = classify_answer(resp, exc)
    if same_answer(obs, row["exp"]):
        if obs["res"] == "handled":
            want = {"method": row["seen"]["method"], "args": args, "kwargs": kwargs, "inst": row["seen"]["inst"]}
            if seen != want:
                return {"what": "handler-did-not-receive-request-and-url-arguments-on-the-right-instance",
                        "expected": want, "observed": seen}, None
        if obs["res"] == "options" and resp.content != b"":
            return {"what": "automatic-options-has-a-body", "observed": resp.content[:80]}, None
        return None
    detail = {"what": "dispatch", "expected": row["exp"], "observed": obs,
              "exception": repr(exc)[:200] if exc else None}
    if row["dev"]["key"] and same_answer(obs, row["dev"]["out"]):
        return detail, row["dev"]["key"]
    return detail, None


# ===================================================================== spec -> code: render_to_response
_RTR: Dict[str, Any] = {}


def _rtr_classes():
    if _RTR:
        return _RTR
    from django.http import HttpResponse
    from django_components import Component

    class X04Resp(HttpResponse):
        def __init__(self, *a, **k):
            self.vf_init = (a, dict(k))
            super().__init__(*a, **k)

    tpl = ("<html><head><title>t</title></head><body>[a={{ a }}][k={{ k }}][c={{ c }}]"
           "[csrf={% if csrf_token %}y{% else %}n{% endif %}][s={% slot \"s\" %}dflt{% endslot %}]</body></html>")
    d = {"template": tpl, "js": js_tok("X04Rtr"), "css": css_tok("X04Rtr"), "__module__": __name__,
         "get_context_data": lambda self, a="dflt", k="dflt": {"a": a, "k": k}}
    _RTR["default"] = type("X04RtrA", (Component,), dict(d))
    _RTR["custom"] = type("X04RtrB", (Component,), dict(d, response_class=X04Resp, js=js_tok("X04Rtr"), css=css_tok("X04Rtr")))
    _RTR["resp"] = X04Resp
    return _RTR


def _declared(html: str, cls) -> int:
    """1 if the fragment's loader data announces the class's own JS and CSS URLs (to load)."""
    h = cls._class_hash
    js = css = 0
    for blob in re.findall(r'<script type="application/json" data-djc>(.*?)</script>', html, re.S):
        data = json.loads(blob)
        for b64 in data.get("toLoadJsTags", []):
            js += f"{h}.js" in base64.b64decode(b64).decode()
        for b64 in data.get("toLoadCssTags", []):
            css += f"{h}.css" in base64.b64decode(b64).decode()
    return 1 if (js, css) == (1, 1) else (0 if (js, css) == (0, 0) else -1)


def replay_rtr(row: Dict[str, Any]) -> Optional[Dict[str, Any]]:
    from django.http import HttpResponse
    from django.template import Context
    K = _rtr_classes()
    i, exp = row["i"], row["exp"]
    cls = K[i["rc"]]
    ctx = None if i["cx"] == "none" else ({"c": "C1"} if i["cx"] == "dict" else Context({"c": "C1"}))
    ctx2 = None if i["cx"] == "none" else ({"c": "C1"} if i["cx"] == "dict" else Context({"c": "C1"}))
    args = None if i["a"] == "none" else [i["a"]]
    kwargs = None if i["k"] == "none" else {"k": i["k"]}
    slots = None if i["s"] == "none" else {"s": i["s"]}
    req = _rf().get("/r/") if i["rq"] else None
    status = None if i["st"] == 0 else i["st"]
    extra_kw: Dict[str, Any] = {}
    if i["hd"]:
        extra_kw["headers"] = {"X-Vf": "1"}
    try:
        if i["pos"]:
            r = cls.render_to_response(ctx, slots, True, args, kwargs, i["ty"], req, "application/xhtml+xml", status, **extra_kw)
        else:
            if status is not None:
                extra_kw["status"] = status
            r = cls.render_to_response(context=ctx, slots=slots, args=args, kwargs=kwargs, type=i["ty"], request=req, **extra_kw)
        ref = cls.render(context=ctx2, slots=slots, args=args, kwargs=kwargs, type=i["ty"], request=req)
    except Exception as e:      # noqa: BLE001
        return {"what": "render_to_response-raised", "exception": repr(e)[:300]}
    html = r.content.decode(r.charset or "utf-8")
    tok = {k: (re.search(r"\[%s=(.*?)\]" % k, html) or [None, None])[1] for k in ("a", "k", "c", "csrf", "s")}
    ncss, njs = html.count(css_tok("X04Rtr")), html.count(js_tok("X04Rtr"))
    obs = {"cls": "default" if type(r) is HttpResponse else ("custom" if type(r) is K["resp"] else type(r).__name__),
           "st": r.status_code, "hd": r.headers.get("X-Vf") == "1", "ct": r.headers.get("Content-Type"),
           "a": tok["a"], "k": tok["k"], "s": tok["s"], "cx": tok["c"], "csrf": tok["csrf"] == "y",
           "marks": len(R_MARK.findall(r.content)),
           "inlined": 1 if (ncss, njs) == (1, 1) else (0 if (ncss, njs) == (0, 0) else -1),
           "declared": _declared(html, cls),
           "sameAsRender": R_ID.sub("ID", html) == R_ID.sub("ID", str(ref))}
    if obs != exp:
        return {"what": "render_to_response", "expected": exp, "observed": obs}
    if i["rc"] == "custom":
        a, k = r.vf_init
        want_a = ("application/xhtml+xml", status) if i["pos"] else ()
        want_k = dict(extra_kw)
        if a[1:] != want_a or k != want_k or R_ID.sub("ID", str(a[0])) != R_ID.sub("ID", str(ref)):
            return {"what": "response_class-called-with-other-arguments", "expected": [list(want_a), want_k],
                    "observed": [repr(a[1:]), repr(k)]}
    return None


# ===================================================================== real responses for abstract ones
class Assets:
    """Real component classes 1..n for response bodies (registered in the private registry of vf.prog):
    `with_assets` carry inline JS and CSS, the others none."""

    def __init__(self, n: int, with_assets, tag: str = "m", classes=None, names=None):
        from django_components import Component
        from . import prog
        self.reg, _ = prog.registry("django")
        self.n = n
        self.with_assets = set(with_assets)
        self.uid = next(_uniq)
        self.classes: List[Any] = list(classes or [])
        self.names: List[str] = list(names or [])
        if classes is None:
            for c in range(1, n + 1):
                name = f"X04{tag}{self.uid}K{c}"
                d: Dict[str, Any] = {"template": f"<div class=\"k{c}\">k{c}</div>", "__module__": __name__}
                if c in self.with_assets:
                    d["js"] = js_tok(name)
                    d["css"] = css_tok(name)
                cls = type(name, (Component,), d)
                self.classes.append(cls)
                self.names.append(f"x04{tag}_{c}")          # stable registered names: template cache is reused
                self.reg.register(self.names[-1], cls)
        self.by_hash = {cls._class_hash.encode(): c + 1 for c, cls in enumerate(self.classes)}
        self.css = [css_tok(cls.__name__).encode() for cls in self.classes]
        self.js = [js_tok(cls.__name__).encode() for cls in self.classes]

    def close(self) -> None:
        for n in self.names:
            try:
                self.reg.unregister(n)
            except Exception:   # noqa: BLE001
                pass
        self.names = []

    def marker_html(self, c: int) -> str:
        return str(self.classes[c - 1].render(render_dependencies=False))

    def tag(self, c: int) -> str:
        return '{% c_django "' + self.names[c - 1] + '" / %}'


TEXTS = ["[[T0]]", "[[T1]] café ü", "[[T2]]"]
TOKENS = [b"[[T0]]", b"[[T1]]", b"[[T2]]"]


def body_source(shape: str, marks: List[int], piece) -> str:
    """Text of a body of the abstract shape; piece(c) gives what stands for a marker of component c."""
    mid = "".join(f"<p>m{n}</p>" + piece(c) for n, c in enumerate(marks))
    if shape == "doc":
        return (f"<!DOCTYPE html><html><head><title>{TEXTS[0]}</title></head><body><p>{TEXTS[1]}</p>{mid}"
                f"<p>{TEXTS[2]}</p></body></html>")
    if shape == "frag":
        return f"<div>{TEXTS[0]}</div><section>{TEXTS[1]}{mid}</section><span>{TEXTS[2]}</span>"
    return '{"a": "%s", "b": "%s", "c": "%s"}' % tuple(TEXTS)


def build_response(r: Dict[str, Any], A: Assets):
    """A real django response object in the abstract state r (an *initial* response: nothing delivered)."""
    from django.http import FileResponse, HttpResponse, StreamingHttpResponse
    from django.template import engines
    from django.template.response import TemplateResponse
    b = r["body"]
    ct = None if r["ct"] == "none" else r["ct"]
    charset = "iso-8859-1" if ct and "iso-8859-1" in ct else "utf-8"
    kind = r["kind"]
    if kind == "template":
        src = "{% load lib_django %}" + body_source(b["shape"], b["marks"], A.tag)
        resp = TemplateResponse(_rf().get("/p/"), engines["django"].from_string(src), {}, content_type=ct or DEFAULT_CT,
                                status=r["st"])
        resp.render()
    else:
        text = body_source(b["shape"], b["marks"], A.marker_html)
        data = text.encode(charset)
        if kind == "http":
            resp = HttpResponse(data, content_type=ct or DEFAULT_CT, status=r["st"])
        elif kind == "stream":
            k = max(1, len(data) // 3)
            resp = StreamingHttpResponse(iter([data[:k], data[k:2 * k], data[2 * k:]]), content_type=ct or DEFAULT_CT,
                                         status=r["st"])
        elif kind == "file":
            resp = FileResponse(io.BytesIO(data), content_type=ct or DEFAULT_CT, status=r["st"])
        else:
            raise MachineryError(f"unknown response kind {kind}")
    if ct is None:
        del resp.headers["Content-Type"]
    resp.headers["X-Vf"] = "1"
    resp.headers["Cache-Control"] = "no-cache"
    resp.headers["Vary"] = "Cookie"
    resp.set_cookie("vf", "1")
    if r["cl"] == "ok" and kind in ("http", "template"):
        resp.headers["Content-Length"] = str(len(resp.content))
    return resp


def body_bytes(resp) -> bytes:
    """Body of any response; a streaming body is read and put back so later layers still see it."""
    if getattr(resp, "streaming", False):
        chunks = list(resp.streaming_content)
        resp.streaming_content = iter(chunks)
        return b"".join(chunks)
    return resp.content


def resp_kind(resp) -> str:
    from django.http import FileResponse, HttpResponse, StreamingHttpResponse
    from django.template.response import SimpleTemplateResponse
    if isinstance(resp, FileResponse):
        return "file"
    if isinstance(resp, StreamingHttpResponse):
        return "stream"
    if isinstance(resp, SimpleTemplateResponse):
        return "template"
    if isinstance(resp, HttpResponse):
        return "http"
    return "other:" + type(resp).__name__


def header_view(resp) -> List[Any]:
    return [sorted((k.lower(), v) for k, v in resp.headers.items() if k.lower() != "content-length"),
            resp.cookies.output() if hasattr(resp, "cookies") else ""]


class Frame:
    """What the view handed to the stack (the reference for 'kept' observations)."""

    def __init__(self, resp, A: Assets, shape: Optional[str], tokens):
        self.A = A
        self.headers = header_view(resp)
        self.tokens = tokens
        self.shape = shape
        self.prev = body_bytes(resp)


def project(resp, fr: Frame) -> Tuple[Dict[str, Any], bool]:
    """Abstract state of a real response (HttpSurface resp record), and whether the body bytes are the
    same as after the previous layer.  Updates the frame's previous body."""
    A = fr.A
    data = body_bytes(resp)
    cl_h = resp.headers.get("Content-Length")
    if cl_h is None:
        cl = "absent"
    elif cl_h == str(len(data)):
        cl = "ok"
    elif cl_h == str(len(fr.prev)):
        cl = "stale"
    else:
        cl = "wrong:" + cl_h
    pos, txt = 0, True
    for t in fr.tokens:
        k = data.find(t, pos)
        if k < 0 or data.count(t) != 1:
            txt = False
            break
        pos = k + len(t)
    is_doc = b"</head>" in data and b"</body>" in data
    shape = "doc" if is_doc else (fr.shape if fr.shape in ("frag", "text") else "frag")
    marks = [A.by_hash.get(h, 0) for h in R_MARK.findall(data)]
    out = {"kind": resp_kind(resp), "ct": resp.headers.get("Content-Type", "none"), "st": resp.status_code,
           "hk": header_view(resp) == fr.headers, "cl": cl,
           "body": {"shape": shape, "txt": txt, "marks": marks,
                    "css": [data.count(x) for x in A.css], "js": [data.count(x) for x in A.js],
                    "core": data.count(CORE_SCRIPT)}}
    same = data == fr.prev
    fr.prev = data
    return out, same


def raised_state(e: BaseException) -> Dict[str, Any]:
    return {"kind": "raised:" + type(e).__name__, "ct": "none", "st": 0, "hk": False, "cl": "absent",
            "body": {"shape": "text", "txt": False, "marks": [], "css": [], "js": [], "core": 0}}


# ===================================================================== the pipeline, chained by hand
class Tap:
    """Recording layer: projects the response that passes, repairs a stale Content-Length after it has
    been recorded (so that later layers start from a state the specification knows)."""

    sync_capable = True
    async_capable = True
    sink: List[Any] = []
    frame: Optional[Frame] = None

    def __init__(self, get_response):
        from asgiref.sync import iscoroutinefunction, markcoroutinefunction
        self.get_response = get_response
        self.is_async = iscoroutinefunction(get_response)
        if self.is_async:
            markcoroutinefunction(self)

    def record(self, resp):
        fr = Tap.frame
        if fr is None:           # innermost tap of a handler stack: the frame is made from what the view returned
            fr = Tap.frame = Tap.make_frame(resp)
        st, same = project(resp, fr)
        Tap.sink.append((st, same))
        if st["cl"] == "stale":
            resp.headers["Content-Length"] = str(len(fr.prev))
        return resp

    make_frame = None

    def __call__(self, request):
        if self.is_async:
            return self.acall(request)
        return self.record(self.get_response(request))

    async def acall(self, request):
        return self.record(await self.get_response(request))


def layer_class(layer: str):
    if layer == "cdm":
        from django_components.middleware import ComponentDependencyMiddleware
        return ComponentDependencyMiddleware
    from django.middleware.common import CommonMiddleware
    return CommonMiddleware


def run_chain(resp, layers: List[str], via: str, fr: Frame) -> List[Tuple[str, Dict[str, Any], bool]]:
    """Push one real response through real middleware layers (innermost first); returns, per layer,
    (layer, abstract state after it, body unchanged by it).  A layer that raises ends the run."""
    Tap.sink, Tap.frame = [], fr
    if via == "async":
        async def base(request):
            return resp
    else:
        def base(request):
            return resp
    chain = base
    for layer in layers:
        chain = Tap(layer_class(layer)(chain))
    req = _rf().get("/p/")
    try:
        if via == "async":
            asyncio.run(chain(req))
        else:
            chain(req)
    except Exception as e:      # noqa: BLE001 - the observation
        out = [(layers[n], st, same) for n, (st, same) in enumerate(Tap.sink)]
        out.append((layers[len(Tap.sink)], raised_state(e), False))
        return out
    return [(layers[n], st, same) for n, (st, same) in enumerate(Tap.sink)]


# ===================================================================== spec -> code: middleware graph
class MwTable:
    def __init__(self, rows: List[Dict[str, Any]]):
        self.steps: Dict[Tuple[str, str], Dict[str, Any]] = {}
        self.inits: List[Dict[str, Any]] = []
        self.transitions = set()
        for r in rows:
            if r["layer"] == "view":
                self.inits.append(r["pre"])
                continue
            self.steps.setdefault((canon(r["pre"]), r["layer"]), {"adm": r["adm"], "dev": r["dev"], "devkey": r["devkey"],
                                                                  "vias": r["vias"]})
            self.transitions.add((canon(r["pre"]), r["layer"], canon(r["post"])))
        self.inits.sort(key=canon)


def judge_step(tab_entry: Dict[str, Any], st: Dict[str, Any], same: bool) -> Tuple[str, Optional[str]]:
    """'ok' | 'dev' | 'bad' for an observed step against the exported admitted / deviation sets."""
    for o in tab_entry["adm"]:
        if o["r"] == st and (not o["ident"] or same):
            return "ok", None
    for o in tab_entry["dev"]:
        if o["r"] == st and (not o["ident"] or same):
            return "dev", tab_entry["devkey"]
    return "bad", None


_MW: Dict[str, Any] = {}


def _walk_init(n: int) -> Dict[str, Any]:
    """All layer sequences x vias from initial response n; every step judged against the table."""
    _child_init()
    tab: MwTable = _MW["tab"]
    A: Assets = _MW["assets"]
    depth: int = _MW["depth"]
    init = tab.inits[n]
    res = {"viol": [], "known": [], "steps": 0, "runs": 0, "reached": set()}
    tokens = TOKENS
    for seq in itertools.product(["cdm", "common"], repeat=depth):
        for via in ("sync", "async"):
            resp = build_response(init, A)
            fr = Frame(resp, A, init["body"]["shape"], tokens)
            st0, _ = project(resp, fr)
            if st0 != init:
                raise MachineryError(f"concretisation of the initial response is wrong:\nwant {init}\ngot  {st0}")
            cur = init
            res["runs"] += 1
            done: List[str] = []
            for layer, st, same in run_chain(resp, list(seq), via, fr):
                entry = tab.steps.get((canon(cur), layer))
                if entry is None:
                    raise MachineryError(f"pipeline reached a state the export does not contain: {cur} / {layer}")
                if via not in entry["vias"]:
                    raise MachineryError("via not covered by the exported row")
                verdict, key = judge_step(entry, st, same)
                res["steps"] += 1
                done.append(layer)
                case = {"kind": "mw", "init": init, "layers": list(done), "via": via}
                if verdict == "bad":
                    res["viol"].append((case, {"what": "layer-outcome-not-admitted", "layer": layer, "pre": cur,
                                               "observed": st, "body_same": same,
                                               "admitted": entry["adm"][:4]}, None))
                    break
                if verdict == "dev":
                    res["known"].append((case, {"deviation": key, "pre": cur, "observed": st}, key))
                    st = dict(st, cl="ok")          # the tap repaired the header
                res["reached"].add((canon(cur), layer, canon(st)))
                cur = st
    return res


def model_check(chk: Check, family: str, name: str, **kw) -> List[Dict[str, Any]]:
    w = workdir("x04mc")
    cfg = w / f"{name}.cfg"
    out = w / f"{name}.ndjson"
    ck = ("export", name, canon(kw))
    if ck in _EXPORTS:
        r, rows = _EXPORTS[ck]
    else:
        write_cfg(cfg, family, **kw)
        r = tlc.require_ok(tlc.run("MC_X04", str(cfg), env={"OUT": str(out)}, workers=1, heap="3g"), f"MC_X04 {name}")
        rows = tlc.read_ndjson(out)
        if len(rows) != r.distinct:
            raise MachineryError(f"export incomplete: {len(rows)} rows for {r.distinct} states ({name})")
        if _KEEP_EXPORTS:
            _EXPORTS[ck] = (r, rows)
    chk.add("states", r.distinct)
    chk.add("transitions", r.generated)
    chk.cov.setdefault("per_configuration", {})[name] = {"states": r.distinct, "generated": r.generated,
                                                         "tlc_s": round(r.wall_s, 1)}
    return rows


_EXPORTS: Dict[Any, Any] = {}
_KEEP_EXPORTS = False


def tla_set(xs) -> str:
    return "{" + ", ".join(xs) + "}"


def tla_strs(xs) -> str:
    return tla_set(f'"{x}"' for x in xs)


def write_cfg(path, family: str, ms=(), split=False, namesets=(), reqms=(), kws=(), ons=("class",), maxdepth=3,
              kinds=("http", "template", "stream", "file"), cts=tuple(ALL_CT), sts=(200, 404), cls=("absent", "ok"),
              shapes=("doc", "frag", "text"), markseqs="MarkSeqsAll") -> None:
    path.write_text(
        "SPECIFICATION MCSpec\nCONSTANTS\n"
        f'  Family = "{family}"\n  Ms = {tla_strs(ms)}\n  Split = {"TRUE" if split else "FALSE"}\n'
        f"  NameSets = {tla_set(tla_strs(n) for n in namesets)}\n  ReqMs = {tla_strs(reqms)}\n  Kws = {tla_strs(kws)}\n  Ons = {tla_strs(ons)}\n"
        f"  MaxDepth = {maxdepth}\n  Kinds = {tla_strs(kinds)}\n  Cts = {tla_strs(cts)}\n"
        f"  Sts = {tla_set(str(s) for s in sts)}\n  Cls = {tla_strs(cls)}\n  Shapes = {tla_strs(shapes)}\n"
        f"  MarkSeqs <- {markseqs}\n  NC = 3\n  Assets = {{1, 2}}\n"
        "INVARIANT DispatchTheorems\nINVARIANT MwInvariants\nINVARIANT Export\nPROPERTY SecondPassHarmless\n")


def dispatch_family(chk: Check, quick: bool, small: bool = False) -> None:
    confs = [
        ("D1", dict(ms=ALL_METHODS, split=False, namesets=[ALL_METHODS], reqms=ALL_METHODS + ["propfind"], kws=["pk"],
                    ons=["class", "instance"])),
        ("D2", dict(ms=["get", "post", "head", "options"], split=True,
                    namesets=[ALL_METHODS, ["get"], ["get", "post", "options"], ["post", "head"]],
                    reqms=["get", "post", "head", "options", "put"],
                    kws=["none", "pk_slug", "posargs"] if not small else ["pk_slug"])),
    ]
    if not quick:
        confs.append(("D3", dict(ms=["get", "post", "put", "delete", "head", "options"], split=True,
                                 namesets=[ALL_METHODS, ["get", "head"], ["options", "delete", "trace"]],
                                 reqms=["get", "post", "put", "delete", "head", "options", "trace"], kws=["pk"])))
    for name, kw in confs:
        rows = model_check(chk, "dispatch", name, **kw)
        if small and len(rows) > 2500:          # a seeded sample (a stride would alias with the enumeration order)
            rows = random.Random(len(rows)).sample(rows, 2500)
        handled = 0
        from .pool import pmap
        results = pmap(replay_dispatch, rows, workers=WORKERS, per_item_s=10.0, chunk=500)
        for row, bad in zip(rows, results):
            if isinstance(bad, dict) and bad.get("hang"):
                raise MachineryError(f"dispatch case did not finish: {row}")
            nontrivial = bool(row["vd"] or row["cd"])
            chk.count(["dispatch", row["vd"], row["cd"], row["names"], row["m"], row["kw"], row["on"]], nontrivial)
            handled += row["exp"]["res"] == "handled"
            if bad:
                chk.violation({"kind": "dispatch", "row": row}, bad[0], key=bad[1])
        chk.add("dispatch_cases_replayed", len(rows))
        chk.add("dispatch_cases_answered_by_a_handler", handled)
        chk.sample({"dispatch": {k: rows[len(rows) // 3][k] for k in ("vd", "cd", "names", "m", "kw", "on", "exp")}}, limit=4)
        _VIEW_CACHE.clear()


def rtr_family(chk: Check, small: bool = False) -> None:
    rows = model_check(chk, "rtr", "R")
    if small:
        rows = random.Random(len(rows)).sample(rows, 512)
    for row in rows:
        chk.count(["rtr", row["i"]], nontrivial=any(row["i"][k] != "none" for k in ("a", "k", "s", "cx")))
        bad = replay_rtr(row)
        if bad:
            chk.violation({"kind": "rtr", "row": row}, bad)
    chk.add("render_to_response_cases_replayed", len(rows))
    chk.sample({"render_to_response": rows[len(rows) // 2]}, limit=6)


def mw_family(chk: Check, quick: bool, small: bool = False) -> None:
    kw: Dict[str, Any] = dict(maxdepth=4)
    if small:
        kw = dict(maxdepth=2, sts=(200, 404), markseqs="MarkSeqsSmall",
                  cts=("text/html; charset=utf-8", "text/html", "text/plain; charset=utf-8", "application/json",
                       "text/css", "TEXT/HTML; charset=utf-8", "none"))
    elif quick:
        kw = dict(maxdepth=3)
    rows = model_check(chk, "mw", "M", **kw)
    tab = MwTable(rows)
    A = Assets(3, {1, 2})
    _MW.update(tab=tab, assets=A, depth=kw["maxdepth"])
    try:
        reached = set()
        from .pool import pmap
        results = pmap(_walk_init, list(range(len(tab.inits))), workers=WORKERS, per_item_s=30.0, chunk=16)
        for n, res in enumerate(results):
            if res.get("hang") or "viol" not in res:
                raise MachineryError(f"pipeline walk from initial response {n} did not finish: {res}")
            for case, detail, key in res["viol"] + res["known"]:
                chk.violation(case, detail, key=key)
            chk.add("mw_pipelines_run", res["runs"])
            chk.add("mw_layer_steps_checked", res["steps"])
            reached |= res["reached"]
            chk.count(["mw", tab.inits[n]], nontrivial=bool(tab.inits[n]["body"]["marks"]))
    finally:
        A.close()
    chk.add("mw_initial_responses", len(tab.inits))
    chk.add("mw_transitions_exported", len(tab.transitions))
    chk.add("mw_transitions_reached_by_the_real_code", len(reached & tab.transitions))
    if reached - tab.transitions:
        raise MachineryError("the replay accepted a transition the export does not contain")
    mid = [r for r in rows if r["layer"] == "cdm" and r["pre"]["body"]["marks"]]
    if mid:
        m = mid[len(mid) // 2]
        chk.sample({"mw_transition": {"pre": m["pre"], "layer": m["layer"], "admitted": m["adm"], "devkey": m["devkey"]}}, limit=8)


# ===================================================================== code -> spec: recorded sessions
class Tap0(Tap):
    pass


class Tap1(Tap):
    pass


class Tap2(Tap):
    pass


class Tap3(Tap):
    pass


class Tap4(Tap):
    pass


TAPS = [f"{__name__}.Tap{n}" for n in range(5)]


class Site:
    """A real site: components mounted as views + plain views returning arbitrary responses."""

    def __init__(self, rnd: random.Random, tag: str):
        """Classes 1..nv are mounted as views (whole-document templates, optionally rendering one leaf);
        classes nv+1..n are leaves, used as children and as the markers in the bodies of plain views."""
        from django.urls import path, re_path
        from django_components import Component
        from . import prog
        nv, nl = rnd.randint(2, 4), rnd.randint(2, 3)
        n = nv + nl
        self.nv, self.n = nv, n
        self.leaves = list(range(nv + 1, n + 1))
        self.assets = sorted(c for c in range(1, n + 1) if rnd.random() < 0.75) or [n]
        self.reg, _ = prog.registry("django")
        self.uid = next(_uniq)
        self.comps: List[Dict[str, Any]] = [None] * n          # type: ignore[list-item]
        self.classes: List[Any] = [None] * n
        self.names: List[str] = [f"x04s_{c}" for c in range(1, n + 1)]
        pats = []
        self.pages: List[Dict[str, Any]] = []
        for c in self.leaves:
            name = f"X04S{self.uid}L{c}"
            d: Dict[str, Any] = {"template": f"<div class=\"l{c}\">leaf{c}</div>", "__module__": __name__}
            if c in self.assets:
                d["js"] = js_tok(name)
                d["css"] = css_tok(name)
            self.classes[c - 1] = type(name, (Component,), d)
            self.reg.register(self.names[c - 1], self.classes[c - 1])
            self.comps[c - 1] = {"vd": [], "cd": [], "names": ALL_METHODS, "child": 0, "kw": "none", "on": "class", "url": ""}
        for c in range(1, nv + 1):
            style = rnd.random()
            pool = ALL_METHODS if rnd.random() < 0.5 else ["get", "post", "head", "options", "delete"]
            defined = [m for m in pool if rnd.random() < 0.4]
            if style < 0.45:
                vd, cd = [], defined
            elif style < 0.7:
                vd, cd = defined, []
            else:
                vd = [m for m in defined if rnd.random() < 0.5]
                cd = [m for m in pool if rnd.random() < 0.35]
            names = None
            if rnd.random() < 0.3:
                names = sorted(set(rnd.sample(ALL_METHODS, rnd.randint(1, 4))) | ({"get"} if rnd.random() < 0.5 else set()))
            child = rnd.choice(self.leaves) if rnd.random() < 0.6 else 0
            kw = rnd.choice(list(KW_SHAPES))
            name = f"X04S{self.uid}C{c}"
            tpl = ("{% load lib_django %}<html><head><title>[[T0]]</title></head><body><h1>c" + str(c) + "</h1>" +
                   ('{% c_django "' + self.names[child - 1] + '" / %}' if child else "") +
                   "[echo={{ echo|safe }}][[T1]]</body></html>")
            on = rnd.choice(["class", "class", "instance"])
            cls, view = make_view_component(name, vd, cd, names, rnd.choice(["class", "initkwargs"]), rtr_all=True,
                                            template=tpl, assets=c in self.assets, on=on)
            self.reg.register(self.names[c - 1], cls)
            self.classes[c - 1] = cls
            kind, route, url, args, kwargs = KW_SHAPES[kw]
            route_c = route.replace("v/", f"c{c}/", 1)
            pats.append(path(route_c, view) if kind == "path" else re_path(route_c, view))
            self.comps[c - 1] = {"vd": sorted(vd), "cd": sorted(cd),
                                 "names": sorted(names) if names is not None else ALL_METHODS,
                                 "child": child, "kw": kw, "on": on, "url": url.replace("/v/", f"/c{c}/", 1)}
        # the marker bookkeeping of Assets, over the site's own classes
        self.A = Assets(n, self.assets, tag="s", classes=self.classes, names=self.names)
        for k in range(rnd.randint(3, 6)):
            self.pages.append(self.random_page(rnd))
            pats.append(path(f"p{k}/", self.page_view(k)))
        from django.urls import include
        pats.append(path("", include("django_components.urls")))     # installation.md step 3
        self.urlconf = types.ModuleType(f"vf_x04_urls_{self.uid}")
        self.urlconf.urlpatterns = pats
        sys.modules[self.urlconf.__name__] = self.urlconf

    def random_page(self, rnd: random.Random) -> Dict[str, Any]:
        kind = rnd.choice(["http", "http", "http", "template", "stream", "file"])
        ct = rnd.choice(HTML_CT * 3 + OTHER_CT + UNSPEC_CT)
        shape = rnd.choice(["doc", "doc", "doc", "frag", "text"])
        marks = [] if shape == "text" else [rnd.choice(self.leaves) for _ in range(rnd.choice([0, 1, 2, 3, 5]))]
        cl = "ok" if kind == "file" else ("absent" if kind == "stream" else rnd.choice(["absent", "absent", "ok"]))
        st = rnd.choice([200, 200, 200, 201, 404, 403, 500]) if kind == "http" else 200
        zero = [0] * self.n
        return {"kind": kind, "ct": ct, "st": st, "hk": True, "cl": cl,
                "body": {"shape": shape, "txt": True, "marks": marks, "css": list(zero), "js": list(zero), "core": 0}}

    def page_view(self, k: int):
        def view(request):
            return build_response(self.pages[k], self.A)
        return view

    def close(self) -> None:
        for nme in self.names:
            try:
                self.reg.unregister(nme)
            except Exception:   # noqa: BLE001
                pass
        sys.modules.pop(self.urlconf.__name__, None)


def make_handler(layers: List[str], is_async: bool):
    """django's BaseHandler with MIDDLEWARE = taps around the given layers (innermost first)."""
    from django.core.handlers.base import BaseHandler
    from django.test.utils import override_settings
    mw = [TAPS[0]]
    for n, layer in enumerate(layers):
        mw = [TAPS[n + 1], CDM if layer == "cdm" else COMMON] + mw
    h = BaseHandler()
    with override_settings(MIDDLEWARE=mw):
        h.load_middleware(is_async=is_async)
    return h


def record_session(rnd: random.Random, tid: int, length: int) -> Dict[str, Any]:
    from django.core import signals
    site = Site(rnd, "s")
    events: List[Dict[str, Any]] = []
    caught: List[BaseException] = []

    def on_exc(sender, request=None, **kw):
        caught.append(sys.exc_info()[1])
    signals.got_request_exception.connect(on_exc)
    try:
        for _ in range(length):
            layers = [rnd.choice(["cdm", "cdm", "common"]) for _ in range(rnd.choice([1, 1, 2, 2, 3, 4]))]
            is_async = rnd.random() < 0.35
            h = make_handler(layers, is_async)
            rf = _rf()
            if rnd.random() < 0.6:
                c = rnd.randint(1, site.nv)
                info = site.comps[c - 1]
                if rnd.random() < 0.6 and (info["vd"] or info["cd"]):
                    m = rnd.choice(info["vd"] + info["cd"] + ["head", "options"])
                else:
                    m = rnd.choice(ALL_METHODS + ["propfind"])
                req = rf.generic(m.upper(), info["url"], QUERY_STRING="q=1")
                ev: Dict[str, Any] = {"op": "view", "c": c, "m": m, "kw": info["kw"]}
                tokens = [b"[[T0]]", b"[[T1]]"]
                shape = "doc"
            else:
                k = rnd.randrange(len(site.pages))
                req = rf.get(f"/p{k}/")
                ev = {"op": "page", "page": k}
                tokens = TOKENS
                shape = site.pages[k]["body"]["shape"]
            req.urlconf = site.urlconf
            del caught[:]
            Tap.sink, Tap.frame = [], None
            first: List[Any] = []

            def make_frame(resp, _shape=shape, _tokens=tokens):
                first.append(classify_answer(resp, None) if not getattr(resp, "streaming", False) else None)
                return Frame(resp, site.A, _shape, _tokens if resp.status_code not in (405, 500) and
                             not (resp.status_code == 200 and "Allow" in resp.headers and not getattr(resp, "streaming", False)
                                  and resp.content == b"") else [])
            Tap.make_frame = staticmethod(make_frame)
            try:
                if is_async:
                    asyncio.run(h.get_response_async(req))
                else:
                    h.get_response(req)
                outer = None
            except Exception as e:  # noqa: BLE001 - a layer raised
                outer = e
            sink = list(Tap.sink)
            if not sink:
                raise MachineryError(f"no tap saw the response of {req.path} ({outer!r})")
            r0 = sink[0][0]
            pipe = [{"layer": layers[n], "r": st, "same": same} for n, (st, same) in enumerate(sink[1:])]
            if outer is not None or len(pipe) < len(layers):
                pipe.append({"layer": layers[len(pipe)], "r": raised_state(outer or RuntimeError("lost")), "same": False})
            if ev["op"] == "view":
                ans, seen = first[0]
                if caught:
                    ans = {"res": "raises", "st": 0, "who": type(caught[0]).__name__, "h": "", "allow": []}
                _, _, _, args, kwargs = KW_SHAPES[ev["kw"]]
                ev["ans"] = ans
                got_kw = ev["kw"] if (seen["args"], seen["kwargs"]) == (args, kwargs) else "other"
                ev["seen"] = {"method": seen["method"], "kw": got_kw, "inst": seen["inst"]}
            else:
                if r0 != site.pages[ev["page"]]:
                    raise MachineryError(f"concretisation of page is wrong:\nwant {site.pages[ev['page']]}\ngot  {r0}")
            ev.update(r0=r0, pipe=pipe, layers=layers, via="async" if is_async else "sync")
            events.append(ev)
    finally:
        signals.got_request_exception.disconnect(on_exc)
        Tap.make_frame = None
        site.close()
    comps = [{"vd": c["vd"], "cd": c["cd"], "names": c["names"], "child": c["child"], "on": c["on"]} for c in site.comps]
    return {"id": tid, "assets": site.assets, "comps": comps, "events": events}


def validate_sessions(chk: Check, ntraces: int, length: int) -> None:
    rnd = random.Random(chk.seed * 7919 + 404)
    traces = [record_session(rnd, i + 1, length) for i in range(ntraces)]
    w = workdir("x04tr")
    f = w / "sessions.ndjson"
    tlc.write_ndjson(f, traces)
    cfg = w / "trace.cfg"
    cfg.write_text("SPECIFICATION TrSpec\nINVARIANT TrKept\nINVARIANT TrContentLength\nINVARIANT TrNoMarkers\n")
    r = tlc.run("Trace_X04", str(cfg), env={"IN": str(f)}, workers=1, heap="3g")
    if r.violated:
        chk.violation({"kind": "trace-invariant"}, {"violated": r.violated, "tlc_tail": r.out.splitlines()[-30:]})
        return
    tlc.require_ok(r, "Trace_X04")
    v = tlc.verdicts(r, len(traces), "Trace_X04")
    for line in r.out.splitlines():
        m = re.match(r'<<"DEV", (\d+), (\d+), "([^"]+)">>', line)
        if m:
            t = traces[int(m.group(1)) - 1]
            n = int(m.group(2))
            chk.violation({"kind": "trace", "assets": t["assets"], "comps": t["comps"], "event": t["events"][n - 1]},
                          {"deviation": m.group(3)}, key=m.group(3))
    for tid, why in v["rejected"].items():
        t = traces[tid - 1]
        chk.violation({"kind": "trace", "assets": t["assets"], "comps": t["comps"], "event": t["events"][why["event"] - 1]},
                      {"clauses": why["clauses"]})
    nev = 0
    for t in traces:
        chk.count([t["comps"], [(e["op"], e.get("c"), e.get("m"), e.get("page"), e["layers"], e["via"]) for e in t["events"]]])
        nev += len(t["events"])
        chk.add("trace_layer_steps", sum(len(e["pipe"]) for e in t["events"]))
        chk.add("trace_view_requests", sum(1 for e in t["events"] if e["op"] == "view"))
        chk.add("trace_async_requests", sum(1 for e in t["events"] if e["via"] == "async"))
    chk.add("traces_validated_against_impl", len(traces))
    chk.add("trace_events", nev)
    chk.add("trace_states", r.distinct)
    e0 = traces[0]["events"][0]
    chk.sample({"trace_head": {"comps": traces[0]["comps"][:2], "event": {k: e0[k] for k in e0 if k != "r0"}}}, limit=10)


def corrupted_traces() -> int:
    """Selftest (i): corrupt one field of a recorded session; Trace_X04 must reject it at that event
    with the right clause.  Returns the number of corruptions NOT rejected as expected."""
    import copy
    rnd = random.Random(4040)
    base = [record_session(rnd, i + 1, 40) for i in range(8)]

    def handled(e, t):
        return e["op"] == "view" and e["ans"]["res"] == "handled"

    def html_page(e, t, need_cl=None):
        r = e["r0"]
        return (e["op"] == "page" and r["ct"] in HTML_CT and r["kind"] in ("http", "template") and r["body"]["shape"] == "doc"
                and any(c in t["assets"] for c in r["body"]["marks"]) and e["pipe"] and e["pipe"][0]["layer"] == "cdm"
                and (need_cl is None or r["cl"] == need_cl))

    def other_page(e, t):
        r = e["r0"]
        return e["op"] == "page" and r["ct"] in OTHER_CT and r["body"]["marks"] and e["pipe"] and e["pipe"][0]["layer"] == "cdm"

    def with_common(e, t):
        return bool(e["pipe"]) and e["pipe"][0]["layer"] == "common"

    def bump(e, t):
        c = next(c for c in e["r0"]["body"]["marks"] if c in t["assets"])
        e["pipe"][0]["r"]["body"]["css"][c - 1] += 1

    muts = [
        ("answered-by-the-other-owner", "answer", handled,
         lambda e, t: e["ans"].update(who="view" if e["ans"]["who"] == "comp" else "comp")),
        ("handled-turned-into-405", "answer", handled,
         lambda e, t: e["ans"].update(res="405", st=405, who="none", h="", allow=["options"])),
        ("handler-saw-other-url-arguments", "seen", handled, lambda e, t: e["seen"].update(kw="other")),
        ("handler-ran-on-another-instance", "seen", handled, lambda e, t: e["seen"].update(inst=not e["seen"]["inst"])),
        ("handler-saw-another-method", "seen", handled, lambda e, t: e["seen"].update(method="get" if e["seen"]["method"] != "get" else "post")),
        ("view-response-keeps-a-marker", "view_response", handled, lambda e, t: e["r0"]["body"].update(marks=[1])),
        ("view-response-without-own-assets", "view_response", lambda e, t: handled(e, t) and e["c"] in t["assets"],
         lambda e, t: e["r0"]["body"]["js"].__setitem__(e["c"] - 1, 0)),
        ("markers-survive-the-middleware", "layer_cdm", html_page,
         lambda e, t: e["pipe"][0]["r"]["body"].update(marks=list(e["r0"]["body"]["marks"]))),
        ("asset-delivered-twice", "layer_cdm", html_page, bump),
        ("non-html-response-stripped", "layer_cdm", other_page,
         lambda e, t: (e["pipe"][0]["r"]["body"].update(marks=[]), e["pipe"][0].update(same=False))),
        ("status-changed-by-the-middleware", "layer_cdm", html_page, lambda e, t: e["pipe"][0]["r"].update(st=500)),
        ("header-lost-in-the-middleware", "layer_cdm", html_page, lambda e, t: e["pipe"][0]["r"].update(hk=False)),
        ("stale-content-length-out-of-nothing", "layer_cdm", lambda e, t: html_page(e, t, "absent"),
         lambda e, t: e["pipe"][0]["r"].update(cl="stale")),
        ("text-lost-in-the-middleware", "layer_cdm", html_page, lambda e, t: e["pipe"][0]["r"]["body"].update(txt=False)),
        ("common-middleware-step-changes-body", "layer_common", with_common, lambda e, t: e["pipe"][0].update(same=False)),
    ]
    traces, expect = [], {}
    for name, clause, pred, mut in muts:
        for t in base:
            n = next((n for n, e in enumerate(t["events"]) if pred(e, t)), None)
            if n is not None:
                t2 = copy.deepcopy(t)
                mut(t2["events"][n], t2)
                t2["id"] = len(traces) + 1
                traces.append(t2)
                expect[t2["id"]] = (name, clause, n + 1)
                break
        else:
            raise MachineryError(f"no recorded event to corrupt for {name}")
    control = copy.deepcopy(base[0])
    control["id"] = len(traces) + 1
    traces.append(control)
    w = workdir("x04cor")
    f = w / "corrupted.ndjson"
    tlc.write_ndjson(f, traces)
    cfg = w / "trace.cfg"
    cfg.write_text("SPECIFICATION TrSpec\n")
    r = tlc.require_ok(tlc.run("Trace_X04", str(cfg), env={"IN": str(f)}, workers=1), "Trace_X04 corrupted")
    v = tlc.verdicts(r, len(traces), "Trace_X04 corrupted")
    missed = 0
    for tid, (name, clause, ev) in expect.items():
        why = v["rejected"].get(tid)
        ok = why is not None and why["event"] == ev and f'"{clause}"' in why["clauses"]
        print(f"  corrupted trace {name}: "
              f"{'rejected at event %d by %s' % (ev, why['clauses']) if ok else 'NOT REJECTED AS EXPECTED ' + repr(why)}")
        missed += 0 if ok else 1
    if control["id"] not in v["accepted"]:
        print("  control trace: NOT ACCEPTED")
        missed += 1
    return missed


# ===================================================================== entry points
def core(chk: Check, tier: str, small: bool = False) -> None:
    _quiet()
    quick = tier == "quick"
    dispatch_family(chk, quick, small)
    rtr_family(chk, small)
    mw_family(chk, quick, small)
    if small:
        validate_sessions(chk, 12, 12)
    else:
        validate_sessions(chk, 60 if quick else 600, 20 if quick else 30)


def run(tier: str) -> int:
    from . import boot
    boot.setup()
    chk = Check(PID, tier, "model_checking")
    core(chk, tier)
    if not chk.cov.get("dispatch_cases_answered_by_a_handler") or not chk.cov.get("mw_layer_steps_checked"):
        raise MachineryError("nothing was replayed - the binding is vacuous")
    chk.cov["exhaustive"] = True
    chk.cov["rule"] = (
        "dispatch: every (handler names on the nested View, on the Component, http_method_names, request method, "
        "URL-argument shape) of the bounded space is one TLC state, exported with HttpSurface!Answer and replayed on "
        "a real Component mounted with as_view() behind real URL resolution (non-trivial = at least one handler "
        "defined); render_to_response: all 1536 input combinations; middleware: every transition of the pipeline "
        "graph (initial response x <=3 layers out of ComponentDependencyMiddleware / CommonMiddleware) replayed with "
        "the real middleware classes, sync and async, the state projected after every layer (non-trivial = the "
        "initial body carries component markers); random sessions through django's BaseHandler validated by "
        "Trace_X04.  Distinct by hash of the abstract case.")
    chk.assumptions += [
        "HTML for the middleware = Content-Type text/html with optional parameters; TEXT/HTML, application/xhtml+xml, "
        "text/html-sandboxed, a missing header and streaming text/html responses admit both 'untouched' and 'processed'",
        "a pass over a document without component markers may or may not add the component-independent client script "
        "again (observed: it does; component JS/CSS stay exactly once)",
        "position and content of the inserted blocks are C08 / C04's business: only counts per component are projected",
        "response object identity / class after the middleware, Content-Encoding, async handlers on components: not covered",
        "in the recorded sessions a stale Content-Length is repaired by the recording tap after it has been recorded",
    ]
    return chk.finish()


def replay(path: str) -> int:
    from . import boot
    boot.setup()
    _quiet()
    d = json.load(open(path))
    case = d["case"]
    kind = case.get("kind")
    if kind == "dispatch":
        bad = replay_dispatch(case["row"])
        print(json.dumps(bad, indent=1, default=repr))
        return 1 if bad else 0
    if kind == "rtr":
        bad = replay_rtr(case["row"])
        print(json.dumps(bad, indent=1, default=repr))
        return 1 if bad else 0
    if kind == "mw":
        A = Assets(3, {1, 2})
        try:
            resp = build_response(case["init"], A)
            fr = Frame(resp, A, case["init"]["body"]["shape"], TOKENS)
            project(resp, fr)
            steps = run_chain(resp, case["layers"], case["via"], fr)
        finally:
            A.close()
        print(json.dumps({"expected": d["detail"].get("admitted"), "observed_now": steps[-1][1] if steps else None,
                          "recorded": d["detail"].get("observed")}, indent=1, default=repr))
        return 1 if steps and steps[-1][1] == d["detail"].get("observed") else 0
    print("trace case: the event is in the file; re-run `./check X04` with the same VERIF_SEED to re-record it")
    return 2


def selftest(tier: str) -> int:
    """In-process mutation probes (never touch /repo): realistic bugs of the view / response /
    middleware code that the repository's unit tests do not notice."""
    from contextlib import contextmanager
    from . import boot
    from .core import run_probes
    boot.setup()
    _quiet()
    import django_components.component as dcomp
    import django_components.dependencies as dep
    from django.http import HttpResponse, StreamingHttpResponse

    @contextmanager
    def patch(obj, name, new):
        missing = object()
        old = obj.__dict__.get(name, missing) if isinstance(obj, type) else getattr(obj, name)
        setattr(obj, name, new)
        try:
            yield
        finally:
            if old is missing:
                delattr(obj, name)
            else:
                setattr(obj, name, old)

    MW = dep.ComponentDependencyMiddleware

    def mw_processes_every_text_type():
        def pr(self, response):
            if not isinstance(response, StreamingHttpResponse) and response.get("Content-Type", "").startswith("text/"):
                response.content = dep.render_dependencies(response.content, type="document")
            return response
        return patch(MW, "_process_response", pr)

    def mw_no_streaming_guard():
        def pr(self, response):
            if response.get("Content-Type", "").startswith("text/html"):
                response.content = dep.render_dependencies(response.content, type="document")
            return response
        return patch(MW, "_process_response", pr)

    def mw_async_path_skips_processing():
        async def acall(self, request):
            return await self._get_response(request)
        return patch(MW, "__acall__", acall)

    def mw_rebuilds_response():
        def pr(self, response):
            if not isinstance(response, StreamingHttpResponse) and response.get("Content-Type", "").startswith("text/html"):
                return HttpResponse(dep.render_dependencies(response.content, type="document"),
                                    content_type=response["Content-Type"])
            return response
        return patch(MW, "_process_response", pr)

    def mw_only_status_200():
        orig = MW._process_response

        def pr(self, response):
            return orig(self, response) if response.status_code == 200 else response
        return patch(MW, "_process_response", pr)

    def mw_fragment_mode():
        def pr(self, response):
            if not isinstance(response, StreamingHttpResponse) and response.get("Content-Type", "").startswith("text/html"):
                response.content = dep.render_dependencies(response.content, type="fragment")
            return response
        return patch(MW, "_process_response", pr)

    def mw_exact_content_type():
        def pr(self, response):
            if not isinstance(response, StreamingHttpResponse) and response.get("Content-Type", "") == "text/html; charset=utf-8":
                response.content = dep.render_dependencies(response.content, type="document")
            return response
        return patch(MW, "_process_response", pr)

    Comp = dcomp.Component
    orig_rtr = Comp.__dict__["render_to_response"].__func__

    def rtr_ignores_response_class():
        def f(cls, *a, **k):
            r = orig_rtr(cls, *a, **k)
            return r if type(r) is HttpResponse else HttpResponse(r.content, status=r.status_code, headers=dict(r.headers))
        return patch(Comp, "render_to_response", classmethod(f))

    def rtr_always_document():
        def f(cls, context=None, slots=None, escape_slots_content=True, args=None, kwargs=None, type="document",
              request=None, *ra, **rk):
            return orig_rtr(cls, context, slots, escape_slots_content, args, kwargs, "document", request, *ra, **rk)
        return patch(Comp, "render_to_response", classmethod(f))

    def rtr_drops_response_kwargs():
        def f(cls, context=None, slots=None, escape_slots_content=True, args=None, kwargs=None, type="document",
              request=None, *ra, **rk):
            return orig_rtr(cls, context, slots, escape_slots_content, args, kwargs, type, request, *ra)
        return patch(Comp, "render_to_response", classmethod(f))

    def rtr_drops_request():
        def f(cls, context=None, slots=None, escape_slots_content=True, args=None, kwargs=None, type="document",
              request=None, *ra, **rk):
            return orig_rtr(cls, context, slots, escape_slots_content, args, kwargs, type, None, *ra, **rk)
        return patch(Comp, "render_to_response", classmethod(f))

    def rtr_skips_dependencies():
        def f(cls, context=None, slots=None, escape_slots_content=True, args=None, kwargs=None, type="document",
              request=None, *ra, **rk):
            content = cls.render(args=args, kwargs=kwargs, context=context, slots=slots,
                                 escape_slots_content=escape_slots_content, type=type, render_dependencies=False,
                                 request=request)
            return cls.response_class(content, *ra, **rk)
        return patch(Comp, "render_to_response", classmethod(f))

    CV = dcomp.ComponentView

    @contextmanager
    def patch_handlers(make):
        """Replace the way ComponentView reaches the component's handlers: the generated per-method
        handlers (current tree), or the attribute lookup (a tree where View only has the handlers
        that are defined)."""
        if "get" in CV.__dict__:
            olds = {m: CV.__dict__[m] for m in ALL_METHODS if m in CV.__dict__}
            for m in olds:
                setattr(CV, m, make(m))
            try:
                yield
            finally:
                for m, o in olds.items():
                    setattr(CV, m, o)
        else:
            orig = CV.__getattr__

            def ga(self, name):
                orig(self, name)            # AttributeError when there is no handler
                return types.MethodType(make(name), self)
            with patch(CV, "__getattr__", ga):
                yield

    def view_drops_url_kwargs():
        def make(m):
            def handler(self, request, *args, **kwargs):
                return getattr(self.component, m)(request, *args)
            return handler
        return patch_handlers(make)

    def view_put_goes_to_post():
        def make(m):
            def handler(self, request, *args, **kwargs):
                return getattr(self.component, "post" if m == "put" and hasattr(self.component, "post") else m)(request, *args, **kwargs)
            return handler
        return patch_handlers(make)

    def component_handler_beats_view():
        orig = CV.dispatch

        def dispatch(self, request, *args, **kwargs):
            m = request.method.lower()
            if m in self.http_method_names and hasattr(self.component, m):
                return getattr(self.component, m)(request, *args, **kwargs)
            return orig(self, request, *args, **kwargs)
        return patch(CV, "dispatch", dispatch)

    def as_view_ignores_initkwargs():
        def f(cls, **initkwargs):
            comp = cls if isinstance(cls, Comp) else cls()
            return comp.View.as_view(component=comp)
        return patch(Comp, "as_view", classmethod(f))

    def as_view_new_instance():
        def f(cls, **initkwargs):
            comp = type(cls)() if isinstance(cls, Comp) else cls()
            return comp.View.as_view(**initkwargs, component=comp)
        return patch(Comp, "as_view", classmethod(f))

    def body(chk):
        global _KEEP_EXPORTS
        _KEEP_EXPORTS = True
        core(chk, "quick", small=True)

    missed = corrupted_traces()
    rc = run_probes(PID, [
        ("middleware-processes-every-text/*", mw_processes_every_text_type),
        ("middleware-without-streaming-guard", mw_no_streaming_guard),
        ("middleware-async-path-skips-processing", mw_async_path_skips_processing),
        ("middleware-returns-rebuilt-response", mw_rebuilds_response),
        ("middleware-only-for-status-200", mw_only_status_200),
        ("middleware-uses-fragment-mode", mw_fragment_mode),
        ("middleware-compares-content-type-exactly", mw_exact_content_type),
        ("render_to_response-ignores-response_class", rtr_ignores_response_class),
        ("render_to_response-always-document", rtr_always_document),
        ("render_to_response-drops-response-kwargs", rtr_drops_response_kwargs),
        ("render_to_response-drops-request", rtr_drops_request),
        ("render_to_response-skips-dependencies", rtr_skips_dependencies),
        ("view-drops-url-kwargs", view_drops_url_kwargs),
        ("view-sends-PUT-to-post", view_put_goes_to_post),
        ("component-handler-beats-View-handler", component_handler_beats_view),
        ("as_view-ignores-initkwargs", as_view_ignores_initkwargs),
        ("as_view-on-instance-makes-a-new-instance", as_view_new_instance),
    ], body)
    return 1 if (rc or missed) else 0
