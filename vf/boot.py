"""Django bootstrap for the harness.  Imports django_components from /repo's working
tree (editable install), never from a copy."""
from __future__ import annotations

import os
import sys

_done = False
STOCK = {}


def setup(**components):
    """Configure a minimal Django project with django_components installed.
    Captures stock Template internals *before* AppConfig.ready() monkeypatches them."""
    global _done
    if _done:
        return
    _done = True
    os.environ.setdefault("PYTHONHASHSEED", "0")
    import django
    from django.conf import settings
    import django.template.base as tb

    STOCK["compile_nodelist"] = tb.Template.compile_nodelist
    STOCK["render"] = tb.Template.render
    STOCK["tag_re"] = tb.tag_re

    comps = {"autodiscover": False, "dirs": []}
    comps.update(components)
    settings.configure(
        BASE_DIR="/verif/.work",
        SECRET_KEY="verif",
        INSTALLED_APPS=("django_components",),
        MIDDLEWARE=[],
        TEMPLATES=[{
            "BACKEND": "django.template.backends.django.DjangoTemplates",
            "DIRS": [],
            "OPTIONS": {
                "builtins": ["django_components.templatetags.component_tags"],
                "loaders": [("django.template.loaders.locmem.Loader", {})],
            },
        }],
        COMPONENTS=comps,
        DATABASES={},
        ROOT_URLCONF="django_components.urls",
        STATIC_URL="/static/",
        ALLOWED_HOSTS=["*"],
        DEBUG=False,
        USE_TZ=True,
    )
    django.setup()


def locmem():
    """The dict of the locmem loader of the default engine (template name -> source)."""
    from django.template import engines
    eng = engines["django"].engine
    for loader in eng.template_loaders:
        if hasattr(loader, "templates_dict"):
            return loader.templates_dict
    raise RuntimeError("no locmem loader")


def fake_translations(lang: str = "xx"):
    """Activate a catalog in which EVERY message has a visible translation ("‹T:msg›"), so that
    whether a string went through _() is observable in both stock Django and the library."""
    from django.utils import translation
    from django.utils.translation import trans_real

    class Catalog:
        def gettext(self, m):
            return "‹T:" + m + "›"

        def ngettext(self, s, p, n):
            return "‹T:" + (s if n == 1 else p) + "›"

        def pgettext(self, c, m):
            return "‹T:" + c + "|" + m + "›"

        def npgettext(self, c, s, p, n):
            return "‹T:" + c + "|" + (s if n == 1 else p) + "›"

        def to_language(self):
            return lang
        language = lambda self: lang     # noqa: E731
        _catalog = {}

    trans_real._translations[lang] = Catalog()
    translation.activate(lang)
