"""C04 - exactly the JS/CSS of the rendered components is delivered, once, in order.

Specification: Deps(P, insts) of specs/DjcSemantics.tla - from the instances the reference
semantics renders into the page (document order) and the assets of their classes: inline JS /
CSS of every rendered class with non-blank code, once, in first-appearance order, AS WRITTEN
(the code is an arbitrary text: the delivered text equals it character by character); the Media
files of those classes incl. inherited Media, each once; nothing for classes that were not rendered.
Inherited Media (MediaFiles): the parent's files by default - also when the class writes no Media
class or one that lists no file of its own -, nothing with Media.extend = False, and with
Media.extend = [classes] the whole media of exactly those classes (not the parent's).
specs/MC_Djc.tla enumerates every page up to a node bound over the library under TWO asset
alphabets: A (shared files, a subclass pair with/without extend, blank code) and B (AssetsB: assets
that arrive only through inheritance - empty Media on a subclass, extend = [classes] without own
files, a never-rendered "theme" class, no Media below such a class - and code texts over an
alphabet with backslash sequences \\n \\d \\1 \\g<0> \\\\ \\201C and a trailing backslash).

spec -> code: every enumerated page through render_dependencies() in document and fragment mode
              with placeholders / <head><body> only (alphabet A), every 4th page again under
              alphabet B; the final HTML is parsed (html.parser): inline <script>/<style> bodies in
              order, src/href lists, the decoded data-djc JSON, leftover markers.
code -> spec: random programs with random asset assignments (shared files, inheritance by subclassing
              and by extend lists, classes whose Media lists no own file in every spelling, dict-form
              css, code texts over the backslash alphabet, class-name alphabets ASCII /
              underscore-digit / non-ASCII), rendered via render_dependencies(), the middleware and
              Component.render(); validated by TLC.

Not asserted: the order of Media files; in fragment mode the code is declared by URL, so the identity of
the class is compared there, not the served text.  Code texts never contain "</script" / "</style"
(refused by the library, C13's business) nor leading / trailing white space (the harness strips it).
"""
from __future__ import annotations

import base64
import json
import random
import re
from html.parser import HTMLParser
from typing import Any, Dict, List, Optional

from . import djc, prog as P
from .core import Check
from .pool import pmap

PID = "C04"
LAYOUTS = ("ph", "hb", "phc", "phj")
CORE_JS = "django_components/django_components.min.js"


class _Deps(HTMLParser):
    def __init__(self):
        super().__init__(convert_charrefs=False)
        self.inline_js: List[str] = []
        self.inline_css: List[str] = []
        self.src: List[str] = []
        self.href: List[str] = []
        self.json: List[str] = []
        self._cur = None

    def handle_starttag(self, tag, attrs):
        a = dict(attrs)
        if tag == "script":
            if "src" in a:
                self.src.append(a["src"])
                self._cur = None
            elif a.get("type") == "application/json":
                self._cur = ("json", [])
            else:
                self._cur = ("js", [])
        elif tag == "style":
            self._cur = ("css", [])
        elif tag == "link" and "href" in a:
            self.href.append(a["href"])

    def handle_data(self, data):
        if self._cur:
            self._cur[1].append(data)

    def handle_endtag(self, tag):
        if self._cur and tag in ("script", "style"):
            kind, parts = self._cur
            {"js": self.inline_js, "css": self.inline_css, "json": self.json}[kind].append("".join(parts))
            self._cur = None


def wrap(page: str, layout: str) -> str:
    if layout == "ph":
        return ("<html><head>{% component_css_dependencies %}</head><body>" + page +
                "{% component_js_dependencies %}</body></html>")
    if layout == "hb":
        return "<html><head><title>x</title></head><body>" + page + "</body></html>"
    if layout == "phc":      # only the CSS placeholder: JS goes to its default location
        return "<html><head>{% component_css_dependencies %}</head><body>" + page + "</body></html>"
    if layout == "phj":      # only the JS placeholder: CSS goes to its default location
        return "<html><head><title>x</title></head><body>" + page + "{% component_js_dependencies %}</body></html>"
    return page


def _b64list(xs) -> List[str]:
    return [base64.b64decode(x).decode() for x in xs]


def parse(html: str) -> Dict[str, Any]:
    pr = _Deps()
    pr.feed(html)
    data = [json.loads(j) for j in pr.json if j.strip()]
    to_js, to_css = [], []
    for d in data:
        for t in _b64list(d.get("toLoadJsTags", [])):
            to_js += re.findall(r'src="([^"]+)"', t)
        for t in _b64list(d.get("toLoadCssTags", [])):
            to_css += re.findall(r'href="([^"]+)"', t)
    markers = [m for m in ("_RENDERED", "djc-render-id", "CSS_PLACEHOLDER", "JS_PLACEHOLDER") if m in html]
    return {"inline_js": [x.strip() for x in pr.inline_js], "inline_css": [x.strip() for x in pr.inline_css],
            "src": [s for s in pr.src if not s.endswith(CORE_JS)], "href": pr.href,
            "to_js": to_js, "to_css": to_css, "markers": markers, "njson": len(data)}


def observe(args) -> Dict[str, Any]:
    prog, entry, typ, layout = args
    from django.http import HttpResponse
    from django.template import Context, Template
    from django_components import render_dependencies
    from django_components.dependencies import ComponentDependencyMiddleware
    P.reset_library_state()
    classes = P.install(prog)
    urls = {}
    for c, spec in zip(classes, prog["comps"]):
        urls[f"/components/cache/{c._class_hash}.js"] = spec["assets"]["js"]
        urls[f"/components/cache/{c._class_hash}.css"] = spec["assets"]["css"]
    try:
        if entry == "component":
            node = prog["page"][0]
            reg, _ = P.registry(prog["mode"])
            ctx = Context(P.page_context(prog)) if prog["mode"] == "django" else None
            html = classes[node["c"] - 1](registry=reg).render(context=ctx, kwargs={k: e["v"] for k, e in node["kw"]},
                                                                type=typ)
            if layout == "hb":
                # insertion needs <head>/<body>: render without deps and finish explicitly around it
                html = classes[node["c"] - 1](registry=reg).render(context=ctx, kwargs={k: e["v"] for k, e in node["kw"]},
                                                                    render_dependencies=False)
                html = render_dependencies("<html><head></head><body>" + html + "</body></html>", type=typ)
        else:
            src = "{% load lib_" + prog["mode"] + " vf_tags %}" + wrap(P.tpl_src(prog["page"], "c_" + prog["mode"]), layout)
            raw = Template(src).render(Context(P.page_context(prog)))
            if entry == "middleware":
                mw = ComponentDependencyMiddleware(lambda request: HttpResponse(raw))
                html = mw(None).content.decode()
                if typ != "document":
                    return {"skip": True}
            else:
                html = render_dependencies(raw, type=typ)
    except Exception as e:  # noqa: BLE001
        return {"err": type(e).__name__, "msg": str(e)[:300]}
    finally:
        P.reset_library_state()
    o = parse(html)
    o["err"] = ""
    o["urls"] = urls
    o["tokens"] = P.tokens(re.sub(r"<(script|style)[^>]*>.*?</(script|style)>", "", html, flags=re.S))[0]
    return o


def compare(case, e, o) -> Optional[Dict[str, Any]]:
    prog, entry, typ, layout = case
    if o.get("skip"):
        return None
    if o.get("hang"):
        return {"what": "hang"}
    if e["err"]:
        return None if (o.get("err") == e["err"] or o.get("err") in e.get("errs", [])) else \
            {"what": "error-class", "expected": e["err"], "observed": o.get("err"), "msg": o.get("msg")}
    if o.get("err"):
        return {"what": "unexpected-error", "observed": o["err"], "msg": o.get("msg")}
    d = e["deps"]
    if o["tokens"] != e["out"]:
        return {"what": "tokens", "expected_out": e["out"], "observed_out": o["tokens"]}
    if o["markers"]:
        return {"what": "markers-survive", "found": o["markers"]}
    st = lambda fs: sorted("/static/" + f for f in fs)   # noqa: E731
    if typ == "document":
        if o["inline_js"] != d["ijs"]:
            return {"what": "inline-js", "expected": d["ijs"], "observed": o["inline_js"]}
        if o["inline_css"] != d["icss"]:
            return {"what": "inline-css", "expected": d["icss"], "observed": o["inline_css"]}
        if sorted(o["src"]) != st(d["mjs"]):
            return {"what": "media-js", "expected": st(d["mjs"]), "observed": sorted(o["src"])}
        if sorted(o["href"]) != st(d["mcss"]):
            return {"what": "media-css", "expected": st(d["mcss"]), "observed": sorted(o["href"])}
        if o["to_js"] or o["to_css"]:
            return {"what": "document-mode-declares-to-load", "observed": [o["to_js"], o["to_css"]]}
    else:
        if o["inline_js"] or o["inline_css"] or o["src"] or o["href"]:
            return {"what": "fragment-mode-inlines", "observed": [o["inline_js"], o["inline_css"], o["src"], o["href"]]}
        from urllib.parse import unquote
        comp_js = sorted(o["urls"].get(unquote(u), "?" + u) for u in o["to_js"] if u.startswith("/components/cache/"))
        comp_css = sorted(o["urls"].get(unquote(u), "?" + u) for u in o["to_css"] if u.startswith("/components/cache/"))
        if comp_js != sorted(d["ijs"]):
            return {"what": "fragment-component-js", "expected": sorted(d["ijs"]), "observed": comp_js}
        if comp_css != sorted(d["icss"]):
            return {"what": "fragment-component-css", "expected": sorted(d["icss"]), "observed": comp_css}
        mj = sorted(u for u in o["to_js"] if not u.startswith("/components/cache/"))
        mc = sorted(u for u in o["to_css"] if not u.startswith("/components/cache/"))
        if mj != st(d["mjs"]):
            return {"what": "fragment-media-js", "expected": st(d["mjs"]), "observed": mj}
        if mc != st(d["mcss"]):
            return {"what": "fragment-media-css", "expected": st(d["mcss"]), "observed": mc}
    return None


def finding_key(case, m) -> Optional[str]:
    """Non-ASCII class name: the marker comment is not recognised (ASCII-only \\w on bytes)."""
    prog = case[0]
    if any(c["assets"].get("name") == "uni" for c in prog["comps"]) and \
            m["what"] in ("markers-survive",) and "_RENDERED" in m.get("found", []):
        return "non-ascii-class-name:marker-survives-assets-missing"
    return None


# inline code alphabet: what re / str.format / %-formatting / JSON / HTML would treat specially if the text were
# ever used as a template instead of being copied
CODE_PIECES = ["\\n", "\\d", "\\1", "\\g<0>", "\\g<1>", "\\\\", "\\201C", "\\t", "\\u00e9", " x ", "'", '"', "{0}", "%s", "&amp;"]
MFORMS = ("absent", "bare", "explicit", "emptylists")


def code_text(rnd: random.Random, tag: str) -> str:
    if rnd.random() < 0.4:
        return tag
    t = (tag + "".join(rnd.choice(CODE_PIECES) for _ in range(rnd.randint(1, 3)))).strip()
    return t + "\\" if rnd.random() < 0.12 else t       # a single trailing backslash


def random_assets(rnd: random.Random, prog, names=("ascii", "ascii", "under")) -> None:
    pool_js = ["f1.js", "f2.js", "shared.js", "lib/x.js"]
    pool_css = ["a1.css", "a2.css", "shared.css"]
    for i, c in enumerate(prog["comps"], start=1):
        base = rnd.choice([0, 0, 0] + list(range(1, i))) if i > 1 else 0
        a = {"js": rnd.choice(["", code_text(rnd, f"/*J{i}*/"), code_text(rnd, f"/*J{i}*/"), " "]),
             "css": rnd.choice(["", code_text(rnd, f"/*S{i}*/"), " "]),
             "mjs": rnd.sample(pool_js, rnd.randint(0, 2)), "mcss": rnd.sample(pool_css, rnd.randint(0, 2)),
             "base": base, "ext": rnd.random() < 0.75, "name": rnd.choice(names), "cssdict": rnd.random() < 0.3}
        if i > 1 and rnd.random() < 0.25:
            # Media.extend = [classes]: inherit from exactly these (rarely the empty list: from nothing)
            a["extl"] = sorted(rnd.sample(range(1, i), rnd.randint(1, min(2, i - 1)))) if rnd.random() < 0.9 else []
        if (base or a.get("extl")) and rnd.random() < 0.5:
            a["mjs"], a["mcss"] = [], []                  # everything it has comes through inheritance
        if not a["mjs"] and not a["mcss"]:
            a["mform"] = rnd.choice(MFORMS)               # how a Media class without own files is spelled
        if base and a["js"] == "":
            a["js"] = " "
        if base and a["css"] == "":
            a["css"] = " "
        c["assets"] = a


def run_cases(chk: Check, cases, exp, label: str) -> Dict[str, int]:
    obs = pmap(observe, cases, workers=12)
    # a render that exceeded the per-item limit in the (possibly overloaded) pool is repeated with a generous limit
    # before it counts as a hang
    hung = [i for i, o in enumerate(obs) if o.get("hang")]
    if hung:
        for i, o in zip(hung, pmap(observe, [cases[i] for i in hung], workers=4, per_item_s=90.0, chunk=1)):
            obs[i] = o
    st = {"ok": 0, "zone": 0, "bad": 0}
    bad = []
    for case, o in zip(cases, obs):
        prog = case[0]
        e = exp[prog["id"]]
        if e["zone"]:
            st["zone"] += 1
            continue
        chk.count([label, case[1], case[2], case[3], prog["mode"], prog["page"], [c["assets"] for c in prog["comps"]]],
                  nontrivial=len(e["insts"]) > 0)
        m = compare(case, e, o)
        if m is None:
            st["ok"] += 1
        else:
            bad.append((case, o, m))
    st["bad"] = len(bad)
    # known scoping deviations (C01/C03 findings) change which instances exist / what they print: a disagreement is
    # accepted as that known finding only if the observation equals the specification under those deviations
    import itertools
    devs = djc.known_devs(chk)
    subsets = [list(c) for k in range(1, len(devs) + 1) for c in itertools.combinations(devs, k)]
    explained = {}
    if bad and subsets:
        batch = [dict(case[0], devs=sub, id=i * 100 + si) for i, (case, o, m) in enumerate(bad) for si, sub in enumerate(subsets)]
        res = djc.oracle(batch)
        for i, (case, o, m) in enumerate(bad):
            for si, sub in enumerate(subsets):
                r = res[i * 100 + si]
                if not r["zone"] and compare(case, r, o) is None:
                    explained[i] = sub
                    break
    for i, (case, o, m) in enumerate(bad):
        prog = case[0]
        c = {"label": label, "entry": case[1], "type": case[2], "layout": case[3], "program": djc.brief(prog),
             "assets": [c["assets"] for c in prog["comps"]], "json": prog}
        if i in explained:
            for d in explained[i]:
                chk.violation(c, m, key="dev:" + d)
        else:
            chk.violation(c, m, key=finding_key(case, m))
    return st


def body(chk: Check, *, mc_nodes: int, n_random: int, deep: int, b_every: int = 4) -> None:
    states = trans = 0
    for mode in P.MODES:
        progs, exp, r = djc.mc_programs("slots", mode, mc_nodes)
        states += r.distinct
        trans += r.generated
        cases = []
        for i, p in enumerate(progs):
            cases.append((p, "render_dependencies", ("document", "fragment")[i % 2], LAYOUTS[(i // 2) % len(LAYOUTS)]))
        st = run_cases(chk, cases, exp, f"mc-deps-{mode}")
        chk.add("mc_pages_replayed", len(cases))
        # the same pages under the library's second asset alphabet (MC_Djc!AssetsB; expectation = the exported depsB)
        lib = djc.mc_programs.lib
        comps_b = [dict(c, assets=a) for c, a in zip(lib["comps"], lib["assetsB"])]
        cases_b, exp_b = [], {}
        for j, p in enumerate(progs[::b_every]):
            cases_b.append((dict(p, comps=comps_b), "render_dependencies", "fragment" if j % 3 == 2 else "document",
                            LAYOUTS[(j // 3) % len(LAYOUTS)]))
            exp_b[p["id"]] = dict(exp[p["id"]], deps=exp[p["id"]]["depsB"])
        st = run_cases(chk, cases_b, exp_b, f"mc-depsB-{mode}")
        chk.add("mc_pages_replayed_alphabet_B", len(cases_b))
        mid = cases_b[len(cases_b) // 2][0]
        chk.sample({"mc_page": djc.brief(mid)["page"], "mode": mode, "alphabet": "B", "expected_deps": exp_b[mid["id"]]["deps"]},
                   limit=4)
        mid = progs[len(progs) // 2]
        chk.sample({"mc_page": djc.brief(mid)["page"], "mode": mode, "expected_deps": exp[mid["id"]]["deps"]}, limit=2)
    rnd = random.Random(chk.seed * 1000003 + 4)
    g = P.Gen(rnd, depth=deep, width=3, collide=False, required=0.0, ncomps=(2, 5))
    progs = []
    for i in range(n_random):
        p = g.program(i + 1, P.MODES[i % 2])
        random_assets(rnd, p, names=("ascii", "ascii", "under", "uni") if i % 5 == 0 else ("ascii", "ascii", "under"))
        progs.append(p)
    exp = djc.oracle(progs)
    cases = []
    for i, p in enumerate(progs):
        entry = ("render_dependencies", "middleware", "render_dependencies")[i % 3]
        typ = "document" if entry == "middleware" else ("document", "fragment")[(i // 3) % 2]
        cases.append((p, entry, typ, LAYOUTS[(i // 6) % len(LAYOUTS)]))
    st = run_cases(chk, cases, exp, "rand-deps")
    chk.add("traces_validated_against_impl", len(cases) - st["zone"])
    chk.sample({"random_program": djc.brief(progs[0]), "assets": [c["assets"] for c in progs[0]["comps"]],
                "expected_deps": exp[progs[0]["id"]]["deps"]}, limit=3)
    # Component.render() entry point: page = one component with constant kwargs
    pv = []
    for i in range(max(60, n_random // 6)):
        p = g.program(5 * 10 ** 5 + i, P.MODES[i % 2])
        random_assets(rnd, p)
        c = rnd.randint(1, len(p["comps"]))
        p["page"] = [{"t": "comp", "c": c, "kw": [[x, P.C(f"k{rnd.randint(1, 9)}")] for x in g.SCALARS if rnd.random() < 0.4],
                      "only": False, "body": "none", "a": []}]
        pv.append(p)
    expv = djc.oracle(pv)
    cases = [(p, "component", ("document", "fragment")[i % 2], "hb") for i, p in enumerate(pv)]
    st = run_cases(chk, cases, expv, "rand-component-render")
    chk.add("traces_validated_against_impl", len(cases) - st["zone"])
    chk.add("states", states + djc.oracle.last_states)
    chk.add("transitions", trans)


def run(tier: str) -> int:
    from . import boot
    boot.setup()
    chk = Check(PID, tier, "model_checking")
    if tier == "quick":
        body(chk, mc_nodes=3, n_random=1500, deep=3)
    else:
        body(chk, mc_nodes=3, n_random=8000, deep=4)
    chk.cov["exhaustive"] = True
    chk.cov["rule"] = ("every TLC-enumerated page over the asset-carrying library x2 modes, alternating document/fragment and "
                       "placeholder/<head><body> layouts (asset alphabet A), every 4th page again under asset alphabet B "
                       "(inheritance-only Media: empty Media on a subclass, extend=[classes], unrendered theme class; code texts "
                       "with backslash sequences); random programs x random asset assignments (shared files, inheritance by "
                       "subclassing / extend lists, extend on/off, Media without own files in 4 spellings, dict css, blank code, "
                       "code texts over the backslash / format alphabet, class-name alphabets) via render_dependencies / "
                       "middleware / Component.render. Non-trivial = renders >= 1 component instance.")
    chk.assumptions += ["order is asserted for inline JS/CSS only; Media files are compared as 'each exactly once'",
                        "documents without <head>/<body> and without placeholders are not used (nothing can be inserted there)",
                        "subclasses always define js/css themselves (which member of the pair is inherited is C16's business)",
                        "inline code is compared as text in document mode (white space at its ends stripped); in fragment mode "
                        "the declared URL identifies the class, the served text is not fetched",
                        "a render that exceeds the pool's per-item limit is repeated alone with a 90 s limit before it counts as a hang"]
    return chk.finish()


def selftest(tier: str) -> int:
    """In-process mutation probes (never /repo)."""
    from contextlib import contextmanager
    from . import boot
    from .core import run_probes
    boot.setup()
    import django_components.dependencies as dd

    @contextmanager
    def patch(obj, name, new):
        old = getattr(obj, name)
        setattr(obj, name, new)
        try:
            yield
        finally:
            setattr(obj, name, old)

    def media_not_deduplicated():
        def pp(script_type, tags):
            import re as _re
            pat = dd.src_pattern if script_type == "js" else dd.href_pattern
            return list(tags), [pat.search(t).group(1) for t in tags]
        return patch(dd, "_postprocess_media_tags", pp)

    def blank_code_inlined():
        return patch(dd, "is_nonempty_str", lambda s: s is not None)

    def inline_js_order_reversed():
        orig = dd._prepare_tags_and_urls

        def f(data, type):
            r = list(orig(data, type))
            r[2] = list(reversed(r[2]))
            return tuple(r)
        return patch(dd, "_prepare_tags_and_urls", f)

    def fragment_declares_no_css():
        orig = dd._gen_exec_script

        def f(to_load_js_tags, to_load_css_tags, loaded_js_urls, loaded_css_urls):
            return orig(to_load_js_tags=to_load_js_tags, to_load_css_tags=[], loaded_js_urls=loaded_js_urls,
                        loaded_css_urls=loaded_css_urls)
        return patch(dd, "_gen_exec_script", f)

    def media_skipped_when_own_media_lists_no_file():
        # "a Media without files has nothing to render": looks at the declaring Media class instead of the merged media
        import django_components.component_media as cm
        orig = cm._get_comp_cls_media

        def f(comp_cls):
            mi = getattr(comp_cls, "Media", None)
            if not getattr(mi, "js", None) and not getattr(mi, "css", None):
                return cm.MediaCls()
            return orig(comp_cls)
        return patch(cm, "_get_comp_cls_media", f)

    def code_used_as_replacement_template():
        # the generated tags are handed to the regex as a replacement TEMPLATE (backslash sequences are interpreted)
        class Rx:
            def __init__(self, rx):
                self.rx = rx

            def __getattr__(self, n):
                return getattr(self.rx, n)

            def sub(self, repl, content, *a, **k):
                return self.rx.sub((lambda m: m.expand(repl(m))) if callable(repl) else repl, content, *a, **k)
        return patch(dd, "PLACEHOLDER_REGEX", Rx(dd.PLACEHOLDER_REGEX))

    return run_probes(PID, [("media-files-not-deduplicated", media_not_deduplicated), ("blank-code-inlined", blank_code_inlined),
                            ("inline-js-order-reversed", inline_js_order_reversed),
                            ("fragment-declares-no-css", fragment_declares_no_css),
                            ("media-skipped-when-own-Media-lists-no-file", media_skipped_when_own_media_lists_no_file),
                            ("code-used-as-replacement-template", code_used_as_replacement_template)],
                      lambda chk: body(chk, mc_nodes=2, n_random=300, deep=3))


def replay(path: str) -> int:
    from . import boot
    boot.setup()
    d = json.load(open(path))
    c = d["case"]
    p = c["json"]
    case = (p, c["entry"], c["type"], c["layout"])
    m = compare(case, djc.oracle([p])[p["id"]], observe(case))
    print(json.dumps(m, indent=1, default=repr)[:4000])
    return 1 if m else 0
