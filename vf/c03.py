"""C03 - variable scoping follows the configured context behaviour.

Specification: the scoping rules of specs/DjcSemantics.tla (layered environments: what a
component template sees per mode / `only`, what a fill sees: lexical scope + enclosing loops
+ aliases in isolated mode; inner data over between-bindings over outer variables in django
mode).  specs/MC_Djc.tla (alphabet "scope") enumerates every page up to a node bound with
colliding names between page context, loop variables, {% with %} bindings, kwargs and
component data, and checks the NonInterference theorem (isolated mode: a page that passes
nothing renders the same under any page context).

spec -> code: every enumerated page is rendered for real; tokens compared.
code -> spec: random programs with name collisions, plus 2-run pairs (same program under two
              page contexts that differ everywhere) and Component.render(context=...) in
              isolated mode, validated by TLC.  Assignment tags (`{% firstof e "dflt" as v %}`: bind a
              variable for the rest of the enclosing body instead of opening a block) placed directly
              in a component tag's body before / between / after its fills and inside the for / with
              wrappers of a fill - fresh names and names colliding with page / data / with bindings;
              also enumerated by TLC (MC_Djc AsgTokens).  In isolated mode an assignment tag that
              re-binds an otherwise bound name is the same unspecified zone as `{% with %}` there; a
              body whose fills all vanish (it then is default slot content) is a zone when it holds an
              assignment tag; assignment tags are not generated elsewhere (inside `{% if %}` they would
              outlive the block), never bind a loop variable, and only read scalar variables.
              Around every component tag and around the
              whole render the caller's Context is fingerprinted before/after
              (CallerContextRestored).
"""
from __future__ import annotations

import json
import random
from typing import Any, Dict, List, Optional

from . import djc, prog as P
from .core import Check
from .pool import pmap

PID = "C03"

CTX2 = [["x", P.S("qx")], ["y", P.S("")], ["xs", P.L(["j1", "j2", "j3"])], ["sn", P.L(["b"])],
        ["on", P.S("")], ["off", P.S("1")], ["sa", P.S("b")], ["one", P.L(["q1"])], ["w", P.S("qw")], ["i", P.S("qi")],
        ["z", P.S("qz")]]


def ctx_check(p, e, o) -> Optional[Dict[str, Any]]:
    if o.get("ctx_changed"):
        return {"what": "caller-context-changed", "detail": o["ctx_changed"][:600]}
    return None


def closed_page_programs(rnd: random.Random, n: int, simple: bool = False) -> List[Dict[str, Any]]:
    """Isolated-mode programs whose page passes nothing: the page consists of text and component
    tags with constant kwargs and text-only fills.  Everything else is in the library."""
    # simple: ONE component, no loops - only the top-level render is under test there
    g = P.Gen(rnd, depth=2, width=3, collide=True, loops=False, ncomps=(1, 1)) if simple else P.Gen(rnd, depth=3, width=3, collide=True)
    out = []
    for i in range(n):
        p = g.program(i + 1, "isolated")
        page = []
        for j in range(rnd.randint(1, 3)):
            c = rnd.randint(1, len(p["comps"]))
            kw = [[x, P.C(f"k{rnd.randint(1, 9)}")] for x in g.SCALARS if rnd.random() < 0.4]
            names = rnd.sample(["a", "b", "default"], rnd.randint(0, 2))
            fills = [{"t": "fill", "ne": P.C(nm), "dv": "", "fv": "", "a": [P.text(800 + 10 * j + k)]}
                     for k, nm in enumerate(names)]
            page.append(P.text(700 + j))
            page.append({"t": "comp", "c": c, "kw": kw, "only": False, "body": "fills" if fills else "none", "a": fills})
        p["page"] = page
        out.append(p)
    return out


def _real_pyctx(prog):
    """Component.render(context=<page context>) of the page's single component, isolated mode."""
    from django.template import Context
    P.reset_library_state()
    classes = P.install(prog)
    reg, _ = P.registry(prog["mode"])
    node = prog["page"][0]
    kwargs = {k: e["v"] for k, e in node["kw"]}
    ctx = Context(P.page_context(prog))
    before = P._ctx_fingerprint(ctx)
    try:
        html = classes[node["c"] - 1](registry=reg).render(context=ctx, kwargs=kwargs, render_dependencies=False)
    except Exception as e:  # noqa: BLE001
        return {"err": type(e).__name__, "msg": str(e)[:300], "out": [], "junk": "", "ctx_changed": ""}
    toks, junk = P.tokens(html)
    return {"err": "", "out": toks, "junk": junk,
            "ctx_changed": "" if P._ctx_fingerprint(ctx) == before else "Context passed to Component.render differs afterwards"}


def body(chk: Check, *, mc_nodes: int, n_random: int, n_pairs: int, deep: int) -> None:
    states = trans = 0
    for mode in P.MODES:
        progs, exp, r = djc.mc_programs("scope", mode, mc_nodes)
        states += r.distinct
        trans += r.generated
        st = djc.compare_sliced(chk, progs, exp, lambda ps: djc.real_variant(ps, probes=True), f"mc-scope-{mode}", extra_check=ctx_check)
        chk.add("mc_pages_replayed", len(progs))
        chk.add("mc_zone", st["zone"])
        mid = progs[len(progs) // 3]
        chk.sample({"mc_page": djc.brief(mid)["page"], "mode": mode, "expected": exp[mid["id"]]["out"]}, limit=2)
    # random programs with name collisions
    rnd = random.Random(chk.seed * 1000003 + 3)
    g = P.Gen(rnd, depth=deep, width=3, collide=True)
    progs = [g.program(i + 1, P.MODES[i % 2]) for i in range(n_random)]
    exp = djc.oracle(progs)
    states += djc.oracle.last_states
    st = djc.compare_batch(chk, progs, exp, djc.real_variant(progs, probes=True), "rand-collide", extra_check=ctx_check)
    # alias names of fills (data= / default=) that collide with page / data / loop / with variables: inside the fill the
    # alias wins over every other binding of that name, outside it nothing changes
    ga = P.Gen(random.Random(chk.seed * 1000003 + 33), depth=deep, width=3, collide=True, alias_collide=True)
    pa = [ga.program(4 * 10 ** 6 + i, P.MODES[i % 2]) for i in range(n_random // 2)]
    expa = djc.oracle(pa)
    states += djc.oracle.last_states
    sta = djc.compare_batch(chk, pa, expa, djc.real_variant(pa, probes=True), "rand-alias-collide", extra_check=ctx_check)
    chk.add("alias_collision_programs", len(pa) - sta["zone"])
    # assignment tags ({% firstof e "dflt" as v %}) directly in the body of a component tag, before / between / after
    # its fills and inside the for / with wrappers of a fill: a variable bound between the component tag and the fill
    # without a block of its own, fresh or colliding with page / data / with names
    gs = P.Gen(random.Random(chk.seed * 1000003 + 34), depth=deep, width=3, collide=True, assigns=0.7)
    ps = [gs.program(5 * 10 ** 6 + i, P.MODES[i % 2]) for i in range(n_random // 2)]
    exps = djc.oracle(ps)
    states += djc.oracle.last_states
    sts = djc.compare_batch(chk, ps, exps, djc.real_variant(ps, probes=True), "rand-assign", extra_check=ctx_check)
    chk.add("assignment_tag_programs", sum(1 for p in ps if not exps[p["id"]]["zone"] and '"asg"' in json.dumps(p["page"]) + json.dumps([c["tpl"] for c in p["comps"]])))
    chk.add("traces_validated_against_impl", len(ps) - sts["zone"])
    chk.add("traces_validated_against_impl", len(pa) - sta["zone"])
    chk.add("traces_validated_against_impl", len(progs) - st["zone"])
    chk.sample({"random_program": djc.brief(progs[1]), "expected": exp[progs[1]["id"]]["out"]}, limit=3)
    # 2-run non-interference pairs (isolated): same closed page, two page contexts
    cp = closed_page_programs(random.Random(chk.seed * 31 + 5), n_pairs)
    cp2 = [dict(p, id=p["id"] + 10 ** 6, ctx=CTX2) for p in cp]
    exp = djc.oracle(cp + cp2)
    states += djc.oracle.last_states
    o1 = djc.real_variant(cp, probes=True)
    o2 = djc.real_variant(cp2, probes=True)
    st1 = djc.compare_batch(chk, cp, exp, o1, "pair-ctx1", extra_check=ctx_check)
    st2 = djc.compare_batch(chk, cp2, exp, o2, "pair-ctx2", extra_check=ctx_check)
    pairs_equal = 0
    for p, q in zip(cp, cp2):
        e1, e2 = exp[p["id"]], exp[q["id"]]
        if e1["zone"] or e2["zone"]:
            continue
        if (e1["out"], e1["err"]) != (e2["out"], e2["err"]):
            # the specification itself must satisfy NonInterference on closed pages
            from .core import MachineryError
            raise MachineryError(f"reference semantics violates NonInterference on program {p['id']}")
        pairs_equal += 1
    chk.add("noninterference_pairs", pairs_equal)
    chk.add("traces_validated_against_impl", 2 * len(cp) - st1["zone"] - st2["zone"])
    # Component.render(context=...) in isolated mode: the context must not be visible
    pv = []
    for i, p in enumerate(closed_page_programs(random.Random(chk.seed * 17 + 9), max(50, n_pairs // 2), simple=True)):
        q = dict(p, pyctx=True)
        q["page"] = [n for n in p["page"] if n["t"] == "comp"][:1]
        q["page"][0] = dict(q["page"][0], body="none", a=[])
        pv.append(q)
    expv = djc.oracle(pv)
    st = djc.compare_batch(chk, pv, expv, pmap(_real_pyctx, pv, workers=8), "python-render-context", extra_check=ctx_check)
    chk.add("traces_validated_against_impl", len(pv) - st["zone"])
    chk.add("states", states + djc.oracle.last_states)
    chk.add("transitions", trans)


def run(tier: str) -> int:
    from . import boot
    boot.setup()
    chk = Check(PID, tier, "model_checking")
    if tier == "quick":
        body(chk, mc_nodes=3, n_random=1500, n_pairs=300, deep=3)
    else:
        body(chk, mc_nodes=3, n_random=8000, n_pairs=2000, deep=4)
    chk.cov["exhaustive"] = True
    chk.cov["rule"] = ("TLC enumerates every page with <= N nodes over the 'scope' alphabet (colliding names between page "
                       "context, loop variables, with-bindings, assignment tags between tag and fill, kwargs, component data; `only`), x2 modes, each replayed with "
                       "context probes; random colliding programs; isolated 2-run pairs under two different page contexts; "
                       "Component.render(context=) in isolated mode. Non-trivial = renders >= 1 component instance.")
    chk.assumptions += ["isolated mode: a {% with %} between the component tag and the fill that re-binds an otherwise bound "
                        "name is an unspecified zone (flagged by the specification, skipped); the same holds for an assignment tag "
                        "(`{% firstof .. as v %}`) there",
                        "the caller's Context is observed through public items of every layer + layer counts"]
    return chk.finish()


def selftest(tier: str) -> int:
    """In-process mutation probes (monkeypatched library, never /repo): each must be killed."""
    from . import boot
    from .core import run_probes
    boot.setup()
    allp = djc.standard_probes()
    probes = [(n, allp[n]) for n in ['only/isolated-does-not-isolate', 'slot-data-alias-lost']]

    def fill_capture_skips_fill_layer():
        # variables written INTO the layer the library pushes around a component tag's body (assignment tags:
        # `{% firstof .. as v %}`) are not captured for the fills; {% with %} / {% for %} layers above it still are
        from contextlib import contextmanager
        import django_components.slots as dslots

        @contextmanager
        def cm():
            orig = dslots.get_last_index

            def g(lst, key):
                i = orig(lst, key)
                if i is not None and key({dslots.FILL_GEN_CONTEXT_KEY: 0}) and not key({}):
                    return i + 1
                return i
            dslots.get_last_index = g
            try:
                yield
            finally:
                dslots.get_last_index = orig
        return cm()
    probes.append(("fill-capture-skips-assignment-tag-layer", fill_capture_skips_fill_layer))
    return run_probes(PID, probes, lambda chk: body(chk, mc_nodes=2, n_random=300, n_pairs=60, deep=3))


def replay(path: str) -> int:
    from . import boot
    boot.setup()
    d = json.load(open(path))
    p = d["case"]["json"]
    exp = djc.oracle([p])[p["id"]]
    obs = _real_pyctx(p) if d["case"]["label"] == "python-render-context" else djc._real_variant((p, False, True))
    m = djc.mismatch(exp, obs) or ctx_check(p, exp, obs)
    print(json.dumps({"expected": exp, "observed": obs, "mismatch": m}, indent=1, default=repr)[:6000])
    return 1 if m else 0
