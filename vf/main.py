"""Entry point: python -m vf.main <PROPERTY> [--tier quick|thorough] [--replay FILE] [--selftest]"""
from __future__ import annotations

import argparse
import importlib
import os
import sys
import traceback


def main() -> int:
    ap = argparse.ArgumentParser()
    ap.add_argument("pid")
    ap.add_argument("--tier", default=os.environ.get("VERIF_TIER", "quick"), choices=["quick", "thorough"])
    ap.add_argument("--replay", default=None)
    ap.add_argument("--selftest", action="store_true")
    a = ap.parse_args()
    os.environ.setdefault("PYTHONHASHSEED", "0")
    from .core import MachineryError
    try:
        mod = importlib.import_module(f"vf.{a.pid.lower()}")
    except ModuleNotFoundError as e:
        print(f"no check for {a.pid}: {e}", file=sys.stderr)
        return 2
    try:
        if a.replay:
            return int(mod.replay(a.replay))
        if a.selftest:
            return int(mod.selftest(a.tier))
        return int(mod.run(a.tier))
    except MachineryError as e:
        print(f"MACHINERY-ERROR {a.pid}: {e}", file=sys.stderr)
        return _after_failure(a)
    except Exception:
        traceback.print_exc()
        print(f"MACHINERY-ERROR {a.pid}: unexpected exception in the harness", file=sys.stderr)
        return _after_failure(a)


def _after_failure(a) -> int:
    """The harness failed.  Violations that were already reported (each with its replay file) are contradictions between
    the real code and the specification that were established before the failure: they stand (exit 1).  Without any
    (always the case on a tree that satisfies the property) it is a machinery failure (exit 2), never an alarm."""
    from .core import PRINTED_VIOLATIONS
    if not a.replay and not a.selftest and PRINTED_VIOLATIONS[0] > 0:
        print(f"{a.pid}: the run stopped early after {PRINTED_VIOLATIONS[0]} reported violation(s); they stand", flush=True)
        return 1
    return 2


if __name__ == "__main__":
    sys.exit(main())
