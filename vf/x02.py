"""X02 - runtime validation of typed component inputs / outputs
(`class Button(Component[Args, Kwargs, Slots, Data, JsData, CssData])`).

Contract (specs/TypedInputs.tla), extracted from docs/concepts/advanced/typing_and_validation.md and
the docstrings of EmptyTuple / EmptyDict (src/django_components/util/types.py):
  [D1] "The Component class optionally accepts type parameters that allow you to specify the types of
       args, kwargs, slots, and data" - "Args - Must be a Tuple or Any", "Kwargs / Data / Slots - Must be
       a TypedDict or Any"; "maybe_var: NotRequired[int] # May be ommited".
  [D2] "In Python 3.11 and later, when you specify the component types, you will get also runtime
       validation of the inputs you pass to Component.render or Component.render_to_response" ...
       "Error: First arg must be int, got float / Error: Key "another" is missing ... This would raise a
       TypeError: Component 'Button' expected positional argument at index 0 to be <class 'int'>, got
       1.25 of type <class 'float'>".
  [D3] "In case you need to skip these errors, you can either set the faulty member to Any, e.g.
       Args = Tuple[Any, str]. Or you can replace Args with Any altogether ... Same applies to kwargs,
       data, and slots."
  [D4] "To declare that a component accepts no Args, Kwargs, etc, you can use EmptyTuple and EmptyDict";
       EmptyTuple: "the args parameter will raise type error if args is anything else than an empty
       tuple ... Omitting args is also fine" (EmptyDict: the same for kwargs / slots / data).
  [D5] "For *args, set a positional argument that accepts a list of values: Args = Tuple[List[str]]",
       "extra: Dict[str, any]" - generic containers are legal member types.
  [D6] "Use SlotFunc for slot functions ... my_slot: NotRequired[SlotFunc[MySlotData]]",
       "SlotContent == Union[str, SafeString] ... another_slot: SlotContent".
  Python-version gating in the docs: "Kwargs, slots, and data validation is supported only for Python
  >=3.11" - the harness runs on 3.12, so everything is validated (on < 3.11 the check refuses to run).

Specification: Accepts is three-valued.  A value that IS of the member type by `typing` semantics
(MemberOf: bool is an int, SafeString is a str, Optional[T] = Union[T, None], containers element-wise,
fixed-length tuples) must be accepted; a value whose outer class does not even fit (OuterFits) must be
rejected with a TypeError whose message names the component and the offending position / key; in
between (a list for List[str] with a wrong element: the docs do not say how deep generics are checked)
both answers are admitted.  Component level: args against Args (count, then members), kwargs against
Kwargs, slots against Slots, the dict returned by get_context_data against Data (missing required key,
undeclared key, wrong member type); with several offending items the error may name any of them; when
nothing must be rejected the component renders, and output + the inputs seen by get_context_data equal
those of the untyped twin (`class X(Component)` with the same body).

spec -> code: MC_X02 enumerates every case of nine bounded families (see MC_X02.tla) as initial states,
              checks the theorems of the specification on each (CaseTheorems, Laws) and exports it with
              what the contract admits; Python writes a user module (real `typing` objects, class-syntax
              TypedDicts, a real Component subclass), renders the case and compares.
code -> spec: a seeded random driver (deeper types, unions of 3, tuples of 4, all four sections declared
              at once, render / render_to_response, inherited / total=False TypedDicts) records what the
              real components do; Trace_X02 validates the records in one batch with the same Conforms.

Forms that must not matter are varied by case index: NotRequired[...] in a total TypedDict / Required[...]
in a total=False one / fields split over a base TypedDict and a subclass; the library's EmptyTuple /
EmptyDict / Tuple[()] / an own empty TypedDict; SlotFunc / SlotFunc[SlotData]; render / render_to_response;
empty inputs passed / omitted; the typed class itself / a subclass of it without own type parameters.

Unspecified zones (both answers admitted): depth of generic checks; which offending item is named;
a Slot instance where SlotFunc is declared; a function / Slot where SlotContent is declared.  Of the
message only: names the component; names the index / key ("positional" for a count error).
Not generated: variable-length tuples (docs: "not supported with the typed components"), nested
TypedDicts, float as a declared type (numeric tower), ForwardRefs, JsData / CssData declarations
(not validated), get_context_data returning None, typed components used through the template tag
(docs [D2] name render / render_to_response only), cases on which two named deviations interact.

Known deviations (TypedInputsDev.tla) are reported under finding keys `<deviation>:<kind of outcome>`.
"""
from __future__ import annotations

import json
import os
import random
import re
import sys
import types as pytypes
import zlib
from concurrent.futures import ThreadPoolExecutor
from pathlib import Path
from typing import Any, Dict, List, Optional, Tuple

from . import tlc
from .core import Check, MachineryError, canon, sha, workdir

PID = "X02"
STRS = {0: "z", 1: "a", 2: "b", 3: "c"}
SECTION_OF_KEY = {"k": "kwargs", "s": "slots", "d": "data"}
KEY_NAMES = {"kwargs": ["k1", "k2", "k3", "kx"], "slots": ["s1", "s2", "s3", "sx"], "data": ["d1", "d2", "d3", "dx"]}
TEMPLATE = ('D={{ d1 }};{{ d2 }};{{ d3 }};{{ dx }}|S={% slot "s1" / %};{% slot "s2" / %};'
            '{% slot "s3" / %};{% slot "sx" / %}')
INVARIANTS = ["CaseTheorems", "Laws", "Export"]


def _procs() -> int:
    try:
        return max(1, int(os.environ.get("VF_X02_PROCS", "6")))
    except ValueError:
        return 6


# ---------------------------------------------------------------- abstract -> Python
def py_value(v: Dict[str, Any]) -> Any:
    k = v["k"]
    if k == "int":
        return int(v["n"])
    if k == "str":
        return STRS[v["n"]]
    if k == "safestr":
        from django.utils.safestring import mark_safe
        return mark_safe(STRS[v["n"]])
    if k == "bool":
        return bool(v["n"])
    if k == "float":
        return v["n"] + 0.5
    if k == "none":
        return None
    if k == "list":
        return [py_value(x) for x in v["e"]]
    if k == "tuple":
        return tuple(py_value(x) for x in v["e"])
    if k == "dict":
        d = {}
        for p in v["e"]:
            key = py_value(p["e"][0])
            if key in d:
                raise MachineryError(f"abstract dict with colliding keys: {v}")
            d[key] = py_value(p["e"][1])
        return d
    if k == "func":
        return _slot_fn
    if k == "slot":
        from django_components import Slot
        return Slot(content_func=_slot_fn)
    raise MachineryError(f"unknown value kind {k}")


def _slot_fn(ctx, data, ref):
    return "F"


def type_src(t: Dict[str, Any], generic_slotfunc: bool = False) -> str:
    """Python source of a type term (evaluated inside the generated user module)."""
    k, a = t["k"], t["a"]
    if k in ("any", "int", "str", "bool"):
        return {"any": "Any"}.get(k, k)
    if k == "none":
        return "None"
    if k == "opt":
        return f"Optional[{type_src(a[0], generic_slotfunc)}]"
    if k == "union":
        return "Union[" + ", ".join(type_src(x, generic_slotfunc) for x in a) + "]"
    if k == "list":
        return f"List[{type_src(a[0], generic_slotfunc)}]"
    if k == "dict":
        return f"Dict[{type_src(a[0], generic_slotfunc)}, {type_src(a[1], generic_slotfunc)}]"
    if k == "tuple":
        return "Tuple[" + (", ".join(type_src(x, generic_slotfunc) for x in a) if a else "()") + "]"
    if k == "slotfunc":
        return "SlotFunc[SlotData]" if generic_slotfunc else "SlotFunc"
    if k == "slotcontent":
        return "SlotContent"
    raise MachineryError(f"unknown type kind {k}")


USER_HEADER = (
    "from typing import Any, Dict, List, NotRequired, Optional, Required, Tuple, TypedDict, Union\n"
    "from django_components import Component, EmptyDict, EmptyTuple, SlotContent, SlotFunc\n"
    "\n"
    "class SlotData(TypedDict):\n"
    "    value: int\n"
    "\n"
)


def _typeddict_src(name: str, d: Dict[str, Any], variant: int) -> str:
    """Class-syntax source of one TypedDict declaration (or an alias for Any / EmptyDict)."""
    if d["any"]:
        return f"{name} = Any\n"
    fields = d["f"]
    gs = bool(variant & 32)
    if not fields:
        return f"{name} = EmptyDict\n" if not variant & 16 else f"class {name}(TypedDict):\n    pass\n"
    style = variant & 1          # 0: total + NotRequired, 1: total=False + Required
    split = bool(variant & 2) and len(fields) >= 2      # first field in a base class

    def line(f):
        ts = type_src(f["t"], gs)
        if style == 0:
            return f"    {f['name']}: {ts if f['req'] else 'NotRequired[' + ts + ']'}\n"
        return f"    {f['name']}: {'Required[' + ts + ']' if f['req'] else ts}\n"
    total = "" if style == 0 else ", total=False"
    if split:
        return (f"class {name}Base(TypedDict{total}):\n" + line(fields[0]) +
                f"class {name}({name}Base{total}):\n" + "".join(line(f) for f in fields[1:]))
    return f"class {name}(TypedDict{total}):\n" + "".join(line(f) for f in fields)


def user_source(decl: Dict[str, Any], cls_name: str, variant: int) -> str:
    a = decl["args"]
    if a["any"]:
        args = "Args = Any\n"
    elif not a["m"]:
        args = "Args = EmptyTuple\n" if not variant & 16 else "Args = Tuple[()]\n"
    else:
        args = "Args = Tuple[" + ", ".join(type_src(t) for t in a["m"]) + "]\n"
    return (USER_HEADER + args + _typeddict_src("Kwargs", decl["kwargs"], variant) +
            _typeddict_src("Slots", decl["slots"], variant) + _typeddict_src("Data", decl["data"], variant) +
            f"\nclass {cls_name}(Component[Args, Kwargs, Slots, Data, Any, Any]):\n"
            "    template = TEMPLATE\n"
            "    get_context_data = _get_context_data\n"
            f"\nclass {cls_name}Sub({cls_name}):      # a Button subclass is a Button\n"
            "    pass\n")


# what the component bodies share with the harness
_CUR: Dict[str, Any] = {"data": {}, "log": []}


def _get_context_data(self, *args, **kwargs):
    _CUR["log"].append((args, dict(kwargs)))
    return dict(_CUR["data"])


_CLASSES: Dict[str, Any] = {}
_CLASS_ORDER: List[str] = []
_PLAIN = None
_SERIAL = [0]


def _exec_user_module(src: str, modname: str):
    # typing caches subscriptions by *equality* of the parameters and Union[a, b] == Union[b, a]: without
    # this, `Tuple[Union[int, List[int]]]` would evaluate to an object created earlier in the process for
    # `Tuple[Union[List[int], int]]` (alternatives in the other order) - the case would not be a function
    # of its source text
    import typing
    for clear in list(getattr(typing, "_cleanups", [])):
        clear()
    mod = pytypes.ModuleType(modname)
    mod.__dict__.update({"TEMPLATE": TEMPLATE, "_get_context_data": _get_context_data})
    sys.modules[modname] = mod          # typing.get_type_hints() looks the module of a TypedDict up here
    try:
        exec(compile(src, f"<{modname}>", "exec", dont_inherit=True), mod.__dict__)   # no `from __future__`
    except Exception as e:
        raise MachineryError(f"generated user module does not import: {e!r}\n{src}")
    return mod


def typed_class(decl: Dict[str, Any], variant: int):
    """(class, source) of the typed component of a declaration; a small per-process cache."""
    key = canon(decl) + f"#{variant & 0b110011}"
    hit = _CLASSES.get(key)
    if hit is not None:
        return hit
    _SERIAL[0] += 1
    name = f"VfX02C{_SERIAL[0]}"
    modname = f"vf_x02_user_{os.getpid()}_{_SERIAL[0]}"
    src = user_source(decl, name, variant)
    mod = _exec_user_module(src, modname)
    _CLASSES[key] = ((getattr(mod, name), getattr(mod, name + "Sub")), src, modname)
    _CLASS_ORDER.append(key)
    if len(_CLASS_ORDER) > 48:
        old = _CLASS_ORDER.pop(0)
        sys.modules.pop(_CLASSES.pop(old)[2], None)
    return _CLASSES[key]


def plain_class():
    """The untyped twin: the same body on `class X(Component)`."""
    global _PLAIN
    if _PLAIN is None:
        src = ("from django_components import Component\n\nclass VfX02Plain(Component):\n"
               "    template = TEMPLATE\n    get_context_data = _get_context_data\n")
        _PLAIN = _exec_user_module(src, f"vf_x02_user_{os.getpid()}_plain").VfX02Plain
    return _PLAIN


# ---------------------------------------------------------------- execution + projection
def _entries(es: List[Dict[str, Any]]) -> Dict[str, Any]:
    return {e["key"]: py_value(e["v"]) for e in es}


def _render(cls, call: Dict[str, Any], variant: int) -> Tuple[str, Any]:
    """Render `cls` with the call -> (output text, inputs seen by get_context_data)."""
    args = tuple(py_value(v) for v in call["args"])
    kwargs = _entries(call["kwargs"])
    slots = _entries(call["slots"])
    _CUR["data"] = _entries(call["data"])
    del _CUR["log"][:]
    kw: Dict[str, Any] = {}
    omit = bool(variant & 8)
    if args or not omit:
        kw["args"] = args
    if kwargs or not omit:
        kw["kwargs"] = kwargs
    if slots or not omit:
        kw["slots"] = slots
    if variant & 4:
        out = cls.render_to_response(**kw).content.decode("utf-8")
    else:
        out = cls.render(**kw)
    seen = [(a, k) for a, k in _CUR["log"]]
    return out, seen


_TWIN: Dict[str, Any] = {}


def _twin(call: Dict[str, Any], variant: int):
    key = canon(call) + f"#{variant & 12}"
    hit = _TWIN.get(key)
    if hit is None:
        try:
            hit = _render(plain_class(), call, variant)
        except Exception as e:  # the generator must not produce calls the untyped component rejects
            raise MachineryError(f"untyped twin failed on {call}: {e!r}")
        if len(_TWIN) > 20000:
            _TWIN.clear()
        _TWIN[key] = hit
    return hit


def named_items(msg: str) -> List[str]:
    """The items an error message mentions: args:<index>, <section>:<key>, args:count."""
    named = set()
    for m in re.finditer(r"index (\d+)", msg):
        named.add(f"args:{m.group(1)}")
    for q in re.findall(r"'([^']*)'", msg):
        if len(q) == 2 and q[0] in SECTION_OF_KEY and (q[1].isdigit() or q[1] == "x"):
            named.add(f"{SECTION_OF_KEY[q[0]]}:{q}")
    if "positional" in msg and "index" not in msg:
        named.add("args:count")
    return sorted(named)


def observe(decl: Dict[str, Any], call: Dict[str, Any], variant: int) -> Dict[str, Any]:
    classes, _src, _mod = typed_class(decl, variant)
    cls = classes[1 if variant & 64 else 0]
    try:
        out, seen = _render(cls, call, variant)
    except TypeError as e:
        msg = str(e)
        return {"o": "type", "named": named_items(msg), "same": False, "comp": cls.__name__ in msg,
                "exc": "TypeError", "msg": msg[-300:]}
    except Exception as e:  # noqa: BLE001 - the exception class is the observation
        msg = str(e)
        return {"o": "other", "named": named_items(msg), "same": False, "comp": cls.__name__ in msg,
                "exc": type(e).__name__, "msg": msg[-300:]}
    t_out, t_seen = _twin(call, variant)
    same = out == t_out and seen == t_seen and len(seen) == 1
    return {"o": "ok", "named": [], "same": same, "comp": False, "exc": "", "msg": "",
            **({} if same else {"out": out[:200], "untyped_out": t_out[:200]})}


def conforms(row: Dict[str, Any], obs: Dict[str, Any]) -> bool:
    """Membership of the observation in what the specification exported (Conforms of TypedInputs)."""
    if obs["o"] == "ok":
        return bool(row["ok"]) and obs["same"]
    if obs["o"] == "type":
        return obs["comp"] and bool(set(obs["named"]) & set(row["may"]))
    return False


def deviation_key(row: Dict[str, Any], obs: Dict[str, Any]) -> Optional[str]:
    for d in sorted(row["devs"], key=lambda d: d["size"]):
        if d["o"] == obs["o"] and sorted(d["named"]) == sorted(obs["named"]):
            return d["key"]
    return None


def describe(decl, call, variant) -> Dict[str, Any]:
    return {"source": user_source(decl, "Typed", variant),
            "python_call": {"args": repr(tuple(py_value(v) for v in call["args"])),
                     "kwargs": repr(_entries(call["kwargs"])), "slots": repr(_entries(call["slots"])),
                     "get_context_data_returns": repr(_entries(call["data"]))},
            "via": ("render_to_response" if variant & 4 else "render") + (" on TypedSub" if variant & 64 else "")}


# ---------------------------------------------------------------- spec -> code
def _group_key(line: str) -> str:
    head = line.split(',"call":', 1)[0]
    if '"decl":' not in head:
        raise MachineryError(f"exported line without a declaration before the call: {line[:120]}")
    return head


def _replay_job(job):
    """Worker: replay the lines of one exported file whose declaration hashes to this share.
    -> (n cases, stats, problems, samples)"""
    from . import boot
    boot.setup()
    path, share, shares, max_problems = job
    groups: Dict[str, List[str]] = {}
    skipped = 0
    with open(path, encoding="utf-8") as f:
        for line in f:
            if '"skip":true' in line:
                skipped += share == 0
                continue
            g = _group_key(line)
            if zlib.crc32(g.encode()) % shares == share:
                groups.setdefault(g, []).append(line)
    stats = {"ok": 0, "type": 0, "other": 0, "zone": 0, "must_reject": 0, "must_accept": 0,
             "nontrivial": 0, "not_separable_skipped": skipped}
    problems: List[Dict[str, Any]] = []
    per_key: Dict[Optional[str], int] = {}
    samples: List[Dict[str, Any]] = []
    n = 0
    for gi, g in enumerate(sorted(groups)):
        for ri, line in enumerate(groups[g]):
            row = json.loads(line)
            # what must not matter: TypedDict style by declaration, the way of calling by case
            # (a function of the exported line only, not of how the lines are shared out to workers)
            hg, hl = zlib.crc32(g.encode()), zlib.crc32(line.encode())
            variant = (hg % 4) | ((hl % 4) << 2) | (((hg >> 8) % 4) << 4) | (64 if (hl >> 8) % 5 == 0 else 0)
            decl, call = row["decl"], row["call"]
            obs = observe(decl, call, variant)
            n += 1
            stats[obs["o"]] += 1
            if row["ok"] and row["may"]:
                stats["zone"] += 1
            elif row["ok"]:
                stats["must_accept"] += 1
            else:
                stats["must_reject"] += 1
            stats["nontrivial"] += not all(decl[s]["any"] for s in ("args", "kwargs", "slots", "data"))
            if len(samples) < 2 and (hl >> 4) % 499 == 7:
                samples.append({"family": row["fam"], **describe(decl, call, variant),
                                "admits": {"render": row["ok"], "TypeError_naming": row["may"]},
                                "observed": {k: obs[k] for k in ("o", "named", "same", "comp", "msg")}})
            if conforms(row, obs):
                continue
            key = deviation_key(row, obs)
            per_key[key] = per_key.get(key, 0) + 1
            if per_key[key] <= (max_problems if key is None else 3):
                problems.append({"fam": row["fam"], "decl": decl, "call": call, "variant": variant, "key": key,
                                 "admits": {"render": row["ok"], "TypeError_naming_one_of": row["may"],
                                            "must_reject": row["must"]},
                                 "observed": obs})
            else:
                problems.append({"key": key, "counted_only": True, "fam": row["fam"]})
    return n, stats, problems, samples


def _write_cfg(path: Path, spec: str, consts: Dict[str, Any], invariants: List[str]) -> None:
    def lit(v):
        if isinstance(v, bool):
            return "TRUE" if v else "FALSE"
        if isinstance(v, str):
            return '"%s"' % v
        return str(v)
    lines = [f"SPECIFICATION {spec}"]
    if consts:
        lines += ["CONSTANTS"] + [f"  {k} = {lit(v)}" for k, v in consts.items()]
    lines += [f"INVARIANT {i}" for i in invariants]
    path.write_text("\n".join(lines) + "\n")


def start_family(ex: ThreadPoolExecutor, fam: str, rich: bool, parts: int):
    w = workdir("x02mc")
    jobs = []
    for part in range(parts):
        cfg = w / f"{fam}_{part}.cfg"
        out = w / f"{fam}_{part}.ndjson"
        _write_cfg(cfg, "MCSpec", {"Family": fam, "Parts": parts, "Part": part, "Rich": rich}, INVARIANTS)
        jobs.append((cfg, out))

    def one(job):
        cfg, out = job
        return tlc.run("MC_X02", str(cfg), env={"OUT": str(out)}, workers=1, heap="2g")
    return jobs, [ex.submit(one, j) for j in jobs]


def finish_family(chk: Check, fam: str, started) -> List[Path]:
    jobs, futures = started
    files = []
    for part, ((cfg, out), fut) in enumerate(zip(jobs, futures)):
        r = tlc.require_ok(fut.result(), f"MC_X02 {fam} part {part}")
        chk.add("transitions", r.generated)
        chk.add("states", r.distinct)
        chk.add(f"states_{fam}", r.distinct)
        if fam == "laws":
            continue
        n_rows = 0
        if out.exists():
            with open(out, encoding="utf-8") as f:
                for _ in f:
                    n_rows += 1
        if n_rows != r.distinct:
            raise MachineryError(f"MC_X02 {fam} part {part}: export incomplete ({n_rows} rows, {r.distinct} states)")
        files.append(out)
    return files


def collect_replay(chk: Check, fam: str, results) -> None:
    total = 0
    for n, stats, problems, samples in results:
        total += n
        for k, v in stats.items():
            chk.add("distinct_nontrivial" if k == "nontrivial" else f"replay_{k}", v)
        for p in problems:
            _report(chk, p)
        for s in samples[:1]:
            chk.sample({"case": s}, limit=6)
    chk.evals += total
    chk.add("cases_replayed", total)
    chk.add(f"cases_{fam}", total)


def _report(chk: Check, p: Dict[str, Any]) -> None:
    if p.get("counted_only"):
        chk.violation({"kind": "export", "fam": p["fam"], "note": "further case of the same kind, not stored"},
                      None, key=p["key"])
        return
    case = {"kind": p.get("kind", "export"), "fam": p["fam"], "decl": p["decl"], "call": p["call"],
            "variant": p["variant"], **describe(p["decl"], p["call"], p["variant"])}
    chk.violation(case, {"admits": p["admits"], "observed": p["observed"]}, key=p["key"])


# ---------------------------------------------------------------- code -> spec
LEAF_T = ["any", "int", "str", "bool", "none"]


def _t(k: str, *a) -> Dict[str, Any]:
    return {"k": k, "a": list(a)}


def _v(k: str, n: int = 0, e=()) -> Dict[str, Any]:
    return {"k": k, "n": n, "e": list(e)}


def rand_type(rnd: random.Random, depth: int, top: bool = True) -> Dict[str, Any]:
    """A well-formed member type (what typing would not normalise: distinct plain alternatives)."""
    if depth <= 0 or rnd.random() < 0.3:
        return _t(rnd.choice(["int", "str", "int", "str", "bool", "none", "any"]))
    x = rnd.random()
    if x < 0.2:
        inner = rand_type(rnd, depth - 1, False)
        while inner["k"] in ("opt", "none", "any") or \
                (inner["k"] == "union" and any(a["k"] == "none" for a in inner["a"])):
            inner = rand_type(rnd, depth - 1, False)
        return _t("opt", inner)
    if x < 0.45:
        alts: List[Dict[str, Any]] = []
        want = rnd.choice([2, 2, 3])
        simple_only = rnd.random() < 0.5      # unions of classes work today; keep many of them
        guard = 0
        while len(alts) < want and guard < 50:
            guard += 1
            a = _t(rnd.choice(["int", "str", "bool", "none"])) if simple_only else rand_type(rnd, depth - 1, False)
            if a["k"] in ("union", "opt") or a in alts:
                continue
            # `Any` next to a generic alternative: two named deviations interact, not generated
            if (a["k"] == "any" and any(b["k"] in ("list", "dict", "tuple") for b in alts)) or \
                    (a["k"] in ("list", "dict", "tuple") and any(b["k"] == "any" for b in alts)):
                continue
            alts.append(a)
        if len(alts) >= 2:
            return _t("union", *alts)
        return _t("int")
    if x < 0.65:
        return _t("list", rand_type(rnd, depth - 1, False))
    if x < 0.8:
        return _t("dict", _t(rnd.choice(["str", "int", "str", "any"])), rand_type(rnd, depth - 1, False))
    return _t("tuple", *[rand_type(rnd, depth - 1, False) for _ in range(rnd.randint(0 if not top else 1, 3))])


def rand_value(rnd: random.Random, depth: int) -> Dict[str, Any]:
    x = rnd.random()
    if depth <= 0 or x < 0.55:
        k = rnd.choice(["int", "str", "none", "bool", "float", "safestr", "int", "str"])
        n = {"int": rnd.choice([0, 1, 2, 7]), "str": rnd.randint(0, 3), "safestr": rnd.randint(1, 3),
             "bool": rnd.randint(0, 1), "float": rnd.randint(0, 2), "none": 0}[k]
        return _v(k, n)
    if x < 0.7:
        return _v("list", 0, [rand_value(rnd, depth - 1) for _ in range(rnd.randint(0, 3))])
    if x < 0.85:
        return _v("tuple", 0, [rand_value(rnd, depth - 1) for _ in range(rnd.randint(0, 3))])
    return _dict_value(rnd, [(_key_value(rnd, None), rand_value(rnd, depth - 1)) for _ in range(rnd.randint(0, 3))])


def _key_value(rnd: random.Random, kt: Optional[Dict[str, Any]]) -> Dict[str, Any]:
    """A hashable dict key (a str or an int > 1, so that keys never collide with True / each other)."""
    kind = kt["k"] if kt and kt["k"] in ("str", "int") else rnd.choice(["str", "int"])
    return _v("str", rnd.randint(0, 3)) if kind == "str" else _v("int", rnd.choice([2, 3, 7]))


def _dict_value(rnd: random.Random, pairs) -> Dict[str, Any]:
    seen, out = set(), []
    for k, v in pairs:
        ident = (k["k"], k["n"])
        if ident not in seen:
            seen.add(ident)
            out.append(_v("pair", 0, [k, v]))
    return _v("dict", 0, out)


def value_for(rnd: random.Random, t: Dict[str, Any], depth: int = 3) -> Dict[str, Any]:
    """A value of type t (by typing semantics)."""
    k, a = t["k"], t["a"]
    if k == "any":
        return rand_value(rnd, 1)
    if k == "int":
        return _v("bool", rnd.randint(0, 1)) if rnd.random() < 0.12 else _v("int", rnd.choice([0, 1, 2, 7]))
    if k == "str":
        return _v("safestr", rnd.randint(1, 3)) if rnd.random() < 0.12 else _v("str", rnd.randint(0, 3))
    if k == "bool":
        return _v("bool", rnd.randint(0, 1))
    if k == "none":
        return _v("none")
    if k == "opt":
        return _v("none") if rnd.random() < 0.35 else value_for(rnd, a[0], depth)
    if k == "union":
        return value_for(rnd, rnd.choice(a), depth)
    if k == "list":
        return _v("list", 0, [value_for(rnd, a[0], depth - 1) for _ in range(rnd.randint(0, 3))])
    if k == "dict":
        return _dict_value(rnd, [(_key_value(rnd, a[0]), value_for(rnd, a[1], depth - 1))
                                 for _ in range(rnd.randint(0, 2))])
    if k == "tuple":
        return _v("tuple", 0, [value_for(rnd, x, depth - 1) for x in a])
    if k == "slotfunc":
        return _v("func")
    if k == "slotcontent":
        return _v(rnd.choice(["str", "safestr"]), rnd.randint(1, 3))
    raise MachineryError(f"value_for: {k}")


def mutate(rnd: random.Random, v: Dict[str, Any]) -> Dict[str, Any]:
    """Replace one sub-value (possibly deep inside) by a random one."""
    if not v["e"] or rnd.random() < 0.35:
        return rand_value(rnd, 1)
    if v["k"] == "dict":
        i = rnd.randrange(len(v["e"]))
        p = v["e"][i]
        e = list(v["e"])
        e[i] = _v("pair", 0, [p["e"][0], mutate(rnd, p["e"][1])])
        return _v("dict", 0, e)
    if v["k"] == "tuple" and rnd.random() < 0.3:      # a tuple of another length
        e = list(v["e"])
        if rnd.random() < 0.5:
            e.pop(rnd.randrange(len(e)))
        else:
            e.append(rand_value(rnd, 0))
        return _v("tuple", 0, e)
    i = rnd.randrange(len(v["e"]))
    e = list(v["e"])
    e[i] = mutate(rnd, e[i])
    return _v(v["k"], v["n"], e)


def _value_toward(rnd: random.Random, t: Dict[str, Any], p_good: float) -> Dict[str, Any]:
    v = value_for(rnd, t)
    return v if rnd.random() < p_good else mutate(rnd, v)


SLOT_TYPES = [_t("slotfunc"), _t("slotfunc"), _t("slotcontent"), _t("str"), _t("any"),
              _t("union", _t("str"), _t("int"))]
SLOT_VALUES = [_v("str", 1), _v("safestr", 2), _v("func"), _v("slot"), _v("int", 1)]


def random_case(rnd: random.Random, depth: int) -> Tuple[Dict[str, Any], Dict[str, Any]]:
    p_good = rnd.choice([1.0, 0.9, 0.7])
    overlong = rnd.random() < 0.12
    # over-long args are kept apart from the other deviation shapes (findings stay separately keyed)
    plain = overlong

    def mtype(d):
        t = rand_type(rnd, 0 if plain else d)
        if plain and t["k"] == "any":
            t = _t("int")
        return t
    decl: Dict[str, Any] = {}
    call: Dict[str, Any] = {}
    if rnd.random() < 0.15:
        decl["args"] = {"any": True, "m": []}
        call["args"] = [rand_value(rnd, 1) for _ in range(rnd.randint(0, 3))]
    else:
        m = [mtype(depth) for _ in range(rnd.choice([0, 1, 1, 2, 2, 3, 4]))]
        decl["args"] = {"any": False, "m": m}
        vals = [_value_toward(rnd, t, p_good) for t in m]
        if overlong:
            vals += [rand_value(rnd, 0) for _ in range(rnd.randint(1, 2))]
        elif vals and rnd.random() < 0.1:
            vals = vals[:rnd.randrange(len(vals))]
        call["args"] = vals
    for sec in ("kwargs", "slots", "data"):
        names = KEY_NAMES[sec]
        if rnd.random() < (0.5 if sec == "slots" else 0.2):
            decl[sec] = {"any": True, "f": []}
            keys = rnd.sample(names, rnd.randint(0, 2))
            call[sec] = [{"key": k, "v": rnd.choice(SLOT_VALUES) if sec == "slots" else rand_value(rnd, 1)}
                         for k in keys]
            continue
        chosen = rnd.sample(names[:3], rnd.choice([0, 1, 2, 2, 3]))
        fields, entries = [], []
        for name in chosen:
            if sec == "slots":
                t = json.loads(canon(rnd.choice(SLOT_TYPES)))
                if plain and t["k"] in ("slotcontent", "any"):
                    t = _t("slotfunc")
            else:
                t = mtype(depth - 1)
            req = rnd.random() < 0.65
            fields.append({"name": name, "req": req, "t": t})
            present = rnd.random() < (0.93 if req else 0.5) or p_good == 1.0 and req
            if present:
                if sec == "slots":
                    v = value_for(rnd, t) if t["k"] in ("slotfunc", "slotcontent") and rnd.random() < p_good \
                        else rnd.choice(SLOT_VALUES)
                else:
                    v = _value_toward(rnd, t, p_good)
                entries.append({"key": name, "v": v})
        if rnd.random() < (0.0 if p_good == 1.0 else 0.15):
            extra = rnd.choice([n for n in names if n not in chosen])
            entries.append({"key": extra, "v": rnd.choice(SLOT_VALUES) if sec == "slots" else rand_value(rnd, 0)})
        rnd.shuffle(entries)
        decl[sec] = {"any": False, "f": fields}
        call[sec] = entries
    return decl, call


def normalise_unions(decl: Dict[str, Any]) -> None:
    """Within one module typing's subscription cache makes `List[Union[b, a]]` evaluate to an earlier
    `List[Union[a, b]]`: give every union whose set of alternatives occurred before (in evaluation
    order) the order of its first occurrence, so that the source text means what it says; alternatives
    that thereby become equal are merged (as typing would)."""
    first: Dict[str, List[Dict[str, Any]]] = {}

    def walk(t):
        a = [walk(x) for x in t["a"]]
        if t["k"] == "union":
            uniq: List[Dict[str, Any]] = []
            for x in a:
                if x not in uniq:
                    uniq.append(x)
            if len(uniq) == 1:
                return uniq[0]
            ident = canon(sorted(canon(x) for x in uniq))
            uniq = first.setdefault(ident, uniq)
            return {"k": "union", "a": json.loads(canon(uniq))}
        if t["k"] == "opt" and (a[0]["k"] in ("opt", "none", "any") or
                                (a[0]["k"] == "union" and any(x["k"] == "none" for x in a[0]["a"]))):
            return a[0]
        return {"k": t["k"], "a": a}
    decl["args"]["m"] = [walk(t) for t in decl["args"]["m"]]
    for sec in ("kwargs", "slots", "data"):
        for f in decl[sec]["f"]:
            f["t"] = walk(f["t"])


def _record_job(job):
    from . import boot
    boot.setup()
    seed, first_id, count, depth = job
    rnd = random.Random(seed)
    out = []
    for i in range(count):
        decl, call = random_case(rnd, depth)
        normalise_unions(decl)
        variant = rnd.randrange(128)
        obs = observe(decl, call, variant)
        out.append({"id": first_id + i, "decl": decl, "call": call, "variant": variant,
                    "obs": {"o": obs["o"], "named": obs["named"], "same": obs["same"], "comp": obs["comp"]},
                    "_obs": obs})
    return out


def _verdicts(out: str, n: int) -> Dict[str, Any]:
    acc = {int(m.group(1)) for m in re.finditer(r'<<\s*"ACCEPT",\s*(\d+)\s*>>', out)}
    rej = {}
    for m in re.finditer(r'<<\s*"REJECT",\s*(\d+),\s*(\d+),\s*\{(.*?)\}\s*>>', out, re.S):
        rej[int(m.group(1))] = [c.strip().strip('"') for c in m.group(3).split(",") if c.strip()]
    if len(acc) + len(rej) != n or acc & set(rej):
        tail = "\n".join(out.splitlines()[-40:])
        raise MachineryError(f"Trace_X02: {len(acc)}+{len(rej)} verdicts for {n} traces\n{tail}")
    return {"accepted": acc, "rejected": rej}


def run_trace_tlc(traces: List[Dict[str, Any]], tag: str = "x02tr") -> Tuple[Dict[str, Any], Any]:
    w = workdir(tag)
    f = w / "traces.ndjson"
    tlc.write_ndjson(f, [{k: t[k] for k in ("id", "decl", "call", "obs")} for t in traces])
    cfg = w / "trace.cfg"
    _write_cfg(cfg, "TrSpec", {}, ["TraceTheorems"])
    r = tlc.require_ok(tlc.run("Trace_X02", str(cfg), env={"IN": str(f)}, workers=1, heap="2g"), "Trace_X02")
    return _verdicts(r.out, len(traces)), r


def validate_traces(chk: Check, pool, total: int, depth: int) -> None:
    per = 200       # fixed, so that the cases do not depend on the number of worker processes
    jobs, n = [], 0
    while n < total:
        c = min(per, total - n)
        jobs.append((chk.seed * 1000003 + 211 * (len(jobs) + 1), n + 1, c, depth))
        n += c
    traces: List[Dict[str, Any]] = []
    for part in _map(pool, _record_job, jobs):
        traces += part
    v, r = run_trace_tlc(traces)
    by_id = {t["id"]: t for t in traces}
    for tid, clauses in sorted(v["rejected"].items()):
        t = by_id[tid]
        if "malformed_case" in clauses:
            raise MachineryError(f"random driver produced a malformed case: {t['decl']} {t['call']}")
        case = {"kind": "trace", "fam": "random", "decl": t["decl"], "call": t["call"], "variant": t["variant"],
                **describe(t["decl"], t["call"], t["variant"])}
        detail = {"clauses": clauses, "observed": t["_obs"]}
        devs = [c[4:] for c in clauses if c.startswith("dev:")]
        if devs and all(c.startswith("dev:") for c in clauses):
            for key in devs:
                if "+" in key.split(":")[0]:
                    # several named deviations at once explain it: no new information, not a new key
                    chk.add("traces_explained_by_several_deviations", 1)
                else:
                    chk.violation(case, detail, key=key)
        else:
            chk.violation(case, detail, key=None)
    distinct = set()
    for t in traces:
        chk.add("trace_" + t["obs"]["o"], 1)
        if not all(t["decl"][s]["any"] for s in t["decl"]):
            distinct.add(sha([t["decl"], t["call"]]))
    chk.evals += len(traces)
    chk.add("distinct_nontrivial", len(distinct))
    chk.add("traces_validated_against_impl", len(traces))
    chk.add("trace_states", r.distinct)
    if traces:
        t = traces[len(traces) // 3]
        chk.sample({"trace": {**describe(t["decl"], t["call"], t["variant"]),
                              "observed": {k: t["_obs"][k] for k in ("o", "named", "same", "comp", "msg")},
                              "verdict": "ACCEPT" if t["id"] in v["accepted"] else v["rejected"][t["id"]]}}, limit=8)


# ---------------------------------------------------------------- orchestration
def _map(pool, fn, jobs):
    if pool is None or len(jobs) <= 1:
        return [fn(j) for j in jobs]
    return pool.map(fn, jobs, chunksize=1)


#            family  TLC parts
FAMILIES = [("m11", 2), ("kwargs", 2), ("slots", 2), ("data", 2), ("m21", 2), ("m12", 1), ("args", 1),
            ("cross", 1), ("laws", 1)]
THOROUGH_FAMILIES = [("m21", 4), ("kwargs", 4), ("data", 4), ("args", 2), ("m12", 2), ("m11", 2), ("slots", 2),
                     ("cross", 1), ("laws", 2)]
SELFTEST_FAMILIES = [("m11", 2), ("kwargs", 2), ("args", 1), ("cross", 1)]


def core(chk: Check, families, rich: bool, ntraces: int, depth: int,
         cache: Optional[Dict[str, List[Path]]] = None) -> None:
    """Worker processes are forked first (before any TLC thread exists and, in the selftest, while the
    mutation probe is patched in); all TLC runs are queued at once (4 at a time); each family is
    replayed as soon as its export is complete."""
    import multiprocessing as mp
    import time
    if sys.version_info < (3, 11):
        raise MachineryError("X02 specifies the behaviour documented for Python >= 3.11")
    pool = mp.get_context("fork").Pool(_procs()) if _procs() > 1 else None
    try:
        with ThreadPoolExecutor(max_workers=4) as ex:
            started = {fam: start_family(ex, fam, rich, parts) for fam, parts in families
                       if cache is None or fam not in cache}
            pending = []
            shares = max(1, _procs())
            for fam, parts in families:
                t0 = time.time()
                if fam in started:
                    files = finish_family(chk, fam, started[fam])
                    if cache is not None:
                        cache[fam] = files
                else:
                    files = cache[fam]
                jobs = [(str(f), s, shares, 30) for f in files for s in range(shares)]
                if pool is None:
                    pending.append((fam, [_replay_job(j) for j in jobs], t0))
                else:
                    pending.append((fam, pool.map_async(_replay_job, jobs, chunksize=1), t0))
            for fam, res, t0 in pending:
                results = res if isinstance(res, list) else res.get(timeout=1500)
                collect_replay(chk, fam, results)
                chk.cov.setdefault("wall_s_by_phase", {})[fam] = round(time.time() - t0, 1)
        t0 = time.time()
        validate_traces(chk, pool, ntraces, depth)
        chk.cov.setdefault("wall_s_by_phase", {})["traces"] = round(time.time() - t0, 1)
    finally:
        if pool is not None:
            pool.terminate()
            pool.join()


def run(tier: str) -> int:
    from . import boot
    boot.setup()
    chk = Check(PID, tier, "model_checking")
    if tier == "quick":
        core(chk, FAMILIES, False, 3000, 3)
    else:
        core(chk, THOROUGH_FAMILIES, True, 40000, 4)
    chk.cov["exhaustive"] = True
    chk.cov["python"] = sys.version.split()[0]
    chk.cov["rule"] = ("every initial state of MC_X02 = one (declaration, call) case of a bounded family "
                       "(member type x value pairs up to depth 2 in args / kwargs / data position; every small "
                       "Args declaration x call; every two-field TypedDict x dict for kwargs, slots, data; all "
                       "four sections at once), rendered on a real Component subclass built from generated "
                       "source and compared with what TypedInputs admits; seeded random deeper cases validated "
                       "by Trace_X02. Non-trivial = at least one section is typed; distinct = exported cases "
                       "(checked equal to TLC's distinct states) + random cases by hash")
    chk.assumptions += [
        "Python >= 3.11 (docs: kwargs / slots / data validation only there); run on " + sys.version.split()[0],
        "values: small ints, three strings, None, bools, x.5 floats, SafeString, lists / tuples / dicts of those; "
        "slot values: str, SafeString, function, Slot, int - validation looks at classes only",
        "zones (both answers admitted): depth of generic checks, which offending item is named, Slot for SlotFunc, "
        "function / Slot for SlotContent; of messages only component name + index / key are compared",
        "get_context_data accepts (*args, **kwargs), so validation is the only gate; the untyped twin is the same "
        "body on a plain Component",
        "cases on which two named deviations interact are not exported (counted in replay_not_separable_skipped / "
        "traces_explained_by_several_deviations)",
    ]
    return chk.finish()


# ---------------------------------------------------------------- replay of one stored case
def replay(path: str) -> int:
    """Re-execute exactly the stored case on the real code and let TLC judge the recorded
    observation against Trace_X02 (same specification as the check)."""
    from . import boot
    boot.setup()
    d = json.load(open(path))
    case = d["case"]
    if "decl" not in case:
        print("this record only counts a further case of a kind stored elsewhere")
        return 2
    decl, call, variant = case["decl"], case["call"], int(case.get("variant", 0))
    obs = observe(decl, call, variant)
    t = {"id": 1, "decl": decl, "call": call,
         "obs": {"o": obs["o"], "named": obs["named"], "same": obs["same"], "comp": obs["comp"]}}
    v, _r = run_trace_tlc([t], "x02rp")
    print(user_source(decl, "Typed", variant))
    for k, x in describe(decl, call, variant)["python_call"].items():
        print(f"{k:26s} {x}")
    print(f"{'observed':26s} {json.dumps(obs)}")
    print(f"{'verdict':26s} {'ACCEPT' if v['accepted'] else {'REJECT': v['rejected'][1]}}")
    return 1 if v["rejected"] else 0


# ---------------------------------------------------------------- selftest
_FILES_CACHE: Dict[str, List[Path]] = {}


def _mutant(fn, subs, globs):
    """A copy of `fn` compiled from its source with textual substitutions."""
    import inspect
    import textwrap
    src = textwrap.dedent(inspect.getsource(fn))
    for old, new in subs:
        if old not in src:
            raise MachineryError(f"mutation probe no longer applies to {fn.__name__}: {old[:60]!r}")
        src = src.replace(old, new)
    ns: Dict[str, Any] = {}
    exec(compile(src, f"<mutant of {fn.__name__}>", "exec"), globs, ns)
    return ns[fn.__name__]


def selftest(tier: str) -> int:
    """In-process mutation probes: realistic bugs in validate_typed_tuple / validate_typed_dict /
    Component._validate_* that the repository's tests would largely let through.  Never touches /repo."""
    from contextlib import ExitStack, contextmanager
    from . import boot
    from .core import run_probes
    boot.setup()
    import django_components.component as dcomp
    import django_components.util.validation as dval

    @contextmanager
    def patch(obj, name, new):
        old = obj.__dict__[name]
        setattr(obj, name, new)
        try:
            yield
        finally:
            setattr(obj, name, old)

    def val(fname, subs):
        """Mutate a function of util/validation.py (component.py holds its own reference to it)."""
        def cm():
            new = _mutant(getattr(dval, fname), subs, dval.__dict__)

            @contextmanager
            def both():
                with ExitStack() as st:
                    st.enter_context(patch(dval, fname, new))
                    if fname in dcomp.__dict__:
                        st.enter_context(patch(dcomp, fname, new))
                    yield
            return both()
        return cm

    def comp(mname, subs):
        def cm():
            return patch(dcomp.Component, mname, _mutant(dcomp.Component.__dict__[mname], subs, dcomp.__dict__))
        return cm

    @contextmanager
    def shared_types():
        new = _mutant(dcomp.Component.__dict__["_get_types"], [
            ("    if self._types == False:", "    self._types = Component.__dict__.get('_vf_types')\n"
                                             "    if self._types == False:"),
            ("    self._types = args_type, kwargs_type, slots_type, data_type, js_data_type, css_data_type\n",
             "    self._types = args_type, kwargs_type, slots_type, data_type, js_data_type, css_data_type\n"
             "    Component._vf_types = self._types\n")], dcomp.__dict__)
        try:
            with patch(dcomp.Component, "_get_types", new):
                yield
        finally:
            if "_vf_types" in dcomp.Component.__dict__:
                del dcomp.Component._vf_types

    probes = [
        ("tuple: last declared member is not type-checked",
         val("validate_typed_tuple", [("enumerate(tuple_type.__args__)", "enumerate(tuple_type.__args__[:-1])")])),
        ("tuple: too few positional args accepted when some are given",
         val("validate_typed_tuple", [("if expected_pos_args > actual_pos_args:",
                                       "if expected_pos_args > actual_pos_args and actual_pos_args == 0:"),
                                      ("arg = value[index]", "if index >= actual_pos_args:\n            break\n"
                                                             "        arg = value[index]")])),
        ("tuple: error names the 1-based position",
         val("validate_typed_tuple", [("at index {index} to be", "at index {index + 1} to be")])),
        ("dict: missing required key not reported",
         val("validate_typed_dict", [("if key in required_kwargs:", "if False:")])),
        ("dict: NotRequired keys treated as required",
         val("validate_typed_dict", [("if key in required_kwargs:", "if True:")])),
        ("dict: undeclared keys accepted",
         val("validate_typed_dict", [("if unseen_keys:", "if False:")])),
        ("dict: member types compared with type() instead of isinstance()",
         val("validate_typed_dict", [("not isinstance(kwarg, kwarg_type)",
                                      "(isinstance(kwarg_type, type) and type(kwarg) is not kwarg_type)")])),
        ("dict: error names the component but not the key",
         val("validate_typed_dict", [("expected {kind} '{key}' to be", "expected {kind} to be")])),
        ("generic members (List[..], Dict[..]) not validated at all",
         val("_prepare_type_for_validation", [("return the_type.__origin__", "return object")])),
        ("component: data validated against the Slots type",
         comp("_validate_outputs", [("validate_typed_dict(data, data_type,", "validate_typed_dict(data, slots_type,")])),
        ("component: get_context_data output never validated",
         comp("_validate_outputs", [("validate_typed_dict(data, data_type,", "(lambda *a: None)(data, data_type,")])),
        ("component: slots not validated",
         comp("_validate_inputs", [("validate_typed_dict(slots, slots_type,", "(lambda *a: None)(slots, slots_type,")])),
        ("component: validation skipped when kwargs are empty",
         comp("_validate_inputs", [("validate_typed_dict(kwargs, kwargs_type,",
                                    "kwargs and validate_typed_dict(kwargs, kwargs_type,")])),
        ("component: types cached on the Component base class (first typed component wins)", shared_types),
        ("component: a subclass of a typed component is not validated",
         comp("_get_types", [("= self.__orig_bases__", "= self.__class__.__dict__.get('__orig_bases__', ())")])),
        ("Optional[T] / Union checked against the first alternative only",
         val("_prepare_type_for_validation",
             [("        else:\n            return the_type\n",
               "        else:\n            return the_type.__args__[0] if the_type.__origin__ is typing.Union "
               "else the_type\n")])),
    ]

    def body(chk: Check) -> None:
        core(chk, SELFTEST_FAMILIES, False, 800, 3, cache=_FILES_CACHE)

    return run_probes(PID, probes, body)
