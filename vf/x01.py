"""X01 (extension) - tag formatters: which template tags call a component, and what the component receives.

Specification: specs/TagFormatter.tla (formatters, tag validation, parse() on raw token lists, the
prescribed tags, the end-to-end semantics of a private registry + Library, named deviations), bounded
instance specs/MC_X01.tla, trace specification specs/Trace_X01.tla.

Contract, from the documentation only (the sentences are quoted at the top of TagFormatter.tla):
 * docs/concepts/advanced/tag_formatter.md: "ComponentFormatter ... Uses the `component` and `endcomponent`
   tags, and the component name is gives as the first positional argument." / "ShorthandComponentFormatter
   ... Uses the component name as start tag, and `end<component_name>` as an end tag." / both have an
   "inlined" form ending in " / ".
 * TagFormatterABC.parse docstring: "`component` is the tag name, which we drop. `"my_comp"` is the
   component name, but we must remove the extra quotes. The remaining tokens we pass unmodified, as that's
   the input to the component."
 * {% component %} docstring: "The component name must be a single- or double-quotes string and must be
   either: The first positional argument after `component` ... Passed as kwarg `name`:
   {% component rows=rows headers=headers name="my_table" ... / %}"
 * InternalTagFormatter: "we validate the outputs" / "they contain only valid characters (\\w - : . @ #) and
   NO SPACE" / ValueError "Tag must contain only following chars: ..." , "Tag cannot be empty" / CHANGELOG
   "Allow using forward slash (`/`) when defining custom TagFormatter, e.g. {% MyComp %}..{% /MyComp %}".
 * ComponentRegistry: registering adds the component's template tag to the Library, unregistering removes
   it; registry.get raises NotRegistered.

spec -> code: TLC (MC_X01) builds by BFS every case of three families and exports each with the admitted
    outcome(s): "tags" - every name up to a bound over an alphabet of letters, digits, every listed
    punctuation character, blank, newline, quotes, "=", "|" under seven formatters (InternalTagFormatter
    start_tag / end_tag and registry.register on a scratch registry, Library.tags observed); "parse" -
    every token list <tag> pre.. <name token> post.. with the name written as "n" / 'n' / n / name="n" /
    name='n' / name=n / "n' / absent, context tokens k=1, only, "p q", b="x=y", name="zz", name=, / ;
    "e2e" - a private registry + Library per formatter holding exactly the case's components, a template
    {% load lib %}{% word tokens %}[X{% endword %}] in every prescribed form (block, self-closing, other quote,
    name= first / last) and unprescribed ones (bare name, the other formatter's tag, wrong end tag, unclosed,
    unregistered) with seven argument lists; observed: exception class, or which component rendered, its
    *args / **kwargs (typed) and whether the body filled the default slot.
code -> spec: a seeded random driver (long names, Unicode letters and symbols, up to 8 arguments, random
    ComponentFormatter tags and affix formatters, mutated token lists) records the same four operations
    on the real library; TLC (Trace_X01) checks every record against the same operators (one
    ACCEPT/REJECT per record).

Zones (set of outcomes, never alarmed on): several candidates for the name (positional AND name=, name=
twice - error or any of them), a quoted positional after keywords as the only candidate, the empty name,
the moment an invalid END tag is reported (register or first use).  Not generated: names that contain both
kinds of quotes (no documented escape), backslashes and template delimiters in tags, "/" anywhere but as
the last word, names / tag words that are tags of Django or start with "end", two registries with the same
start tag (the library declares that an error), ComponentFormatter.parse on tokens[0] other than its tag
(the docs drop it unseen), Unicode combining marks (whether \\w covers them is not documented).
"""
from __future__ import annotations

import json
import random
import re
import unicodedata
from concurrent.futures import ThreadPoolExecutor
from typing import Any, Dict, List, Optional, Tuple

from . import tlc
from .core import Check, MachineryError, canon, workdir
from .pool import pmap

PID = "X01"
RULE = ("TLC (MC_X01) enumerates by BFS every case of the families tags / parse / e2e inside the bounds (one case per "
        "distinct state; states that are no case are exported as markers so that rows == distinct states is checked) "
        "and each is replayed on the real formatter classes, InternalTagFormatter, a scratch registry, and a real "
        "template over a private registry + Library; random records beyond the bound are validated by Trace_X01. "
        "Non-trivial = every case but the empty token list / empty name; distinct by hash of the case")
ASSUMPTIONS = [
    "a tag's words are what django.utils.text.smart_split yields on its content (checked for every generated tag)",
    "\\w of the validation message = ASCII letters, digits, underscore plus the characters unicodedata classifies "
    "as L* / N* (combining marks are not generated)",
    "the argument grammar used end to end is ints, quoted strings without template syntax, key=value, the flag "
    "`only` (the full grammar is C02's subject)",
    "an invalid end tag may be reported at register() or at the first use (not documented which)",
]

# family -> (NameChars, MaxName, Budget, FullLen)
TAG_CHARS = ["a", "B", "1", "_", "-", ":", "@", ".", "#", "/", " ", "\n", "\t", "\"", "'", "=", "|", ","]
PARSE_CHARS = ["a", "B", " ", "\"", "'", "=", "/", "-"]
E2E_CHARS = ["a", "B", "1", "-", ":", "@", ".", "#", "/", " ", "\n", "\"", "'", "=", "|"]
CONFIGS = {
    "quick": {"tags": (TAG_CHARS, 2, 0, 0), "parse": (PARSE_CHARS, 3, 3, 0), "e2e": (E2E_CHARS, 2, 0, 2)},
    "thorough": {"tags": (TAG_CHARS, 3, 0, 0), "parse": (PARSE_CHARS + [":", "1"], 4, 4, 0),
                 "e2e": (E2E_CHARS + ["_"], 3, 0, 3)},
    "selftest": {"tags": (["a", "1", "-", "/", " ", "\n", "\"", "="], 2, 0, 0),
                 "parse": (["a", "B", " ", "\"", "'", "="], 2, 3, 0),
                 "e2e": (["a", "B", "-", "/", " ", "'", "="], 1, 0, 2)},
}
COMP_TEMPLATE = "[{% slot \"content\" default %}D{% endslot %}]"
RESERVED_WORDS = {"xc", "X", "D"}
SEPARATORS = [" ", "  ", "\t", "\n", " \n  "]


def J(chars: List[str]) -> str:
    return "".join(chars)


def C(s: str) -> List[str]:
    return list(s)


# ------------------------------------------------------------------ environment
_ENV: Dict[str, Any] = {}


def env() -> Dict[str, Any]:
    if _ENV:
        return _ENV
    from . import boot
    boot.setup()
    from django.template import TemplateSyntaxError, engines
    from django.template.base import Parser
    from django_components import Component, TagFormatterABC, TagResult

    class AffixFormatter(TagFormatterABC):
        """A user-written formatter after the documented example implementation: start tag
        <sp><name><ss>, end tag <ep><name><es>; parse() takes the name out of the tag word."""

        def __init__(self, sp: str, ss: str, ep: str, es: str):
            self.sp, self.ss, self.ep, self.es = sp, ss, ep, es

        def start_tag(self, name: str) -> str:
            return f"{self.sp}{name}{self.ss}"

        def end_tag(self, name: str) -> str:
            return f"{self.ep}{name}{self.es}"

        def parse(self, tokens: List[str]) -> TagResult:
            tokens = [*tokens]
            word = tokens.pop(0)
            if len(word) < len(self.sp) + len(self.ss) or not word.startswith(self.sp) or not word.endswith(self.ss):
                raise TemplateSyntaxError(f"AffixFormatter: foreign tag word {word!r}")
            return TagResult(word[len(self.sp):len(word) - len(self.ss)], tokens)

    class Scratch(Component):
        template = "s"

    eng = engines["django"].engine
    _ENV.update(engine=eng, stock_tags=set(Parser([], builtins=eng.template_builtins).tags), Affix=AffixFormatter,
                Scratch=Scratch, Component=Component, fmts={}, regs={}, rec=[], nclasses=0)
    return _ENV


def fmt_obj(fmt: Dict[str, Any]):
    """The real formatter object for a formatter record of the specification."""
    e = env()
    key = canon(fmt)
    if key not in e["fmts"]:
        from django_components import ComponentFormatter, ShorthandComponentFormatter
        if fmt["kind"] == "comp":
            e["fmts"][key] = ComponentFormatter(J(fmt["tag"]))
        elif fmt["kind"] == "short":
            e["fmts"][key] = ShorthandComponentFormatter()
        elif fmt["kind"] == "affix":
            e["fmts"][key] = e["Affix"](J(fmt["sp"]), J(fmt["ss"]), J(fmt["ep"]), J(fmt["es"]))
        else:
            raise MachineryError(f"unknown formatter {fmt}")
    return e["fmts"][key]


def fmt_setting(fmt: Dict[str, Any]):
    """How the formatter reaches RegistrySettings: the documented import strings where they exist,
    the object otherwise (harness detail, both are documented as equivalent)."""
    if fmt["kind"] == "short":
        return "django_components.component_shorthand_formatter"
    if fmt["kind"] == "comp" and J(fmt["tag"]) == "component":
        return "django_components.component_formatter"
    return fmt_obj(fmt)


def scratch_registry(fmt: Dict[str, Any]):
    from django.template.library import Library
    from django_components import ComponentRegistry, RegistrySettings
    lib = Library()
    return ComponentRegistry(library=lib, settings=RegistrySettings(tag_formatter=fmt_setting(fmt))), lib


def drop_registry(reg) -> None:
    from django_components.component_registry import all_registries
    try:
        all_registries.remove(reg)
    except ValueError:
        pass


def exc_name(ex: BaseException) -> str:
    return type(ex).__name__


# ------------------------------------------------------------------ observations
def obs_parse(fmt: Dict[str, Any], toks: List[List[str]]) -> Dict[str, Any]:
    """TagFormatter.parse through the wrapper the library itself uses (get_tag_formatter(registry))."""
    from django_components.tag_formatter import get_tag_formatter
    reg, _ = scratch_registry(fmt)
    try:
        f = get_tag_formatter(reg)
        try:
            r = f.parse([J(t) for t in toks])
        except Exception as ex:
            return {"k": "exc", "cls": exc_name(ex), "name": [], "rest": [], "msg": str(ex)[:120]}
        try:
            name, rest = r
            good = isinstance(name, str) and isinstance(rest, list) and all(isinstance(x, str) for x in rest)
        except Exception:
            good = False
        if not good:
            return {"k": "exc", "cls": "malformed-result", "name": [], "rest": [], "msg": repr(r)[:120]}
        return {"k": "ok", "cls": "", "name": C(name), "rest": [C(x) for x in rest]}
    finally:
        drop_registry(reg)


def _tag_call(fn, name: str) -> Dict[str, Any]:
    try:
        t = fn(name)
    except Exception as ex:
        return {"k": "exc", "cls": exc_name(ex), "v": []}
    if not isinstance(t, str):
        return {"k": "exc", "cls": "malformed-result", "v": []}
    return {"k": "ok", "cls": "", "v": C(t)}


def obs_tags(fmt: Dict[str, Any], name: List[str]) -> Tuple[Dict[str, Any], Dict[str, Any]]:
    from django_components.tag_formatter import get_tag_formatter
    reg, _ = scratch_registry(fmt)
    try:
        f = get_tag_formatter(reg)
        return _tag_call(f.start_tag, J(name)), _tag_call(f.end_tag, J(name))
    finally:
        drop_registry(reg)


def obs_register(fmt: Dict[str, Any], name: List[str], start: Optional[List[str]]) -> str:
    """register() on a scratch registry: "ok" (and then exactly the start tag is in the Library, and
    unregister() removes it again) or the exception class."""
    e = env()
    reg, lib = scratch_registry(fmt)
    try:
        try:
            reg.register(J(name), e["Scratch"])
        except Exception as ex:
            if lib.tags:
                return f"{exc_name(ex)}+library-tags={sorted(lib.tags)}"
            return exc_name(ex)
        if start is not None and set(lib.tags) != {J(start)}:
            return f"ok-but-library-tags={sorted(lib.tags)}"
        if set(reg.all()) != {J(name)}:
            return f"ok-but-registry={sorted(reg.all())}"
        try:
            reg.unregister(J(name))
        except Exception as ex:
            return f"ok-but-unregister-raised-{exc_name(ex)}"
        if lib.tags:
            return f"ok-but-tag-left-after-unregister={sorted(lib.tags)}"
        return "ok"
    finally:
        drop_registry(reg)


def typed(v: Any) -> Dict[str, Any]:
    if isinstance(v, bool):
        return {"t": "bool", "s": C(repr(v))}
    if isinstance(v, int):
        return {"t": "int", "s": C(str(v))}
    if isinstance(v, str):
        return {"t": "str", "s": C(str(v))}
    return {"t": "other:" + type(v).__name__, "s": C(repr(v))}


def registry_for(fmt: Dict[str, Any]) -> Dict[str, Any]:
    """The long-lived private registry + Library of a formatter (one per formatter and process)."""
    e = env()
    key = canon(fmt)
    if key not in e["regs"]:
        reg, lib = scratch_registry(fmt)
        libname = f"x01lib{len(e['regs'])}"
        e["engine"].template_libraries[libname] = lib
        e["regs"][key] = {"reg": reg, "lib": lib, "libname": libname, "classes": {}}
    return e["regs"][key]


def comp_class(R: Dict[str, Any], name: str):
    e = env()
    if name not in R["classes"]:
        e["nclasses"] += 1
        rec = e["rec"]

        def get_context_data(self, *args, **kwargs):
            rec.append((name, args, kwargs))
            return {}
        R["classes"][name] = type(f"X01Comp{e['nclasses']}", (e["Component"],),
                                  {"template": COMP_TEMPLATE, "get_context_data": get_context_data,
                                   "__module__": __name__})
    return R["classes"][name]


def template_source(R: Dict[str, Any], use: Dict[str, Any]) -> str:
    from django.utils.text import smart_split
    e = env()
    word = J(use["word"])
    toks = [J(t) for t in use["toks"]]
    # the white space between the words of the tag is a layout choice (blank, blanks, tab, newline),
    # fixed per case so that replays are reproducible
    sep = SEPARATORS[sum(len(t) for t in toks) % len(SEPARATORS)]
    head = sep.join([word] + toks)
    if list(smart_split(head)) != [word] + toks:
        raise MachineryError(f"generator precondition: {head!r} does not split into {[word] + toks}")
    endw = J(use["endw"])
    if word in e["stock_tags"] or (endw and endw.split()[0] in e["stock_tags"]) or re.search(r"[{}%\\]", head + endw):
        raise MachineryError(f"generator precondition: tag word / end word {word!r} {endw!r} collides with template syntax")
    src = "{% load " + R["libname"] + " %}{% " + head + " %}"
    if use["close"] == "block":
        src += "X{% " + endw + " %}"
    return src


def _exc_obs(ex: BaseException, stage: str) -> Dict[str, Any]:
    return {"k": "exc", "cls": exc_name(ex), "comp": [], "args": [], "kwargs": [], "body": "", "stage": stage,
            "msg": str(ex)[:160]}


def obs_e2e(fmt: Dict[str, Any], reg_names: List[List[str]], use: Dict[str, Any]) -> Dict[str, Any]:
    from django.template import Context, Template
    e = env()
    R = registry_for(fmt)
    reg = R["reg"]
    want = [J(n) for n in reg_names]
    for n in set(reg.all()) - set(want):
        reg.unregister(n)
    for n in want:
        if n not in reg.all():
            try:
                reg.register(n, comp_class(R, n))
            except Exception as ex:
                return _exc_obs(ex, "register")
    src = template_source(R, use)
    rec = e["rec"]
    del rec[:]
    try:
        t = Template(src)
    except Exception as ex:
        return _exc_obs(ex, "compile")
    try:
        out = t.render(Context({}))
    except Exception as ex:
        return _exc_obs(ex, "render")
    out = re.sub(r"<!-- _RENDERED [^>]*-->", "", out)
    body = {"[X]": "body", "[D]": "default"}.get(out, "other:" + out[:40])
    if len(rec) != 1:
        return {"k": "malformed", "cls": f"{len(rec)}-components-rendered", "comp": [], "args": [], "kwargs": [],
                "body": body}
    name, args, kwargs = rec[0]
    return {"k": "rendered", "cls": "", "comp": C(name), "args": [typed(a) for a in args],
            "kwargs": [{"key": C(k), "v": typed(v)} for k, v in kwargs.items()], "body": body}


def e2e_match(exp: Dict[str, Any], obs: Dict[str, Any]) -> bool:
    if any(exp[k] != obs[k] for k in ("k", "cls", "comp", "args", "body")):
        return False
    return len(exp["kwargs"]) == len(obs["kwargs"]) and \
        sorted(canon(x) for x in exp["kwargs"]) == sorted(canon(x) for x in obs["kwargs"])


def parse_match(exp: Dict[str, Any], obs: Dict[str, Any]) -> bool:
    if exp["k"] == "tse":
        return obs["k"] == "exc" and obs["cls"] == "TemplateSyntaxError"
    return obs["k"] == "ok" and obs["name"] == exp["name"] and obs["rest"] == exp["rest"]


def tag_match(exp: Dict[str, Any], obs: Dict[str, Any]) -> bool:
    return all(exp[k] == obs[k] for k in ("k", "cls", "v"))


# ------------------------------------------------------------------ spec -> code
def replay_row(row: Dict[str, Any]) -> Optional[Dict[str, Any]]:
    """Replay one exported case on the real library; None if it conforms, else
    {"detail": ..., "key": finding key or None}."""
    fam = row["fam"]
    if fam == "parse":
        obs = obs_parse(row["fmt"], row["toks"])
        if any(parse_match(x, obs) for x in row["expect"]):
            return None
        dev = row["dev"]
        key = dev["name"] if dev["name"] != "none" and parse_match(dev["out"], obs) else None
        return {"detail": {"expected_one_of": row["expect"], "observed": obs,
                           "tokens": [J(t) for t in row["toks"]]}, "key": key}
    if fam == "tags":
        s, en = obs_tags(row["fmt"], row["name"])
        r = obs_register(row["fmt"], row["name"], row["start"]["v"] if row["start"]["k"] == "ok" else None)
        bad, keys = {}, set()
        for what, exp, obs, dev in (("start_tag", row["start"], s, row["devs"]), ("end_tag", row["end"], en, row["deve"])):
            if not tag_match(exp, obs):
                bad[what] = {"expected": exp, "observed": obs}
                keys.add(dev["name"] if dev["name"] != "none" and tag_match(dev["out"], obs) else None)
        if r not in row["register"]:
            bad["register"] = {"expected_one_of": row["register"], "observed": r}
            # an invalid start tag that the validation lets through is also registered
            keys.add(row["devs"]["name"] if row["devs"]["name"] != "none" and r.startswith("ok") else None)
        if not bad:
            return None
        key = next(iter(keys)) if len(keys) == 1 else None
        return {"detail": dict(bad, name=J(row["name"])), "key": key}
    if fam == "e2e":
        obs = obs_e2e(row["fmt"], row["reg"], row["use"])
        if any(e2e_match(x, obs) for x in row["expect"]):
            return None
        dev = row["dev"]
        key = dev["name"] if dev["name"] != "none" and e2e_match(dev["out"], obs) else None
        try:
            src = template_source(registry_for(row["fmt"]), row["use"])
        except MachineryError:
            src = None
        return {"detail": {"expected_one_of": row["expect"], "observed": obs, "template": src,
                           "registered": [J(n) for n in row["reg"]]}, "key": key}
    raise MachineryError(f"unknown family {fam}")


def _tla_str(c: str) -> str:
    """cfg files keep backslashes literally: special characters go by name (MC_X01!Ch)."""
    return '"' + {"\"": "DQ", "'": "SQ", "\n": "NL", "\t": "TAB", " ": "SP"}.get(c, c) + '"'


_ROWS: Dict[str, Any] = {}


def model_rows(conf: Dict[str, Any]) -> Dict[str, Any]:
    """Run TLC on the three families (in parallel JVMs) and read the exported cases.  The export does
    not depend on the code under test, so the selftest reuses it across probes."""
    key = canon(conf)
    if key in _ROWS:
        return _ROWS[key]
    w = workdir("x01mc")

    def one(fam: str):
        chars, maxname, budget, full = conf[fam]
        cfg = w / f"{fam}.cfg"
        out = w / f"{fam}.ndjson"
        cfg.write_text("SPECIFICATION Spec\nCONSTANTS\n"
                       f"  Family = \"{fam}\"\n  NameChars = {{{', '.join(_tla_str(c) for c in chars)}}}\n"
                       f"  MaxName = {maxname}\n  Budget = {budget}\n  FullLen = {full}\n"
                       "INVARIANT Laws\nINVARIANT Export\n")
        r = tlc.require_ok(tlc.run("MC_X01", str(cfg), env={"OUT": str(out)}, workers=1), f"MC_X01 {fam}")
        rows = tlc.read_ndjson(out)
        if len(rows) != r.distinct:
            raise MachineryError(f"MC_X01 {fam}: {len(rows)} exported lines for {r.distinct} distinct states")
        return fam, r, [x for x in rows if x["fam"] != "skip"]

    with ThreadPoolExecutor(max_workers=3) as ex:
        res = list(ex.map(one, ["tags", "parse", "e2e"]))
    _ROWS[key] = {"states": sum(r.distinct for _, r, _ in res), "transitions": sum(r.generated for _, r, _ in res),
                  "rows": {fam: rows for fam, _, rows in res}}
    return _ROWS[key]


def replay_model(chk: Check, conf: Dict[str, Any], workers: int) -> None:
    env()
    m = model_rows(conf)
    chk.add("states", m["states"])
    chk.add("transitions", m["transitions"])
    for fam in ("tags", "parse", "e2e"):
        rows = m["rows"][fam]
        if not rows:
            raise MachineryError(f"MC_X01 {fam}: no cases")
        results = pmap(replay_row, rows, workers=workers, per_item_s=20.0, chunk=250)
        for row, bad in zip(rows, results):
            trivial = (fam == "parse" and len(row["toks"]) <= 1) or (fam == "tags" and not row["name"])
            chk.count(row, nontrivial=not trivial)
            if isinstance(bad, dict) and (bad.get("hang") or "err" in bad):
                chk.violation({"kind": "model-case", "row": row}, {"harness": bad})
            elif bad:
                chk.violation({"kind": "model-case", "row": row}, bad["detail"], key=bad["key"])
        chk.add(f"{fam}_cases_replayed", len(rows))
        chk.sample({f"{fam}_case": _brief(rows[len(rows) // 2])}, limit=12)
        chk.sample({f"{fam}_case": _brief(rows[-1])}, limit=12)


def _brief(row: Dict[str, Any]) -> Dict[str, Any]:
    def j(x):
        if isinstance(x, list) and x and all(isinstance(c, str) and len(c) == 1 for c in x):
            return J(x)
        if isinstance(x, list):
            return [j(y) for y in x]
        if isinstance(x, dict):
            return {k: j(v) for k, v in x.items() if k not in ("dev", "devs", "deve")}
        return x
    return j(row)


# ------------------------------------------------------------------ code -> spec
LETTERS = "abcdefghijklmnopqrstuvwxyzABCDEFGHIJKLMNOPQRSTUVWXYZ"
UNI_WORD = "éßжñΩ名ü٣"          # L* / Nd: word characters
UNI_OTHER = "€–\u00a0→“°"        # Sc Pd Zs Sm Pi So: not word characters
PUNCT = "-:@.#/"
SPECIAL_WORDS = ["...", "..", ".", "....", "...a", "a...", "-", "--", "/", "//", "@", "#", "_", "__", "-1", "1.5", "0",
                 "a:b", ":a", "a:", "::", "True", "None", "only", "name", "a/b", "/a", "a/", "@click.native", "#id"]
DJANGO_WORDS = None


def _w_of(*texts: str) -> List[str]:
    return sorted({c for t in texts for c in t if ord(c) > 127 and unicodedata.category(c)[0] in "LN"})


def rnd_name(rnd: random.Random, valid: Optional[bool] = None, maxlen: int = 12) -> str:
    """A random name; valid=True: only tag characters, valid=False: at least one other character."""
    if valid and rnd.random() < 0.08:
        return rnd.choice(SPECIAL_WORDS)          # valid tag words that look like argument syntax
    n = rnd.randint(1, maxlen)
    good = LETTERS + "0123456789_" + UNI_WORD + PUNCT
    badc = " \n\t\"'=|,+*()<>!?&;~^$" + UNI_OTHER
    if valid is None:
        valid = rnd.random() < 0.6
    s = [rnd.choice(good if rnd.random() < 0.85 else PUNCT) for _ in range(n)]
    if not valid:
        for _ in range(rnd.randint(1, 2)):
            s[rnd.randrange(len(s))] = rnd.choice(badc)
        if rnd.random() < 0.15:
            s = s[:-1] + ["\n"] if len(s) > 1 else s      # trailing newline after valid characters
    return "".join(s)


def rnd_text_name(rnd: random.Random, maxlen: int = 14) -> str:
    """A component name for ComponentFormatter: any text writable as one string literal."""
    n = rnd.randint(1, maxlen)
    pool = LETTERS + "0123456789_ -:@.#/=|,+*()<>!?&;~^$\n\t" + UNI_WORD + UNI_OTHER
    q = rnd.choice(["", "\"", "'"])
    return "".join(rnd.choice(pool + q * 3) for _ in range(n))


def rnd_value(rnd: random.Random) -> str:
    if rnd.random() < 0.4:
        return str(rnd.choice([0, 1, 7, 42, 100, 2024, 99999]))
    q = rnd.choice("\"'")
    other = "'" if q == "\"" else "\""
    pool = LETTERS + "0123456789_ =/-:.@#," + other
    return q + "".join(rnd.choice(pool) for _ in range(rnd.randint(0, 8))) + q


def rnd_args(rnd: random.Random, nmax: int = 8, allow_name_kw: bool = True) -> List[str]:
    """Positional values, then distinct keywords, then maybe the flag (inside TagFormatter!ArgsOK)."""
    n = rnd.randint(0, nmax)
    npos = rnd.randint(0, n)
    out = [rnd_value(rnd) for _ in range(npos)]
    keys = ["k", "key2", "data-x", "@click.native", "a_b", "h#i", "x.y", "Z9", "name" if allow_name_kw else "nm", "class"]
    rnd.shuffle(keys)
    for k in keys[:n - npos]:
        out.append(f"{k}={rnd_value(rnd)}")
    if rnd.random() < 0.3:
        out.append("only")
    return out


COMP_TAGS = ["xc", "my-comp", "c2", "Üñï", "x/y", "a.b@c#d", "c:2"]
E2E_AFFIXES = [("k.", "", "/k.", ""), ("w-", "-w", "/w-", "-w"), ("e.", "", "end e.", "")]


def rnd_fmt(rnd: random.Random, mode: str) -> Dict[str, Any]:
    """mode "tags": any tag / affix (also invalid ones); "parse": tag words that are words;
    "e2e": the formatters that have a long-lived registry (disjoint start tags)."""
    x = rnd.random()
    if x < 0.4:
        # "component": django_components.component_formatter by its import string (not end to end: the
        # process-wide start-tag table would tie the word `component` to this harness's registry)
        tag = rnd_name(rnd, maxlen=8) if mode == "tags" and rnd.random() < 0.5 else \
            rnd.choice(COMP_TAGS + ([] if mode == "e2e" else ["component"]))
        return {"kind": "comp", "tag": C(tag), "sp": [], "ss": [], "ep": [], "es": []}
    if x < 0.75:
        return {"kind": "short", "tag": [], "sp": [], "ss": [], "ep": [], "es": []}
    pool = list(E2E_AFFIXES)
    if mode != "e2e":
        pool += [("", "", "/", ""), ("<", ">", "</", ">"), ("é", "", "fin-é", "")]
    if mode == "tags":
        pool += [("", " comp", "end", ""), ("", "", "end ", ""), ("€", "", "end€", "")]
    sp, ss, ep, es = rnd.choice(pool)
    return {"kind": "affix", "tag": [], "sp": C(sp), "ss": C(ss), "ep": C(ep), "es": C(es)}


def start_of(fmt: Dict[str, Any], name: str) -> str:
    """Only used to lay out generated inputs (the expected value is TLC's)."""
    if fmt["kind"] == "comp":
        return J(fmt["tag"])
    if fmt["kind"] == "short":
        return name
    return J(fmt["sp"]) + name + J(fmt["ss"])


def end_of(fmt: Dict[str, Any], name: str) -> str:
    if fmt["kind"] == "comp":
        return "end" + J(fmt["tag"])
    if fmt["kind"] == "short":
        return "end" + name
    return J(fmt["ep"]) + name + J(fmt["es"])


def quote(name: str, rnd: random.Random) -> Optional[str]:
    qs = [q for q in "\"'" if q not in name]
    return None if not qs else (lambda q: q + name + q)(rnd.choice(qs))


def gen_parse(rnd: random.Random, i: int) -> Dict[str, Any]:
    fmt = rnd_fmt(rnd, "parse")
    if fmt["kind"] != "comp":
        name = rnd_name(rnd, valid=True)
        toks = [start_of(fmt, name)] + rnd_args(rnd)
        if rnd.random() < 0.3:
            toks.append("/")
        if fmt["kind"] == "affix" and rnd.random() < 0.15:
            toks[0] = rnd_name(rnd, valid=True)          # a foreign word
    else:
        name = rnd_text_name(rnd)
        lit = quote(name, rnd)
        args = rnd_args(rnd)
        shape = rnd.random()
        if lit is None or shape < 0.08:
            word = re.sub(r"[\s\"']", "", name) or "n"
            toks = [word] + args                                        # bare name
        elif shape < 0.5:
            toks = [lit] + args                                         # positional name
        elif shape < 0.8:
            kws = [a for a in args if "=" in a and a[0] not in "\"'" and not a.startswith("name=")]
            rest = [a for a in args if a not in kws and not a.startswith("name=")]
            k = rnd.randint(0, len(kws))
            toks = kws[:k] + ["name=" + lit] + kws[k:] + (rest if rnd.random() < 0.5 else [a for a in rest if a == "only"])
        elif shape < 0.9:
            toks = args                                                 # no name at all
        else:
            toks = [lit] + args
            rnd.shuffle(toks)                                           # anything anywhere
        if rnd.random() < 0.1 and toks:
            j = rnd.randrange(len(toks))
            toks[j] = rnd.choice(["name=", "name=x", "name=" + (lit or "''"), "\"\"", "''", "=", "a=", "=b"])
        if rnd.random() < 0.3:
            toks.append("/")
        toks = [J(fmt["tag"])] + toks
    return {"id": i, "op": "parse", "fmt": fmt, "toks": [C(t) for t in toks], "w": _w_of(*toks, J(fmt["tag"]))}


def gen_tags(rnd: random.Random, i: int, op: str) -> Dict[str, Any]:
    fmt = rnd_fmt(rnd, "tags")
    name = rnd_name(rnd) if fmt["kind"] != "comp" or rnd.random() < 0.5 else rnd_text_name(rnd)
    if rnd.random() < 0.03:
        name = ""
    return {"id": i, "op": op, "fmt": fmt, "name": C(name),
            "w": _w_of(name, J(fmt["tag"]), J(fmt["sp"]), J(fmt["ss"]), J(fmt["ep"]), J(fmt["es"]))}


def _usable_word(w: str) -> bool:
    e = env()
    return bool(w) and w not in e["stock_tags"] and w not in RESERVED_WORDS and not w.startswith("end") \
        and w not in COMP_TAGS and not w.startswith(("k.", "w-", "e.")) and "\n" not in w


def gen_e2e(rnd: random.Random, i: int) -> Optional[Dict[str, Any]]:
    fmt = rnd_fmt(rnd, "e2e")
    comp = fmt["kind"] == "comp"
    names: List[str] = []
    for _ in range(rnd.randint(1, 3)):
        n = rnd_text_name(rnd, 10) if comp else rnd_name(rnd, valid=True, maxlen=10)
        if comp and (quote(n, rnd) is None or re.search(r"[{}%\\]", n)):
            continue
        if not comp and not _usable_word(n):
            continue
        names.append(n)
    if not names:
        return None
    name = names[0]
    reg = list(dict.fromkeys(names))
    args = rnd_args(rnd, allow_name_kw=not comp)
    shape = rnd.random()
    word = start_of(fmt, name)
    lit = quote(name, rnd) if comp else None
    toks = ([lit] if comp else []) + args
    close, endw = rnd.choice(["self", "block"]), ""
    if shape < 0.55:
        pass                                                            # prescribed
    elif shape < 0.65 and comp:
        kws = [a for a in args if "=" in a and a[0] not in "\"'"]
        if len(kws) == len([a for a in args if a != "only"]):           # keyword-only arguments
            k = rnd.randint(0, len(kws))
            toks = kws[:k] + ["name=" + lit] + kws[k:] + [a for a in args if a == "only"]
    elif shape < 0.72:
        close = "open"
    elif shape < 0.80:
        close, endw = "block", rnd.choice(["end" + name if comp else "/" + word, "end", "endxc" if not comp else "endzz"])
        if not re.fullmatch(r"[\w\-:@.#/]+", endw) or endw == end_of(fmt, name):
            return None
    elif shape < 0.88:
        reg = reg[1:]                                                   # the used component is not registered
        if not reg:
            reg = []
    elif shape < 0.94:
        other = "zz" if comp else "xc"                                  # a tag of the other formatter
        word = name if comp else other
        toks = args if comp else ["\"" + "n" + "\""] + args
        if comp and (not re.fullmatch(r"[\w\-:@.#/]+", name) or not _usable_word(name)):
            return None
    else:
        if comp:
            toks = [re.sub(r"\W", "", name) or "n"] + args                   # unquoted name
    if close == "block" and not endw:
        endw = end_of(fmt, name)
    if close == "self":
        toks = toks + ["/"]
    use = {"word": C(word), "toks": [C(t) for t in toks], "close": close, "endw": C(endw)}
    return {"id": i, "op": "e2e", "fmt": fmt, "reg": [C(n) for n in reg], "use": use,
            "w": _w_of(word, endw, *reg, *toks, J(fmt["tag"]))}


def run_record(r: Dict[str, Any]) -> Dict[str, Any]:
    op = r["op"]
    if op == "parse":
        r["obs"] = obs_parse(r["fmt"], r["toks"])
    elif op == "tags":
        r["obs_start"], r["obs_end"] = obs_tags(r["fmt"], r["name"])
    elif op == "register":
        o = obs_register(r["fmt"], r["name"], None)
        r["obs"] = o
    else:
        r["obs"] = obs_e2e(r["fmt"], r["reg"], r["use"])
    return r


def validate_traces(chk: Check, n_parse: int, n_tags: int, n_reg: int, n_e2e: int) -> None:
    env()
    rnd = random.Random(chk.seed * 9176 + 1)
    recs: List[Dict[str, Any]] = []
    for _ in range(n_parse):
        recs.append(gen_parse(rnd, len(recs) + 1))
    for _ in range(n_tags):
        recs.append(gen_tags(rnd, len(recs) + 1, "tags"))
    for _ in range(n_reg):
        recs.append(gen_tags(rnd, len(recs) + 1, "register"))
    # every syntax-looking tag word once through the shorthand formatter, block and self-closing
    short = {"kind": "short", "tag": [], "sp": [], "ss": [], "ep": [], "es": []}
    for word in SPECIAL_WORDS:
        if not _usable_word(word):
            continue
        for close in ("self", "block"):
            toks = ["7", "k=\"v w\""] + (["/"] if close == "self" else [])
            recs.append({"id": len(recs) + 1, "op": "e2e", "fmt": short, "reg": [C(word)],
                         "use": {"word": C(word), "toks": [C(t) for t in toks], "close": close,
                                 "endw": C("end" + word) if close == "block" else []}, "w": []})
    made = 0
    while made < n_e2e:
        r = gen_e2e(rnd, len(recs) + 1)
        if r is not None:
            try:
                template_source(registry_for(r["fmt"]), r["use"])
            except MachineryError:
                continue
            recs.append(r)
            made += 1
    for r in recs:              # in-process and in order: the registries carry state from record to record
        run_record(r)
    w = workdir("x01tr")
    f = w / "records.ndjson"
    tlc.write_ndjson(f, recs)
    cfg = w / "trace.cfg"
    cfg.write_text("SPECIFICATION TrSpec\n")
    r = tlc.run("Trace_X01", str(cfg), env={"IN": str(f)}, workers=1)
    if not r.ok:
        tlc.require_ok(r, "Trace_X01")
    acc, rej, devs = set(), {}, {}
    for line in r.out.splitlines():
        m = re.match(r'<<"ACCEPT", (\d+)>>', line)
        if m:
            acc.add(int(m.group(1)))
        m = re.match(r'<<"REJECT", (\d+), 1, (\{.*\})>>', line)
        if m:
            rej[int(m.group(1))] = m.group(2)
        m = re.match(r'<<"DEV", (\d+), "([^"]*)">>', line)
        if m:
            devs[int(m.group(1))] = m.group(2)
    if set(rej) != set(devs):
        raise MachineryError(f"Trace_X01: REJECT / DEV lines do not pair up: {sorted(set(rej) ^ set(devs))[:10]}")
    rej = {i: (c, devs[i]) for i, c in rej.items()}
    if len(acc) + len(rej) != len(recs):
        raise MachineryError(f"Trace_X01: {len(acc)}+{len(rej)} verdicts for {len(recs)} records\n"
                             + "\n".join(r.out.splitlines()[-30:]))
    for rid, (clauses, dev) in sorted(rej.items()):
        rec_ = recs[rid - 1]
        if "precondition" in clauses:
            raise MachineryError(f"Trace_X01: generated record outside the preconditions: {_brief(rec_)}")
        chk.violation({"kind": "trace-record", "record": rec_}, {"failing": clauses, "readable": _brief(rec_)},
                      key=None if dev == "none" else dev)
    for rec_ in recs:
        chk.count({k: v for k, v in rec_.items() if k != "id"})
    for op in ("parse", "tags", "register", "e2e"):
        xs = [x for x in recs if x["op"] == op]
        if xs:
            chk.sample({"trace_" + op: _brief(xs[len(xs) // 2])}, limit=12)
    outcomes: Dict[str, int] = {}
    for x in recs:
        if x["op"] == "e2e":
            k = x["obs"]["k"] + (":" + x["obs"]["cls"] if x["obs"]["cls"] else "")
            outcomes[k] = outcomes.get(k, 0) + 1
    chk.cov["trace_e2e_outcomes"] = outcomes
    chk.add("trace_states", r.distinct)
    chk.add("traces_validated_against_impl", len(recs))


# ------------------------------------------------------------------ entry points
def run(tier: str) -> int:
    chk = Check(PID, tier, "model_checking")
    quick = tier == "quick"
    replay_model(chk, CONFIGS[tier], workers=6)
    if quick:
        validate_traces(chk, 2500, 1500, 400, 1200)
    else:
        validate_traces(chk, 20000, 10000, 2500, 8000)
    chk.cov["exhaustive"] = True
    chk.cov["rule"] = RULE
    chk.cov["bounds"] = {fam: {"chars": v[0], "max_name": v[1], "budget": v[2], "full_len": v[3]}
                         for fam, v in CONFIGS[tier].items()}
    chk.assumptions += ASSUMPTIONS
    return chk.finish()


def selftest(tier: str) -> int:
    """In-process mutation probes (never touch /repo)."""
    from contextlib import ExitStack, contextmanager
    from .core import run_probes
    env()
    import django_components.component_registry as creg
    import django_components.tag_formatter as tfm
    from django.template import TemplateSyntaxError
    from django_components.tag_formatter import TagResult

    @contextmanager
    def patch(obj, name, new):
        old = getattr(obj, name)
        setattr(obj, name, new)
        try:
            yield
        finally:
            setattr(obj, name, old)

    orig_cparse = tfm.ComponentFormatter.parse
    orig_sparse = tfm.ShorthandComponentFormatter.parse

    def keeps_name_kwarg():
        # the name= keyword is found but not removed from the tokens passed on
        def parse(self, tokens):
            r = orig_cparse(self, tokens)
            args = list(tokens[1:])
            if args and "=" in args[0]:
                return TagResult(r.component_name, args)
            return r
        return patch(tfm.ComponentFormatter, "parse", parse)

    def strips_all_quotes():
        # .strip("\"'") instead of removing exactly the delimiters
        def parse(self, tokens):
            r = orig_cparse(self, tokens)
            return TagResult(r.component_name.strip("\"'"), r.tokens)
        return patch(tfm.ComponentFormatter, "parse", parse)

    def accepts_unquoted_name():
        def parse(self, tokens):
            try:
                return orig_cparse(self, tokens)
            except TemplateSyntaxError:
                args = list(tokens[1:])
                if args and "=" not in args[0] and args[0][0] not in "\"'" and args[0] != "/":
                    return TagResult(args[0], args[1:])
                raise
        return patch(tfm.ComponentFormatter, "parse", parse)

    def name_kwarg_only_first():
        # looks for name= only in the first token
        def parse(self, tokens):
            args = list(tokens[1:])
            if args and "=" in args[0] and not args[0].startswith("name="):
                raise TemplateSyntaxError("Component name must be a non-empty quoted string")
            return orig_cparse(self, tokens)
        return patch(tfm.ComponentFormatter, "parse", parse)

    def positional_name_drops_next():
        def parse(self, tokens):
            r = orig_cparse(self, tokens)
            args = list(tokens[1:])
            if args and "=" not in args[0] and len(r.tokens) > 1:
                return TagResult(r.component_name, r.tokens[1:])
            return r
        return patch(tfm.ComponentFormatter, "parse", parse)

    def shorthand_end_tag_underscore():
        return patch(tfm.ShorthandComponentFormatter, "end_tag", lambda self, name: f"end_{name}")

    def shorthand_lowercases():
        def parse(self, tokens):
            r = orig_sparse(self, tokens)
            return TagResult(r.component_name.lower(), r.tokens)
        return patch(tfm.ShorthandComponentFormatter, "parse", parse)

    def shorthand_swallows_slash():
        def parse(self, tokens):
            r = orig_sparse(self, tokens)
            return TagResult(r.component_name, [t for t in r.tokens if t != "/"])
        return patch(tfm.ShorthandComponentFormatter, "parse", parse)

    def validation_forgets_slash():
        # regression of the CHANGELOG fix: "/" no longer allowed
        return patch(tfm, "TAG_RE", re.compile(r"^[\w\-\:\@\.\#]+$"))

    def validation_allows_blank():
        return patch(tfm, "TAG_RE", re.compile(r"^[\w\-\:\@\.\#/ ]+$"))

    def end_tag_not_validated():
        return patch(tfm.InternalTagFormatter, "end_tag", lambda self, name: self.tag_formatter.end_tag(name))

    def empty_tag_allowed():
        def v(self, tag, tag_type):
            if tag and not tfm.TAG_RE.match(tag):
                raise ValueError("invalid tag")
        return patch(tfm.InternalTagFormatter, "_validate_tag", v)

    def registry_ignores_its_formatter():
        # get_tag_formatter() reads the global setting instead of the registry's
        def gtf(registry):
            return tfm.InternalTagFormatter(tfm.component_formatter)

        @contextmanager
        def both():
            with ExitStack() as st:
                st.enter_context(patch(tfm, "get_tag_formatter", gtf))
                st.enter_context(patch(creg, "get_tag_formatter", gtf))
                yield
        return both()

    def ascii_only_word_chars():
        return patch(tfm, "TAG_RE", re.compile(r"^[A-Za-z0-9_\-\:\@\.\#/]+$"))

    def body(chk: Check) -> None:
        # The long-lived registries are kept (a start tag is bound to its registry for the life of the
        # process); a probe may leave components / tags behind, so empty them with the unpatched code.
        e = env()
        for R in e["regs"].values():
            for n in list(R["reg"].all()):
                try:
                    R["reg"].unregister(n)
                except Exception:
                    pass
            R["reg"]._registry.clear()
            R["reg"]._tags.clear()
            R["lib"].tags.clear()
        v0 = chk.violations
        parts = []
        m = model_rows(CONFIGS["selftest"])
        chk.add("states", m["states"])
        for fam in ("tags", "parse", "e2e"):
            for row in m["rows"][fam]:
                bad = replay_row(row)
                chk.count(row)
                if bad:
                    chk.violation({"kind": "model-case", "row": row}, bad["detail"], key=bad["key"])
            parts.append(f"{fam}={chk.violations - v0}")
            v0 = chk.violations
        validate_traces(chk, 500, 400, 120, 300)
        parts.append(f"trace={chk.violations - v0}")
        print("    killed by: " + " ".join(parts))

    return run_probes(PID, [
        ("component-formatter-keeps-name-kwarg", keeps_name_kwarg),
        ("component-formatter-strips-all-quotes", strips_all_quotes),
        ("component-formatter-accepts-unquoted-name", accepts_unquoted_name),
        ("component-formatter-name-kwarg-only-first", name_kwarg_only_first),
        ("component-formatter-drops-first-argument", positional_name_drops_next),
        ("shorthand-end-tag-underscore", shorthand_end_tag_underscore),
        ("shorthand-parse-lowercases-name", shorthand_lowercases),
        ("shorthand-parse-swallows-slash", shorthand_swallows_slash),
        ("validation-forgets-forward-slash", validation_forgets_slash),
        ("validation-allows-blank", validation_allows_blank),
        ("end-tag-not-validated", end_tag_not_validated),
        ("empty-tag-allowed", empty_tag_allowed),
        ("registry-ignores-its-own-formatter", registry_ignores_its_formatter),
        ("validation-ascii-only", ascii_only_word_chars),
    ], body)


def replay(path: str) -> int:
    env()
    d = json.load(open(path))
    case = d["case"]
    if case.get("kind") == "model-case":
        bad = replay_row(case["row"])
        print(json.dumps(bad, indent=1, ensure_ascii=False, default=repr))
        return 1 if bad else 0
    if case.get("kind") == "trace-record":
        r = dict(case["record"])
        old = {k: r.get(k) for k in ("obs", "obs_start", "obs_end")}
        run_record(r)
        new = {k: r.get(k) for k in ("obs", "obs_start", "obs_end")}
        print(json.dumps({"recorded": old, "now": new, "readable": _brief(r)}, indent=1, ensure_ascii=False, default=repr))
        w = workdir("x01rp")
        f = w / "one.ndjson"
        r["id"] = 1
        tlc.write_ndjson(f, [r])
        cfg = w / "trace.cfg"
        cfg.write_text("SPECIFICATION TrSpec\n")
        res = tlc.require_ok(tlc.run("Trace_X01", str(cfg), env={"IN": str(f)}, workers=1), "Trace_X01")
        verdict = [line for line in res.out.splitlines() if line.startswith("<<\"")]
        print("\n".join(verdict))
        return 0 if any("ACCEPT" in v for v in verdict) else 1
    print("unknown replay file")
    return 2
