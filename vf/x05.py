"""X05 - the management commands `startcomponent` / `upgradecomponent` as a file-system state machine.

Oracle: specs/MgmtCommands.tla, written from docs/reference/commands.md (= the help texts and the docstring of
startcomponent) and CHANGELOG v0.50.  Sentences relied on (quoted in full at the top of the spec):
  startcomponent   "--path: The path to the component's directory ... If not provided, the command will use the
                   `COMPONENTS.dirs` setting"; "will create a new component named `my_component` in the `components`
                   directory of your Django project. The JavaScript, CSS, and template files will be named `script.js`,
                   `style.css`, and `template.html`"; "--js/--css/--template: The name of the ... file"; "--force:
                   ... overwrite existing files if they exist"; "--dry-run: ... simulate component creation without
                   actually creating any files"; "--verbose: ... print additional information"; "Create a new django
                   component."
  upgradecomponent "Updates component and component_block tags to the new syntax"; "--path: Path to search for
                   components"; "`{% component_block %}` is now `{% component %}`, and `{% component %}` blocks need an
                   ending `{% endcomponent %}` tag ... upgrade a directory (use `--path` argument to point to each dir)
                   of templates that use components to the new syntax automatically"; "The component name must be a
                   single- or double-quotes string".

spec -> code
  MC_X05   the state graph of the file system under every startcomponent invocation (2 names x how the target
           directory is designated x --js/--css/--template given or not x --force x --dry-run x --verbose) to depth 2
           (3 in the thorough tier) from 5 seed file systems; TLC checks the theorems (dry-run changes nothing, without
           --force nothing existing is overwritten, nothing is ever deleted, exactly the documented files are written,
           the python module refers to files that exist, --verbose is irrelevant for the effect) and exports every
           transition with a shortest history reaching its source state.  The harness replays the history with
           call_command in a fresh scratch world, then the last invocation, and compares result, directory listing, the
           set of files written (mtime sentinel: a rewrite with identical bytes is seen too) and what it reads from the
           generated python module (ast: imports from django_components, @register("<name>"), Component base,
           template_file / Media js / css resolved beside the module) - for a sample the module is really imported with
           COMPONENTS.dirs pointing at the target directory (registry entry, template content, media paths).
  MC_X05U  CSpec: every template content of <= n symbols (text, old block opener / end, {% component %},
           {% endcomponent %}, self-closing tag; presentations: arguments, single quotes, no blanks, multi-line, CRLF
           text, non-ASCII text ...) with the documented rewrite and the contents admitted for a *.html / *.py file;
           all of them become real files and the command runs twice over them (idempotence);
           TSpec: every tree of <= k files over 9 locations x 6 extensions x {old, plain} (+ an image that is not
           text in each location) under every invocation (--path given / omitted, COMPONENTS.dirs default / custom)
           with the admitted contents of each file.
  TLC runs are started ahead in child processes while earlier exports are replayed (TlcJob).
code -> spec
  seeded random sessions (user writes / removes files, startcomponent and upgradecomponent with random options, 4
  names, more file names, every way of designating the directory) recorded on the real commands and validated in one
  TLC batch by Trace_X05.

Admitted sets / not generated (docs silent):
  * --path pointing to a directory that does not exist: created with parents, or refused, both admitted;
  * colliding file names (--js x --css x, a name equal to <name>.py), names with path separators, component names that
    are not plain words, a file standing where the component directory should be, no BASE_DIR: never generated;
  * the text of the generated js / css / template (only: the template compiles) and all messages; --verbose is only
    required to print more than the same invocation without it;
  * upgradecomponent: whether files other than *.html below a searched directory are rewritten (the implementation also
    rewrites *.py) and, without --path, what else inside the project is searched (the implementation adds
    BASE_DIR/templates): untouched or rewritten, both admitted.  Files outside the project that are neither configured
    nor passed, and with --path everything outside it, must stay byte-identical;
  * contents that mix closed and unclosed {% component %} tags or have unbalanced old blocks (in neither syntax), old
    tags inside comments / verbatim, white space inside a rewritten tag, non-UTF-8 files: not generated / not compared.

Named deviations (MgmtCommands.tla: KA, KB, KC, KD), classified by the specification:
  closed-component-tag:endcomponent-added, single-quoted-name:tag-not-upgraded,
  crlf-in-rewritten-file:converted-to-lf, path-omitted-custom-dirs:created-in-base-components.
"""
from __future__ import annotations

import ast
import io
import json
import os
import random
import re
import shutil
import sys
from contextlib import contextmanager
from pathlib import Path
from typing import Any, Dict, Iterable, List, Optional, Set, Tuple

from . import tlc
from .core import Check, MachineryError, canon, workdir
from .pool import pmap

PID = "X05"
WORKERS = 6
sys.dont_write_bytecode = True
SENTINEL_NS = 1_000_000_000 * 10 ** 9          # mtime given to every file before a command runs
PRESET = [("proj",), ("proj", "components"), ("proj", "ui"), ("proj", "my_components"), ("lib",), ("outside",)]
PathT = Tuple[str, ...]


# ================================================================ the world
_ROOT: Optional[Path] = None
_n = 0


def scratch() -> Path:
    """Scratch root of this run (created in the parent process, inherited by forked workers)."""
    global _ROOT
    if _ROOT is None:
        _ROOT = workdir("x05").resolve()
    return _ROOT


def fresh_world() -> Path:
    global _n
    _n += 1
    root = scratch() / f"w{os.getpid()}_{_n}"
    for d in PRESET:
        root.joinpath(*d).mkdir(parents=True, exist_ok=True)
    return root


def scan(root: Path) -> Tuple[Dict[PathT, Tuple[bytes, int]], Set[PathT]]:
    files: Dict[PathT, Tuple[bytes, int]] = {}
    dirs: Set[PathT] = set()
    base = str(root)
    for dp, dns, fns in os.walk(base):
        rel: PathT = tuple(dp[len(base) + 1:].split(os.sep)) if len(dp) > len(base) else ()
        for d in dns:
            dirs.add(rel + (d,))
        for f in fns:
            p = os.path.join(dp, f)
            with open(p, "rb") as fh:
                data = fh.read()
            files[rel + (f,)] = (data, os.stat(p).st_mtime_ns)
    return files, dirs


def freeze(root: Path, files: Iterable[PathT]) -> None:
    for p in files:
        os.utime(root.joinpath(*p), ns=(SENTINEL_NS, SENTINEL_NS))


def user_write(root: Path, path: PathT, data: bytes) -> None:
    f = root.joinpath(*path)
    f.parent.mkdir(parents=True, exist_ok=True)
    f.write_bytes(data)


@contextmanager
def project(root: Path, cdirs: str, in_base: bool):
    """BASE_DIR = <root>/proj, COMPONENTS.dirs unset or [BASE_DIR/ui]; cwd = BASE_DIR when a relative --path is
    passed (as with `python manage.py`), a directory outside the project otherwise."""
    from django.conf import settings
    old = (settings.BASE_DIR, settings.COMPONENTS)
    cwd = os.getcwd()
    comp: Dict[str, Any] = {"autodiscover": False}
    if cdirs == "custom":
        comp["dirs"] = [root / "proj" / "ui"]
    settings.BASE_DIR, settings.COMPONENTS = root / "proj", comp
    os.chdir(root / "proj" if in_base else root / "outside")
    try:
        yield
    finally:
        os.chdir(cwd)
        settings.BASE_DIR, settings.COMPONENTS = old


def path_arg(root: Path, w: str) -> Optional[str]:
    return {"P": str(root / "lib"), "R": "my_components", "N": str(root / "fresh" / "sub")}.get(w)


def _call(args: List[str]) -> Tuple[str, str]:
    from django.core.management import call_command
    from django.core.management.base import CommandError
    out = io.StringIO()
    try:
        call_command(*args, stdout=out, stderr=io.StringIO())
        return "ok", out.getvalue()
    except CommandError:
        return "error", out.getvalue()
    except Exception as e:  # noqa: BLE001  (the specification never crashes)
        return "crash:" + type(e).__name__, out.getvalue()


def start_args(root: Path, inv: Dict[str, Any]) -> List[str]:
    args = ["startcomponent", inv["name"]]
    pa = path_arg(root, inv["w"])
    if pa is not None:
        args += ["--path", pa]
    for key, opt in (("js", "--js"), ("css", "--css"), ("tpl", "--template")):
        if inv[key]:
            args += [opt, inv[key]]
    for key, opt in (("force", "--force"), ("dry", "--dry-run"), ("verbose", "--verbose")):
        if inv[key]:
            args.append(opt)
    return args


def run_start(root: Path, inv: Dict[str, Any]) -> Tuple[str, str]:
    with project(root, "custom" if inv["w"] == "D" else "default", inv["w"] == "R"):
        return _call(start_args(root, inv))


def run_upgrade(root: Path, u: Dict[str, Any]) -> Tuple[str, str]:
    args = ["upgradecomponent"]
    if u["usepath"]:
        pa = path_arg(root, u["w"])
        if pa is None:
            pa = str(root / "proj" / ("ui" if u["w"] == "D" else "components"))
        args += ["--path", pa]
    with project(root, u["cdirs"], u["usepath"] and u["w"] == "R"):
        return _call(args)


# ================================================================ reading a generated python module
def project_py(src: bytes, dirname: str) -> Tuple[str, str, str, str]:
    """(registered name, template file, js file, css file) a python module defines, each file given as the name it
    resolves to beside the module (referred to as "<file>" or "<component dir>/<file>"); "<...>" markers otherwise."""
    try:
        tree = ast.parse(src.decode("utf-8"))
    except (SyntaxError, UnicodeDecodeError, ValueError):
        return ("<syntax-error>", "", "", "")
    bound: Dict[str, str] = {}           # local name -> name in django_components
    mods: Set[str] = set()
    for node in tree.body:
        if isinstance(node, ast.ImportFrom) and node.module == "django_components" and node.level == 0:
            for a in node.names:
                bound[a.asname or a.name] = a.name
        elif isinstance(node, ast.Import):
            for a in node.names:
                if a.name == "django_components":
                    mods.add(a.asname or a.name)

    def refers(e: ast.AST, what: str) -> bool:
        if isinstance(e, ast.Name):
            return bound.get(e.id) == what
        return isinstance(e, ast.Attribute) and isinstance(e.value, ast.Name) and e.value.id in mods and e.attr == what

    def const(e: Optional[ast.AST]) -> Optional[str]:
        return e.value if isinstance(e, ast.Constant) and isinstance(e.value, str) else None

    def one(e: ast.AST) -> str:
        if isinstance(e, (ast.List, ast.Tuple)):
            vals = [const(x) for x in e.elts]
            if len(vals) != 1 or vals[0] is None:
                return "<not-one-file>"
            ref = vals[0]
        else:
            ref = const(e)
            if ref is None:
                return "<not-a-string>"
        parts = ref.split("/")
        if len(parts) == 1:
            return parts[0]
        if len(parts) == 2 and parts[0] == dirname:
            return parts[1]
        return "<elsewhere:" + ref + ">"

    found = []
    for node in tree.body:
        if not isinstance(node, ast.ClassDef):
            continue
        regs = []
        for d in node.decorator_list:
            if isinstance(d, ast.Call) and refers(d.func, "register"):
                arg = d.args[0] if d.args else next((k.value for k in d.keywords if k.arg == "name"), None)
                regs.append(const(arg) or "<not-a-string>")
        if not regs:
            continue
        if len(regs) > 1 or not any(refers(b, "Component") for b in node.bases):
            found.append(("<not-a-registered-component>", "", "", ""))
            continue
        tpl = js = css = ""
        for st in node.body:
            if isinstance(st, ast.Assign) and len(st.targets) == 1 and isinstance(st.targets[0], ast.Name):
                t = st.targets[0].id
                if t in ("template_file", "template_name"):
                    tpl = one(st.value)
                elif t == "template":
                    tpl = "<inline>"
                elif t == "js_file":
                    js = one(st.value)
                elif t == "css_file":
                    css = one(st.value)
            elif isinstance(st, ast.ClassDef) and st.name == "Media":
                for m in st.body:
                    if isinstance(m, ast.Assign) and len(m.targets) == 1 and isinstance(m.targets[0], ast.Name):
                        if m.targets[0].id == "js":
                            js = one(m.value)
                        elif m.targets[0].id == "css":
                            css = one(m.value)
        found.append((regs[0], tpl, js, css))
    if len(found) != 1:
        return ("<%d-registered-classes>" % len(found), "", "", "")
    return found[0]


def template_ok(data: bytes) -> bool:
    from django.template import Template
    try:
        Template(data.decode("utf-8"))
        return True
    except Exception:  # noqa: BLE001
        return False


def deep_load(root: Path, where: PathT, name: str, tag: Dict[str, Any]) -> Optional[Dict[str, Any]]:
    """Really import <where>/<name>/<name>.py with COMPONENTS.dirs = [<where>]: the component must be registered
    under `name`, its template must be the created template file, its media the created js / css files."""
    import importlib.util
    from django.conf import settings
    from django_components import Component, registry
    from django_components.component_registry import NotRegistered
    cdir = root.joinpath(*where)
    pyfile = cdir / name / f"{name}.py"
    modname = f"vf_x05_gen_{os.getpid()}_{_n}_{name}"
    old = (settings.BASE_DIR, settings.COMPONENTS)
    settings.BASE_DIR, settings.COMPONENTS = root / "proj", {"autodiscover": False, "dirs": [cdir], "app_dirs": []}
    was = set(registry.all())
    try:
        spec = importlib.util.spec_from_file_location(modname, pyfile)
        mod = importlib.util.module_from_spec(spec)
        sys.modules[modname] = mod
        try:
            spec.loader.exec_module(mod)
        except Exception as e:  # noqa: BLE001
            return {"stage": "import generated module", "exception": repr(e)}
        try:
            cls = registry.get(name)
        except NotRegistered:
            return {"stage": "registry", "detail": f"nothing registered under {name!r}",
                    "registered": sorted(set(registry.all()) - was)}
        if not (isinstance(cls, type) and issubclass(cls, Component)) or cls.__module__ != modname:
            return {"stage": "registry", "detail": f"{name!r} is not the generated class"}
        try:
            tpl = cls.template
            js = list(cls.media._js)
            css = [p for ps in cls.media._css.values() for p in ps]
        except Exception as e:  # noqa: BLE001
            return {"stage": "resolve files", "exception": repr(e)}
        want_tpl = (cdir / name / tag["tpl"]).read_text()
        got = {"template": tpl, "js": [str(x) for x in js], "css": [str(x) for x in css]}
        want = {"template": want_tpl, "js": [f"{name}/{tag['js']}"], "css": [f"{name}/{tag['css']}"]}
        if got != want:
            return {"stage": "component attributes", "expected": want, "observed": got}
        return None
    finally:
        for n in set(registry.all()) - was:
            try:
                registry.unregister(n)
            except Exception:  # noqa: BLE001
                pass
        sys.modules.pop(modname, None)
        settings.BASE_DIR, settings.COMPONENTS = old


# ================================================================ startcomponent: observe and compare
def observe_start(root: Path, before: Dict[PathT, Tuple[bytes, int]]) -> Dict[str, Any]:
    files, dirs = scan(root)
    obs = {}
    for p, (data, mt) in files.items():
        changed = p not in before or mt != SENTINEL_NS or data != before[p][0]
        obs[p] = {"changed": changed, "data": data,
                  "py": project_py(data, p[-2] if len(p) > 1 else "") if changed and p[-1].endswith(".py") else None}
    return {"files": obs, "dirs": dirs}


def start_clauses(o: Dict[str, Any], res: str, obs: Dict[str, Any]) -> List[str]:
    """Python twin of Trace_X05!StartClauses (comparison only): which parts of outcome `o` the observation misses."""
    bad = []
    want = {tuple(r["path"]): r["tag"] for r in o["files"]}
    if res != o["res"]:
        bad.append("result")
    if set(obs["files"]) != set(want):
        bad.append("file_set")
    if obs["dirs"] != {tuple(d) for d in o["dirs"]}:
        bad.append("dir_set")
    written = {tuple(p) for p in o["written"]}
    if {p for p, f in obs["files"].items() if f["changed"]} != written:
        bad.append("written_set")
    for p in written:
        f = obs["files"].get(p)
        if f is None or not f["changed"]:
            continue
        t = want[p]
        if t["role"] == "py" and f["py"] != (t["reg"], t["tpl"], t["js"], t["css"]):
            bad.append("py_module")
        if t["role"] == "tpl" and not template_ok(f["data"]):
            bad.append("template_invalid")
    return bad


def judge_start(row: Dict[str, Any], res: str, obs: Dict[str, Any]) -> Tuple[str, Any]:
    """('ok', outcome) | ('dev', keys) | ('bad', failing clauses of the first admitted outcome)."""
    for o in row["admitted"]:
        if not start_clauses(o, res, obs):
            return "ok", o
    keys: List[str] = []
    for a in row.get("devs", []):
        if any(not start_clauses(o, res, obs) for o in a["admitted"]):
            keys += a["keys"]
    if keys:
        return "dev", sorted(set(keys))
    return "bad", start_clauses(row["admitted"][0], res, obs)


def _brief(obs: Dict[str, Any]) -> Dict[str, Any]:
    return {"files": {"/".join(p): {"changed": f["changed"], "py": f["py"]} for p, f in sorted(obs["files"].items())},
            "dirs": sorted("/".join(d) for d in obs["dirs"])}


def _brief_outcome(o: Dict[str, Any]) -> Dict[str, Any]:
    return {"res": o["res"], "written": sorted("/".join(p) for p in o["written"]),
            "files": {"/".join(r["path"]): {k: v for k, v in r["tag"].items() if v and k != "c"} for r in o["files"]},
            "dirs": sorted("/".join(d) for d in o["dirs"])}


def build_source(row: Dict[str, Any]) -> Tuple[Optional[Path], Any]:
    """A fresh world brought to the source state of `row`: seed, then the history with the real command.
    Returns (root, note) or (None, detail of the mismatch)."""
    root = fresh_world()
    for d in row["seeddirs"]:
        root.joinpath(*d).mkdir(parents=True, exist_ok=True)
    for p in row["seedfiles"]:
        user_write(root, tuple(p), b"user file\n")
    for inv in row["how"][:-1]:
        run_start(root, inv)
    files, dirs = scan(root)
    want_files = {tuple(r["path"]) for r in row["pre"]}
    want_dirs = {tuple(d) for d in row["predirs"]}
    if set(files) == want_files and dirs == want_dirs:
        return root, "history"
    shutil.rmtree(root, ignore_errors=True)
    if not any(i["w"] in ("N", "D") for i in row["how"][:-1]):
        return None, {"stage": "source state after the history",
                      "expected_files": sorted("/".join(p) for p in want_files),
                      "observed_files": sorted("/".join(p) for p in files),
                      "expected_dirs": sorted("/".join(p) for p in want_dirs),
                      "observed_dirs": sorted("/".join(p) for p in dirs)}
    # a step with several admitted outcomes (or a known deviation) went another way: build the state
    root = fresh_world()
    for d in want_dirs:
        root.joinpath(*d).mkdir(parents=True, exist_ok=True)
    for p in want_files:
        user_write(root, p, b"materialised\n")
    return root, "materialised"


def restore(root: Path, before: Dict[PathT, Tuple[bytes, int]], dirs0: Set[PathT]) -> None:
    """Put the world back into the scanned state `before` (bytes; mtimes are reset by freeze)."""
    files, dirs = scan(root)
    for p in files:
        if p not in before:
            root.joinpath(*p).unlink()
    for p, (data, _) in before.items():
        if p not in files or files[p][0] != data:
            user_write(root, p, data)
    for d in sorted(dirs - dirs0, key=len, reverse=True):
        root.joinpath(*d).rmdir()
    for d in dirs0 - dirs:
        root.joinpath(*d).mkdir(parents=True, exist_ok=True)


def replay_last(root: Path, row: Dict[str, Any], before: Dict[PathT, Tuple[bytes, int]], dirs0: Set[PathT]) -> Dict[str, Any]:
    """The last invocation of `row` on the world in its source state; leaves the world in the source state."""
    freeze(root, before)
    res, out = run_start(root, row["inv"])
    obs = observe_start(root, before)
    dirty = any(f["changed"] for f in obs["files"].values()) or obs["dirs"] != dirs0 or set(obs["files"]) != set(before)
    try:
        verdict, info = judge_start(row, res, obs)
        r: Dict[str, Any] = {"v": verdict, "res": res}
        if verdict == "dev":
            r["keys"] = info
        if verdict != "ok":
            r["detail"] = {"stage": "last invocation", "args": start_args(Path("<root>"), row["inv"]),
                           "failing": info, "result": res, "observed": _brief(obs),
                           "admitted": [_brief_outcome(o) for o in row["admitted"]]}
            return r
        # [S7] --verbose prints more than the same invocation without it (compared where nothing changes)
        if res == "ok" and row["inv"]["dry"] and row.get("twin"):
            res2, out2 = run_start(root, dict(row["inv"], verbose=not row["inv"]["verbose"]))
            lv, lp = (len(out), len(out2)) if row["inv"]["verbose"] else (len(out2), len(out))
            r["twin"] = 1
            dirty = True
            if res2 != "ok" or lv <= lp:
                return {"v": "bad", "detail": {"stage": "--verbose prints additional information",
                                               "args": start_args(Path("<root>"), row["inv"]),
                                               "verbose_output_chars": lv, "plain_output_chars": lp, "twin": res2}}
        if info["written"] and row.get("deep"):
            inv = row["inv"]
            where = tuple(info["written"][0][:-2])
            tag = next(x["tag"] for x in info["files"]
                       if x["tag"]["role"] == "py" and tuple(x["path"][:-1]) == where + (inv["name"],))
            bad = deep_load(root, where, inv["name"], tag)
            r["deep"] = 1
            if bad:
                return {"v": "bad", "detail": dict(bad, stage="import of the generated module: " + bad["stage"],
                                                   args=start_args(Path("<root>"), row["inv"]))}
        return r
    finally:
        if dirty:
            restore(root, before, dirs0)


def replay_group(rows: List[Dict[str, Any]]) -> List[Dict[str, Any]]:
    """Rows that share seed and history: the source state is produced once by the real command, every last
    invocation runs in it (the world is put back after each)."""
    root, note = build_source(rows[0])
    if root is None:
        return [{"v": "bad", "detail": note} for _ in rows]
    try:
        before, dirs0 = scan(root)
        out = []
        for row in rows:
            r = replay_last(root, row, before, dirs0)
            r["note"] = note
            out.append(r)
        return out
    finally:
        shutil.rmtree(root, ignore_errors=True)


def replay_start(row: Dict[str, Any]) -> Dict[str, Any]:
    return replay_group([row])[0]


def _set(xs: Iterable[Any]) -> str:
    return "{" + ", ".join(json.dumps(x) if isinstance(x, str) else str(x) for x in xs) + "}"


class TlcJob:
    """One TLC run in a forked child process (no threads in the parent, which forks replay workers meanwhile).
    The child writes what tlc.run() reports next to the cfg; result() joins and returns it."""

    def __init__(self, module: str, tag: str, cfgtext: str, rows_in: Optional[List[Any]] = None):
        import multiprocessing as mp
        w = workdir("x05tlc")
        self.what = f"{module} {tag}"
        self.cfg, self.io, self.meta = w / f"{tag}.cfg", w / f"{tag}.ndjson", w / f"{tag}.meta.json"
        self.cfg.write_text(cfgtext)
        env = {"OUT": str(self.io)}
        if rows_in is not None:
            tlc.write_ndjson(self.io, rows_in)
            env = {"IN": str(self.io)}
        self._done: Optional[Dict[str, Any]] = None
        self.proc = mp.get_context("fork").Process(target=TlcJob._child, args=(module, str(self.cfg), env, str(self.meta)))
        self.proc.start()

    @staticmethod
    def _child(module: str, cfg: str, env: Dict[str, str], meta: str) -> None:
        from . import core as _core
        _core._workdirs.clear()                  # the parent's scratch directories are not ours to remove
        try:
            r = tlc.run(module, cfg, env=env, workers=1)
            d = {"ok": r.ok, "violated": r.violated, "distinct": r.distinct, "generated": r.generated, "out": r.out}
        except BaseException as e:  # noqa: BLE001
            d = {"ok": False, "violated": [], "distinct": 0, "generated": 0, "out": "tlc.run raised " + repr(e)}
        Path(meta).write_text(json.dumps(d))
        _core._cleanup()

    def result(self) -> Dict[str, Any]:
        if self._done is None:
            self.proc.join(1500)
            if self.proc.is_alive():
                self.proc.kill()
                raise MachineryError(f"TLC did not finish: {self.what}")
            if not self.meta.exists():
                raise MachineryError(f"TLC child died: {self.what}")
            self._done = json.loads(self.meta.read_text())
        return self._done

    def require_ok(self) -> Dict[str, Any]:
        d = self.result()
        if not d["ok"]:
            raise MachineryError(f"TLC failed on {self.what}:\n" + "\n".join(d["out"].splitlines()[-60:]))
        return d


_jobs: Dict[str, TlcJob] = {}
_mc_cache: Dict[str, Tuple[List[Any], int, int]] = {}


def export(module: str, tag: str, cfgtext: str, prefetch: bool) -> Optional[Tuple[List[Any], int, int]]:
    """Rows exported by a TLC run of `module` under `cfgtext` (started in the background on first request)."""
    key = module + "\n" + cfgtext
    if key in _mc_cache:
        return None if prefetch else _mc_cache[key]
    if key not in _jobs:
        _jobs[key] = TlcJob(module, tag, cfgtext)
    if prefetch:
        return None
    job = _jobs.pop(key)
    d = job.require_ok()
    _mc_cache[key] = (tlc.read_ndjson(job.io), d["distinct"], d["generated"])
    return _mc_cache[key]


def mc_start(chk: Check, tag: str, names: List[str], wheres: List[str], seeds: List[int], depth: int,
             opts: bool = True, deep_every: int = 16, prefetch: bool = False) -> None:
    o = (lambda d: ["", d]) if opts else (lambda d: [""])
    cfgtext = (
        "SPECIFICATION MCSpec\nCONSTANTS\n"
        f"  Names = {_set(names)}\n  Wheres = {_set(wheres)}\n  JsOpts = {_set(o('my_script.js'))}\n"
        f"  CssOpts = {_set(o('my_style.css'))}\n  TplOpts = {_set(o('my_template.html'))}\n"
        f"  SeedIdx = {_set(seeds)}\n  MaxDepth = {depth}\nVIEW View\nINVARIANT WellFormed\n"
        "PROPERTY Theorems\nPROPERTY Export\n")
    got = export("MC_X05", tag, cfgtext, prefetch)
    if got is None:
        return
    rows, distinct, generated = got
    if not rows or len(rows) != generated - len(seeds):
        raise MachineryError(f"MC_X05 {tag}: {len(rows)} rows exported for {generated} generated states")
    seen, uniq = set(), []
    for row in rows:                      # one line per chosen outcome: keep one per (source state, invocation);
        k = canon([row["seed"], row["how"]])   # a source state is expanded once (VIEW), so seed + history identify it
        if k not in seen:
            seen.add(k)
            uniq.append(row)
    rows = uniq
    chk.add("states", distinct)
    chk.add("transitions", generated)
    groups: Dict[str, List[Dict[str, Any]]] = {}
    for n, row in enumerate(rows):
        row["deep"] = (n % deep_every == 0)
        row["twin"] = (n % 3 == 0)
        groups.setdefault(canon([row["seed"], row["how"][:-1]]), []).append(row)
    scratch()
    jobs = [g[i:i + 64] for g in groups.values() for i in range(0, len(g), 64)]
    rows = [row for j in jobs for row in j]
    results = [r for rs in pmap(replay_group, jobs, workers=WORKERS, per_item_s=120.0, chunk=1) for r in
               (rs if isinstance(rs, list) else [rs])]
    if len(results) != len(rows):
        raise MachineryError("a replay job hung")
    for row, r in zip(rows, results):
        inv = row["inv"]
        chk.count(["start", row["seed"], row["how"]], nontrivial=bool(row["pre"]) or not inv["dry"])
        if r["v"] != "ok":
            case = {"kind": "start-transition", "row": {k: row[k] for k in row if k not in ("deep", "twin")}}
        chk.add("start_transitions_replayed")
        chk.add("start_source_state_" + r.get("note", "history"))
        chk.add("start_verbose_twins", r.get("twin", 0))
        chk.add("start_modules_imported", r.get("deep", 0))
        if r["v"] == "dev":
            for k in r["keys"]:
                chk.violation(case, r["detail"], key=k)
        elif r["v"] == "bad":
            chk.violation(case, r["detail"])
    for row in rows:
        if row["depth"] >= 2 and row["inv"]["force"] and not row["inv"]["dry"] and row["pre"]:
            chk.sample({"start_transition": {"seedfiles": row["seedfiles"], "how": row["how"],
                                             "admitted": [_brief_outcome(o) for o in row["admitted"]]}}, limit=2)
            break


# ================================================================ template contents as symbols
def _tag(name: str, v: int) -> str:
    n = f"n{v}"
    return {1: '{%% %s "%s" %%}', 2: '{%% %s "%s" x=1 only %%}', 3: "{%% %s '%s' %%}", 4: '{%%%s "%s"%%}',
            5: '{%%  %s\n   "%s"\n  y="2"  %%}'}[v] % (name, n)


TEXT: Dict[Tuple[str, int], str] = {
    ("T", 1): "lorem ", ("T", 2): "a\r\nb\r\n", ("T", 3): "{% if x %}{{ y }}{% endif %}",
    ("T", 4): "component_block endcomponent_block ", ("T", 5): "x\ny\n", ("T", 6): "\u017elu\u0165 \u2713 ",
    ("TLF", 2): "a\nb\n",
    ("OC", 1): "{% endcomponent_block %}", ("OC", 2): '{% endcomponent_block "n2" %}',
    ("OC", 3): "{% endcomponent_block 'n3' %}", ("OC", 4): "{%endcomponent_block%}",
    ("E", 1): "{% endcomponent %}", ("E", 4): "{%endcomponent%}",
    ("S", 1): '{% component "n1" / %}', ("S", 2): '{% component "n2" x=1 / %}',
}
for _v in range(1, 6):
    TEXT[("OO", _v)] = _tag("component_block", _v)
    TEXT[("C", _v)] = _tag("component", _v)
TAGNAMES = {"component_block": "OO", "endcomponent_block": "OC", "component": "C", "endcomponent": "E"}
_TAG_RE = re.compile(r"\{%(.*?)%\}", re.DOTALL)


def _norm(text: str) -> Optional[Tuple[str, Tuple[str, ...]]]:
    """(kind, arguments with the quotes of the name removed) of a tag of interest, None for anything else."""
    m = _TAG_RE.fullmatch(text)
    if not m:
        return None
    words = m.group(1).split()
    if not words or words[0] not in TAGNAMES:
        return None
    kind, args = TAGNAMES[words[0]], words[1:]
    if kind == "C" and args and args[-1] == "/":
        kind, args = "S", args[:-1]
    if args and len(args[0]) >= 2 and args[0][0] in "\"'" and args[0][-1] == args[0][0]:
        args = [args[0][1:-1]] + args[1:]
    return kind, tuple(args)


NORM: Dict[Tuple[str, Tuple[str, ...]], List[int]] = {}
for (_k, _v), _t in sorted(TEXT.items()):
    _nm = _norm(_t)
    if _nm:
        NORM.setdefault(_nm, []).append(_v)
_TEXTS = sorted(((t, k, v) for (k, v), t in TEXT.items() if k in ("T", "TLF")), key=lambda x: -len(x[0]))


BINARY = b"\x89PNG\r\n\x1a\n\xff\xfe\x00{% component_block \xe9"      # not UTF-8: symbol ("B", 1), never mixed with others


def render(s: List[Dict[str, Any]]) -> bytes:
    return b"".join(BINARY if x["k"] == "B" else TEXT[(x["k"], x["v"])].encode("utf-8") for x in s)


def project_content(data: bytes) -> List[Dict[str, Any]]:
    """Symbols of a file: the inverse of render(), plus tags rewritten by the command (raw = false: only tag name
    and arguments are those of the symbol) and "?" for anything else."""
    if data == BINARY:
        return [{"k": "B", "v": 1, "raw": True}]
    try:
        text = data.decode("utf-8")
    except UnicodeDecodeError:
        return [{"k": "?", "v": 0, "raw": False}]
    out: List[Dict[str, Any]] = []
    i = 0
    while i < len(text):
        if text.startswith("{%", i):
            m = _TAG_RE.match(text, i)
            nm = _norm(m.group(0)) if m else None
            if nm and nm in NORM:
                vs = NORM[nm]
                exact = [v for v in vs if TEXT[(nm[0], v)] == m.group(0)]
                out.append({"k": nm[0], "v": exact[0] if exact else vs[0], "raw": bool(exact)})
                i = m.end()
                continue
            if nm:
                out.append({"k": "?", "v": 0, "raw": False})
                i = m.end()
                continue
        for t, k, v in _TEXTS:
            if text.startswith(t, i):
                out.append({"k": k, "v": v, "raw": k == "T"})
                i += len(t)
                break
        else:
            if not out or out[-1]["k"] != "?":
                out.append({"k": "?", "v": 0, "raw": False})
            i += 1
    return out


def agrees(obs: List[Dict[str, Any]], exp: List[Dict[str, Any]]) -> bool:
    """Python twin of MgmtCommands!Agrees (comparison only)."""
    return len(obs) == len(exp) and all(o["k"] == e["k"] and o["v"] == e["v"] and (o["raw"] or not e["raw"])
                                        for o, e in zip(obs, exp))


def classify(obs: List[Dict[str, Any]], devs: List[Dict[str, Any]]) -> Optional[List[str]]:
    """Keys of the smallest set of named deviations that predicts the observed content."""
    best = None
    for a in devs:
        if agrees(obs, a["out"]) and (best is None or len(a["keys"]) < len(best)):
            best = sorted(a["keys"])
    return best


def _show(s: List[Dict[str, Any]]) -> str:
    return " ".join(f"{x['k']}{x['v']}" + ("" if x["raw"] else "'") for x in s)


def mc_contents(chk: Check, tag: str, alpha: List[int], core: List[int], full_len: int, core_len: int,
                ext: str = ".html", prefetch: bool = False) -> None:
    cfgtext = ("SPECIFICATION CSpec\nCONSTANTS\n"
               f"  Alpha = {_set(alpha)}\n  Core = {_set(core)}\n  FullLen = {full_len}\n  CoreLen = {core_len}\n"
               "  LocIdx = {}\n  ExtIdx = {}\n  MaxFiles = 0\nINVARIANT CTheorems\nINVARIANT CExport\n")
    got = export("MC_X05U", tag, cfgtext, prefetch)
    if got is None:
        return
    rows, distinct, generated = got
    if not rows or len(rows) > distinct:
        raise MachineryError(f"MC_X05U {tag}: {len(rows)} rows exported for {distinct} states")
    chk.add("states", distinct)
    chk.add("transitions", generated)
    chk.add("contents_undetermined_skipped", distinct - len(rows))
    replay_contents(chk, rows, ext)
    for row in rows:
        if len(row["s"]) >= 4 and row["exp"] != row["s"] and not row["devs"]:
            chk.sample({"content": {"s": _show(row["s"]), "expected": _show(row["exp"]),
                                    "text": render(row["s"]).decode()}}, limit=4)
            break


def replay_contents(chk: Check, rows: List[Dict[str, Any]], ext: str = ".html") -> None:
    """All contents as files of one directory; the real command twice; every file compared."""
    root = fresh_world()
    try:
        d = root / "lib" / "tpl"
        d.mkdir()
        src = [render(row["s"]) for row in rows]
        for n, data in enumerate(src):
            (d / f"f{n}{ext}").write_bytes(data)
        u = {"usepath": True, "w": "P", "cdirs": "default"}
        res, _ = run_upgrade(root, u)
        first = [(d / f"f{n}{ext}").read_bytes() for n in range(len(rows))]
        res2, _ = run_upgrade(root, u)
        second = [(d / f"f{n}{ext}").read_bytes() for n in range(len(rows))]
        if res != "ok" or res2 != "ok":
            chk.violation({"kind": "upgrade-contents-batch", "n": len(rows)}, {"stage": "command", "results": [res, res2]})
            return
        for n, row in enumerate(rows):
            case = {"kind": "upgrade-content", "row": row, "ext": ext}
            chk.count(["content", row["s"]], nontrivial=any(x["k"] != "T" for x in row["s"]))
            chk.add("upgrade_contents_replayed")
            bad = judge_content(row, ext, src[n], first[n], second[n])
            for kind, keys, detail in bad:
                if keys:
                    for k in keys:
                        chk.violation(case, detail, key=k)
                else:
                    chk.violation(case, detail)
            if not bad:
                chk.add("upgrade_second_runs_compared")
    finally:
        shutil.rmtree(root, ignore_errors=True)


def judge_content(row: Dict[str, Any], ext: str, src: bytes, first: bytes, second: bytes) -> List[Tuple[str, Any, Any]]:
    """Failures of one content: [(stage, keys of the named deviations that explain it or None, detail)]."""
    out = []
    obs = project_content(first)
    # admitted after one run (TLC: MgmtCommands!AdmittedAfter for this extension); an unchanged content means same bytes
    ok1 = any(agrees(obs, a) and (a != row["s"] or first == src) for a in row["adm"][ext])
    if not ok1:
        keys = classify(obs, row["devs"])
        out.append(("first", keys, {"stage": "first run", "input": src.decode(), "content": _show(row["s"]),
                                    "admitted": [_show(a) for a in row["adm"][ext]], "observed": _show(obs),
                                    "observed_text": first.decode("utf-8", "replace")}))
        return out
    if second != first:                   # running twice = running once (Upgrade(Upgrade(s)) = Upgrade(s))
        obs2 = project_content(second)
        if first == src and agrees(obs2, row["exp"]) and row["exp"] in row["adm"][ext]:
            return out                    # left alone by the first run, rewritten by the second: both admitted
        keys = classify(obs2, row["devs2"]) if agrees(obs, row["exp"]) else None
        out.append(("second", keys, {"stage": "second run (idempotence)", "input": src.decode(),
                                     "after_first_run": first.decode("utf-8", "replace"),
                                     "after_second_run": second.decode("utf-8", "replace"),
                                     "observed": _show(obs2)}))
    return out


# ================================================================ upgradecomponent: trees
def replay_tree(row: Dict[str, Any]) -> Dict[str, Any]:
    root = fresh_world()
    try:
        src = {}
        for f in row["files"]:
            p = tuple(f["path"])
            src[p] = render(f["c"])
            user_write(root, p, src[p])
        before, dirs0 = scan(root)
        res, _ = run_upgrade(root, row["u"])
        after, dirs1 = scan(root)
        bad: List[Any] = []
        if res != "ok":
            bad.append({"result": res})
        if set(after) != set(before) or dirs0 != dirs1:
            bad.append({"listing_changed": sorted("/".join(p) for p in set(after) ^ set(before)) +
                        sorted("/".join(p) for p in dirs0 ^ dirs1)})
        for f in row["files"]:
            p = tuple(f["path"])
            if p not in after:
                continue
            data = after[p][0]
            obs = project_content(data)
            if not any(agrees(obs, a) and (a != f["c"] or data == src[p]) for a in f["admitted"]):
                bad.append({"file": "/".join(p), "content": _show(f["c"]), "admitted": [_show(a) for a in f["admitted"]],
                            "observed": _show(obs), "observed_text": data.decode("utf-8", "replace")})
        return {"bad": bad}
    finally:
        shutil.rmtree(root, ignore_errors=True)


def mc_trees(chk: Check, tag: str, locs: List[int], exts: List[int], max_files: int, prefetch: bool = False) -> None:
    cfgtext = ("SPECIFICATION TSpec\nCONSTANTS\n  Alpha = {}\n  Core = {}\n  FullLen = 0\n  CoreLen = 0\n"
               f"  LocIdx = {_set(locs)}\n  ExtIdx = {_set(exts)}\n  MaxFiles = {max_files}\n"
               "INVARIANT TTheorems\nINVARIANT TExport\n")
    got = export("MC_X05U", tag, cfgtext, prefetch)
    if got is None:
        return
    rows, distinct, generated = got
    if len(rows) != distinct:
        raise MachineryError(f"MC_X05U {tag}: {len(rows)} rows exported for {distinct} states")
    chk.add("states", distinct)
    chk.add("transitions", generated)
    scratch()
    results = pmap(replay_tree, rows, workers=WORKERS, per_item_s=20.0, chunk=60)
    for row, r in zip(rows, results):
        chk.count(["tree", row], nontrivial=bool(row["files"]))
        chk.add("upgrade_trees_replayed")
        if r.get("hang") or r["bad"]:
            chk.violation({"kind": "upgrade-tree", "row": row}, r)
    for row in rows:
        if len(row["files"]) >= max(1, max_files) and any(len(f["admitted"]) == 1 and f["admitted"][0] != f["c"]
                                                          for f in row["files"]):
            chk.sample({"upgrade_tree": {"u": row["u"], "files": [
                {"path": "/".join(f["path"]), "content": _show(f["c"]), "admitted": [_show(a) for a in f["admitted"]]}
                for f in row["files"]]}}, limit=6)
            break


# ================================================================ code -> spec: random sessions
T_NAMES = ["alpha", "beta", "my_table", "Card2"]
ALT = {"js": ["", "", "my_script.js", "app.js"], "css": ["", "", "my_style.css", "main.css"],
       "tpl": ["", "", "my_template.html", "index.html"]}
USER_DIRS: List[PathT] = [("lib",), ("lib", "sub", "deep"), ("proj", "components"), ("proj", "components", "card"),
                          ("proj", "ui"), ("proj", "ui", "x"), ("proj", "templates"), ("proj", "templates", "pages"),
                          ("proj", "my_components"), ("proj", "other"), ("outside",), ("outside", "t"),
                          ("lib", "alpha"), ("proj", "components", "beta"), ("proj", "ui", "alpha")]
USER_FILES = ["page.html", "index.html", "view.py", "notes.txt", "mail.htm", "old.html.bak", "script.js", "template.html",
              "alpha.py", "UP.HTML", "style.css", "logo.png"]
SYMS = [("T", v) for v in (1, 1, 2, 3, 4, 5, 6)] + [("OO", v) for v in (1, 2, 3, 4, 5)] + \
       [("OC", v) for v in (1, 2, 3, 4)] + [("C", v) for v in (1, 2, 3, 4, 5)] + [("E", 1), ("E", 4), ("S", 1), ("S", 2)]


def _sym(k: str, v: int) -> Dict[str, Any]:
    return {"k": k, "v": v, "raw": True}


def gen_content(rnd: random.Random) -> List[Dict[str, Any]]:
    """A random template: mostly well-formed old-syntax or new-syntax files, some arbitrary ones."""
    style = rnd.random()
    txt = lambda: _sym("T", rnd.choice([1, 1, 1, 3, 4, 5, 6, 2]))            # noqa: E731
    tagv = lambda: rnd.choice([1, 1, 2, 4, 5, 3]) if rnd.random() < 0.5 else 1   # noqa: E731
    if style < 0.1:
        return [txt() for _ in range(rnd.randint(0, 3))]
    if style < 0.2:
        return [_sym(*rnd.choice(SYMS)) for _ in range(rnd.randint(1, 6))]
    old = style < 0.65

    def block(depth: int) -> List[Dict[str, Any]]:
        out: List[Dict[str, Any]] = []
        for _ in range(rnd.randint(1, 3)):
            x = rnd.random()
            if x < 0.35:
                out.append(txt())
            elif x < 0.6 and depth < 2:
                v = tagv()
                if old:
                    out += [_sym("OO", v)] + block(depth + 1) + [_sym("OC", rnd.choice([1, 1, 4, v if v in (2, 3) else 1]))]
                else:
                    out += [_sym("C", v)] + block(depth + 1) + [_sym("E", rnd.choice([1, 1, 4]))]
            elif x < 0.85:
                out += [_sym("C", tagv())] if old else [_sym("S", rnd.choice([1, 2]))]
            elif not old and depth < 2 and rnd.random() < 0.5:      # a block not yet upgraded in a new-syntax file
                out += [_sym("OO", tagv())] + block(depth + 1) + [_sym("OC", 1)]
            else:
                out.append(txt())
        return out
    return block(0)


def drive(root: Path, cmds: Iterable[Dict[str, Any]]) -> List[Dict[str, Any]]:
    """Execute abstract commands on the real world and attach what was observed (the recorder of Trace_X05)."""
    events = []
    for c in cmds:
        e = dict(c)
        op = c["op"]
        if op == "mkdir":
            root.joinpath(*c["path"]).mkdir(parents=True, exist_ok=True)
        elif op == "write":
            user_write(root, tuple(c["path"]), render(c["c"]))
        elif op == "rm":
            root.joinpath(*c["path"]).unlink()
        elif op == "start":
            before, _ = scan(root)
            freeze(root, before)
            res, _ = run_start(root, c["inv"])
            obs = observe_start(root, before)
            files = []
            for p, f in sorted(obs["files"].items()):
                reg, tpl, js, css = f["py"] or ("", "", "", "")
                files.append({"path": list(p), "changed": f["changed"], "reg": reg, "tpl": tpl, "js": js, "css": css,
                              "tplok": template_ok(f["data"]) if f["changed"] and not p[-1].endswith(".py") else True})
            e.update({"res": res.split(":")[0], "exc": res, "files": files, "dirs": sorted(list(d) for d in obs["dirs"])})
        elif op == "upgrade":
            before, _ = scan(root)
            res, _ = run_upgrade(root, c["u"])
            after, dirs = scan(root)
            files = [{"path": list(p), "same": p in before and before[p][0] == data,
                      "c": project_content(data) if p in c["user"] else []} for p, (data, _) in sorted(after.items())]
            e.pop("user")
            e.update({"res": res.split(":")[0], "exc": res, "files": files, "dirs": sorted(list(d) for d in dirs)})
        else:
            raise MachineryError(f"unknown op {op}")
        events.append(e)
    return events


def gen_session(job: Tuple[int, int]) -> Dict[str, Any]:
    """One seeded random session, driven step by step (the generator looks at the real file system only to avoid
    ill-formed worlds: a file where a directory is needed)."""
    seed, tid = job
    rnd = random.Random(seed * 1000003 + tid)
    root = fresh_world()
    user: Set[PathT] = set()           # files last written by the user (their content is template symbols)
    events: List[Dict[str, Any]] = []
    try:
        for _ in range(rnd.randint(6, 16)):
            files, dirs = scan(root)
            x = rnd.random()
            if x < 0.38:
                d = rnd.choice(USER_DIRS)
                p = d + (rnd.choice(USER_FILES),)
                if p in dirs or any(d[:i] in files for i in range(1, len(d) + 1)):
                    continue
                cmd = {"op": "write", "path": list(p), "c": [_sym("B", 1)] if p[-1].endswith(".png") else gen_content(rnd)}
                user.add(p)
            elif x < 0.43:
                d = rnd.choice(USER_DIRS) + ((rnd.choice(T_NAMES),) if rnd.random() < 0.5 else ())
                if d in files or any(d[:i] in files for i in range(1, len(d))):
                    continue
                cmd = {"op": "mkdir", "path": list(d)}
            elif x < 0.47:
                if not files:
                    continue
                p = rnd.choice(sorted(files))
                cmd = {"op": "rm", "path": list(p)}
                user.discard(p)
            elif x < 0.80:
                inv = {"name": rnd.choice(T_NAMES), "w": rnd.choice(["P", "P", "R", "B", "B", "D", "N"]),
                       "js": rnd.choice(ALT["js"]), "css": rnd.choice(ALT["css"]), "tpl": rnd.choice(ALT["tpl"]),
                       "force": rnd.random() < 0.45, "dry": rnd.random() < 0.25, "verbose": rnd.random() < 0.3}
                cmd = {"op": "start", "inv": inv}
            else:
                usepath = rnd.random() < 0.6
                cmd = {"op": "upgrade", "u": {"usepath": usepath,
                                              "w": rnd.choice(["P", "P", "R", "B", "D", "N"]) if usepath else "B",
                                              "cdirs": rnd.choice(["default", "custom"])},
                       "user": set(user)}
            ev = drive(root, [cmd])[0]
            if ev["op"] == "start":
                user -= {tuple(f["path"]) for f in ev["files"] if f["changed"]}
            events.append(ev)
        return {"id": tid, "events": events}
    finally:
        shutil.rmtree(root, ignore_errors=True)


def _verdicts(out: str, n: int, what: str) -> List[Tuple[int, int, List[str]]]:
    """ACCEPT / REJECT lines of a Trace_X05 run (TLC wraps long tuples); every session has a verdict."""
    acc = {int(m.group(1)) for m in re.finditer(r'<<\s*"ACCEPT",\s*(\d+)\s*>>', out)}
    rej = [(int(m.group(1)), int(m.group(2)), re.findall(r'"([^"]*)"', m.group(3)))
           for m in re.finditer(r'<<\s*"REJECT",\s*(\d+),\s*(\d+),\s*\{([^}]*)\}\s*>>', out)]
    got = acc | {t for t, _, _ in rej}
    if acc & {t for t, _, _ in rej} or len(got) != n:
        raise MachineryError(f"{what}: verdicts for {len(got)} of {n} sessions\n" + "\n".join(out.splitlines()[-30:]))
    return rej


def validate_start(traces: List[Dict[str, Any]]) -> TlcJob:
    return TlcJob("Trace_X05", "sessions", "SPECIFICATION TrSpec\nINVARIANT WorldWellFormed\n", rows_in=traces)


def validate_finish(job: TlcJob, n: int) -> Tuple[List[Tuple[int, int, List[str]]], int]:
    d = job.result()
    if d["violated"]:
        raise MachineryError("Trace_X05: the recorder produced an ill-formed world:\n" + "\n".join(d["out"].splitlines()[-30:]))
    job.require_ok()
    return _verdicts(d["out"], n, "Trace_X05"), d["distinct"]


def validate(traces: List[Dict[str, Any]]) -> Tuple[List[Tuple[int, int, List[str]]], int]:
    return validate_finish(validate_start(traces), len(traces))


_sessions: Dict[Tuple[int, int, int], Tuple[List[Dict[str, Any]], TlcJob]] = {}


def validate_sessions(chk: Check, n: int, salt: int = 0, prefetch: bool = False) -> None:
    """Record n sessions on the real commands and have TLC validate them (prefetch: record and start TLC only)."""
    key = (chk.seed, n, salt)
    if key not in _sessions:
        scratch()
        traces = pmap(gen_session, [(chk.seed * 7 + salt, i + 1) for i in range(n)], workers=WORKERS, per_item_s=60.0,
                      chunk=10)
        if any(t.get("hang") for t in traces):
            raise MachineryError("a recorded session hung")
        _sessions[key] = (traces, validate_start(traces))
    if prefetch:
        return
    traces, job = _sessions.pop(key)
    rej, states = validate_finish(job, len(traces))
    for tno, at, clauses in rej:
        t = traces[tno - 1]
        case = {"kind": "session", "commands": [_command(e) for e in t["events"][:at]]}
        detail = {"failing_clauses": clauses, "event": t["events"][at - 1]}
        plain = [c for c in clauses if not c.startswith("dev:")]
        if plain:
            chk.violation(case, detail)
        else:
            for c in clauses:
                chk.violation(case, detail, key=c[4:])
    for t in traces:
        chk.count(t["events"])
        chk.add("trace_start_events", sum(1 for e in t["events"] if e["op"] == "start"))
        chk.add("trace_upgrade_events", sum(1 for e in t["events"] if e["op"] == "upgrade"))
    chk.add("traces_validated_against_impl", len(traces))
    chk.add("trace_states", states)
    chk.sample({"session_head": [_command(e) for e in traces[0]["events"][:6]]}, limit=8)


def _command(e: Dict[str, Any]) -> Dict[str, Any]:
    """The abstract command of a recorded event (what drive() needs to repeat it)."""
    if e["op"] in ("mkdir", "rm"):
        return {"op": e["op"], "path": e["path"]}
    if e["op"] == "write":
        return {"op": "write", "path": e["path"], "c": e["c"]}
    if e["op"] == "start":
        return {"op": "start", "inv": e["inv"]}
    return {"op": "upgrade", "u": e["u"]}


# ================================================================ tiers
ALPHA = [11, 12, 13, 14, 15, 16, 21, 22, 23, 24, 25, 31, 32, 33, 34, 41, 42, 43, 44, 45, 51, 54, 61, 62]
CORE = [11, 21, 31, 41, 51, 61]


def plan(tier: str) -> List[Tuple[Any, tuple, Dict[str, Any]]]:
    if tier == "quick":
        return [(mc_start, ("main", ["alpha", "beta"], ["P", "B"], [1, 3], 2), {}),
                (mc_start, ("wide", ["alpha", "beta"], ["P", "R", "B", "D", "N"], [1, 2, 4, 5], 1), {}),
                (mc_contents, ("contents", ALPHA, CORE, 3, 5), {}),
                (mc_trees, ("trees", list(range(1, 10)), list(range(1, 7)), 1), {}),
                (validate_sessions, (250,), {})]
    return [(mc_start, ("main", ["alpha", "beta"], ["P", "B", "D"], [1, 2, 3, 4, 5], 2), {}),
            (mc_start, ("deep", ["alpha", "beta"], ["P", "B"], [1, 3], 3), {"opts": False}),
            (mc_start, ("wide", ["alpha", "beta"], ["P", "R", "B", "D", "N"], [1, 2, 3, 4, 5], 2), {"opts": False}),
            (mc_contents, ("contents", ALPHA, CORE, 3, 7), {}),
            (mc_contents, ("contents-py", ALPHA, CORE, 2, 4), {"ext": ".py"}),
            (mc_trees, ("trees", list(range(1, 10)), list(range(1, 7)), 2), {}),
            (validate_sessions, (2500,), {})]


def execute(chk: Check, steps: List[Tuple[Any, tuple, Dict[str, Any]]], ahead: int = 3) -> None:
    """Run the steps in order; the TLC runs of the next `ahead` steps are started in the background meanwhile."""
    _sessions.clear()
    for n, (fn, a, k) in enumerate(steps):
        for fn2, a2, k2 in steps[n:n + 1 + ahead]:
            fn2(chk, *a2, prefetch=True, **k2)
        fn(chk, *a, **k)


def core(chk: Check, tier: str) -> None:
    execute(chk, plan(tier), ahead=4 if tier == "quick" else 2)


def run(tier: str) -> int:
    from . import boot
    boot.setup()
    chk = Check(PID, tier, "model_checking")
    core(chk, tier)
    chk.cov["exhaustive"] = True
    chk.cov["rule"] = (
        "every transition of the MC_X05 state graph (file system x startcomponent invocation, to the depth of the tier) "
        "replayed with call_command after a real history; every Determined template content and every file tree of "
        "MC_X05U run through upgradecomponent (twice); random sessions validated by Trace_X05. Non-trivial = the "
        "source file system is not empty or the invocation is not a dry run / the content has a component tag / the "
        "tree has a file; distinct by hash of the case")
    chk.assumptions += [
        "refusal of startcomponent is a CommandError (the failure channel of a management command); anything else "
        "raised counts as a crash",
        "a file counts as written when its mtime left the sentinel set before the command, it is new, or its bytes differ",
        "the generated python module is read with ast (imports from django_components, @register, Component base, "
        "template_file/template_name, js_file/css_file or Media.js/css naming a file beside the module); every 16th "
        "created component is really imported with COMPONENTS.dirs = [target directory]",
        "--path to a missing directory, *.py / other extensions below a searched directory, BASE_DIR/templates without "
        "--path: every documented-compatible outcome admitted",
        "contents mixing closed and unclosed {% component %} tags or with unbalanced old blocks are not generated "
        "(MgmtCommands!Determined)",
    ]
    return chk.finish()


# ================================================================ selftest
def _mutant(modname: str, edits: List[Tuple[str, str]]):
    """Context manager factory: the command module's Command class rebuilt from its source with textual edits
    (in memory only; call_command picks the class up from the module attribute)."""
    import importlib
    import inspect

    @contextmanager
    def cm():
        mod = importlib.import_module(modname)
        src = inspect.getsource(mod)
        for a, b in edits:
            if a not in src:
                raise MachineryError(f"mutation anchor not found in {modname}: {a!r}")
            src = src.replace(a, b)
        ns: Dict[str, Any] = {"__name__": modname + "_vf_mutant"}
        exec(compile(src, modname + "<mutant>", "exec"), ns)
        old = mod.Command
        mod.Command = ns["Command"]
        try:
            yield
        finally:
            mod.Command = old
    return cm


START = "django_components.management.commands.startcomponent"
UPGRADE = "django_components.management.commands.upgradecomponent"

# The proposed repairs (proposed_fixes/X05-*.diff) as textual edits, applied in memory by the selftest.
# The single-quote repair is written against the source with the closed-tag repair applied.
FIX_KA = [
    ("from typing import Any\n", "from typing import Any, Tuple\n"),
    ("\n\nclass Command(BaseCommand):\n", '''

def _close_inline_component_tags(content: str) -> Tuple[str, int]:
    """
    Append `{% endcomponent %}` to the `{% component %}` tags that are in the old (inline) syntax.
    That is, to those that are not self-closing and that are not followed by any `{% endcomponent %}`.
    """
    count = 0

    def close_tag(match: "re.Match[str]") -> str:
        nonlocal count
        is_self_closing = match.group(2).rstrip().endswith("/")
        is_closed = re.search(r"{%\\s*endcomponent\\s*%}", content[match.end() :]) is not None
        if is_self_closing or is_closed:
            return match.group(0)
        count += 1
        return match.group(0) + "{% endcomponent %}"

    # NOTE: The tag itself must not reach over a `%}`
    tag_re = r\'{%\\s*component\\s*"(\\w+?)"((?:(?!%}).)*)%}\'
    return re.sub(tag_re, close_tag, content, flags=re.DOTALL), count


class Command(BaseCommand):
'''),
    ("""                            content_with_closed_components, step0_count = re.subn(
                                r'({%\\s*component\\s*"(\\w+?)"(.*?)%})(?!.*?{%\\s*endcomponent\\s*%})',
                                r"\\1{% endcomponent %}",
                                content,
                                flags=re.DOTALL,
                            )
""",
     """                            content_with_closed_components, step0_count = _close_inline_component_tags(content)
""")]
FIX_KB = [
    ("is_self_closing = match.group(2).rstrip()", "is_self_closing = match.group(3).rstrip()"),
    ("""tag_re = r'{%\\s*component\\s*"(\\w+?)"((?:(?!%}).)*)%}'""",
     """tag_re = r'{%\\s*component\\s*(["\\'])(\\w+?)\\1((?:(?!%}).)*)%}'"""),
    ("""                                r'{%\\s*component_block\\s*"(\\w+?)"\\s*(.*?)%}',
                                r'{% component "\\1" \\2%}',""",
     """                                r'{%\\s*component_block\\s*(["\\'])(\\w+?)\\1\\s*(.*?)%}',
                                r"{% component \\1\\2\\1 \\3%}","""),
    ("""r'{%\\s*endcomponent_block\\s*"(\\w+?)"\\s*%}',""", """r'{%\\s*endcomponent_block\\s*(["\\'])(\\w+?)\\1\\s*%}',"""),
]
FIX_KC = [('open(file_path, "r+", encoding="utf-8")', 'open(file_path, "r+", encoding="utf-8", newline="")')]
FIX_KD = [
    ("from django.core.management.base import BaseCommand, CommandError, CommandParser\n",
     "from django.core.management.base import BaseCommand, CommandError, CommandParser\n\n"
     "from django_components.app_settings import app_settings\n"),
    ("""                component_path = os.path.join(base_dir, "components", name)
""",
     """                # First of `COMPONENTS.dirs` (which defaults to `[BASE_DIR / "components"]`)
                component_dirs = [d[1] if isinstance(d, (tuple, list)) else d for d in app_settings.DIRS]
                components_root = component_dirs[0] if component_dirs else os.path.join(base_dir, "components")
                component_path = os.path.join(components_root, name)
"""),
]


def selftest(tier: str) -> int:
    from . import boot
    from .core import run_probes
    boot.setup()
    probes = [
        ("dry-run-ignored-with-force", _mutant(START, [("if not dry_run:", "if not dry_run or force:")])),
        ("force-wipes-the-directory", _mutant(START, [
            ("os.makedirs(component_path, exist_ok=force)",
             "import shutil; shutil.rmtree(component_path, ignore_errors=True); os.makedirs(component_path)")])),
        ("exists-check-on-python-file-only", _mutant(START, [
            ("if os.path.exists(component_path):", 'if os.path.exists(os.path.join(component_path, f"{name}.py")):'),
            ("os.makedirs(component_path, exist_ok=force)", "os.makedirs(component_path, exist_ok=True)")])),
        ("media-js-css-swapped", _mutant(START, [('css = "{name}/{css_filename}"', 'css = "{name}/{js_filename}"'),
                                                  ('js = "{name}/{js_filename}"', 'js = "{name}/{css_filename}"')])),
        ("custom-template-name-not-in-module", _mutant(START, [
            ('template_file = "{name}/{template_filename}"', 'template_file = "{name}/template.html"')])),
        ("registered-under-class-name", _mutant(START, [('@register("{name}")', '@register("{name.capitalize()}")')])),
        ("default-dir-relative-to-cwd", _mutant(START, [
            ('component_path = os.path.join(base_dir, "components", name)',
             'component_path = os.path.join("components", name)')])),
        ("error-leaves-empty-directory", _mutant(START, [
            ("            if os.path.exists(component_path):\n                if force:",
             "            if os.path.exists(component_path) and not force:\n"
             "                os.makedirs(os.path.join(component_path, '.tmp'), exist_ok=True)\n"
             "            if os.path.exists(component_path):\n                if force:")])),
        ("verbose-ignored", _mutant(START, [("            if verbose:\n                self.stdout.write(self.style.SUCCESS(",
                                             "            if False:\n                self.stdout.write(self.style.SUCCESS(")])),
        ("upgrade-file-not-truncated", _mutant(UPGRADE, [("f.truncate()", "pass")])),
        ("upgrade-path-option-ignored", _mutant(UPGRADE, [('if options["path"]:', 'if False:')])),
        ("upgrade-not-recursive", _mutant(UPGRADE, [
            ("for root, _, files in os.walk(dir_path):",
             "for root, _, files in list(os.walk(dir_path))[:1]:")])),
        ("upgrade-block-arguments-dropped", _mutant(UPGRADE, [("r'{% component \"\\1\" \\2%}'", "r'{% component \"\\1\" %}'")])),
        ("upgrade-first-end-tag-only", _mutant(UPGRADE, [
            ('r"{%\\s*endcomponent_block\\s*%}",\n                                r"{% endcomponent %}",\n'
             '                                updated_content,',
             'r"{%\\s*endcomponent_block\\s*%}",\n                                r"{% endcomponent %}",\n'
             '                                updated_content, count=1,')])),
        ("upgrade-inline-tags-not-closed", _mutant(UPGRADE, [('r"\\1{% endcomponent %}",', 'r"\\1",')])),
        ("upgrade-any-extension", _mutant(UPGRADE, [('if file.endswith((".html", ".py")):', "if True:")])),
        ("upgrade-html-extension-typo", _mutant(UPGRADE, [
            ('if file.endswith((".html", ".py")):', 'if file.endswith((".htm", ".py")):')])),
    ]

    def body(chk: Check) -> None:
        execute(chk, [(mc_start, ("st-main", ["alpha", "beta"], ["P", "B"], [1, 3], 2), {"opts": False, "deep_every": 4}),
                      (mc_start, ("st-wide", ["alpha"], ["P", "R", "B", "N"], [1, 4], 1), {}),
                      (mc_contents, ("st-contents", ALPHA, CORE, 2, 4), {}),
                      (mc_trees, ("st-trees", list(range(1, 10)), [1, 2, 3], 1), {}),
                      (validate_sessions, (40,), {})], ahead=4)

    rc = run_probes(PID, probes, body)

    # the proposed repairs (proposed_fixes/X05-*.diff) applied in memory: no unexplained failure may appear,
    # the repaired key must not occur any more, and with all of them nothing may fail, known or not
    from contextlib import ExitStack

    class Counting(Check):
        def __init__(self, *a, **k):
            super().__init__(*a, **k)
            self.keys: Dict[str, int] = {}

        def violation(self, case, detail, key=None):
            if key is not None:
                self.keys[key] = self.keys.get(key, 0) + 1
            super().violation(case, detail, key)

    KA, KB, KC, KD = ("closed-component-tag:endcomponent-added", "single-quoted-name:tag-not-upgraded",
                      "crlf-in-rewritten-file:converted-to-lf", "path-omitted-custom-dirs:created-in-base-components")
    combos = [("closed-tag repair", [(UPGRADE, FIX_KA)], [KA]),
              ("closed-tag + single-quote repair", [(UPGRADE, FIX_KA + FIX_KB)], [KA, KB]),
              ("crlf repair", [(UPGRADE, FIX_KC)], [KC]),
              ("COMPONENTS.dirs repair", [(START, FIX_KD)], [KD]),
              ("all repairs", [(UPGRADE, FIX_KA + FIX_KB + FIX_KC), (START, FIX_KD)], [KA, KB, KC, KD])]
    ok = True
    for label, mods, gone in combos:
        chk = Counting(PID, "quick", "other", silent=True)
        with ExitStack() as st:
            for modname, edits in mods:
                st.enter_context(_mutant(modname, edits)())
            body(chk)
        left = {k: n for k, n in chk.keys.items() if k in gone}
        good = chk.violations == 0 and not left and (label != "all repairs" or not chk.keys)
        ok = ok and good
        print(f"  {label} applied in memory: violations={chk.violations} repaired keys still seen={left} "
              f"other known-finding cases={sum(n for k, n in chk.keys.items() if k not in gone)} -> "
              f"{'clean' if good else 'NOT CLEAN'}")
    return rc if ok else 1


# ================================================================ replay
def replay(path: str) -> int:
    """Re-run one stored case on the current tree.  Transition / content / tree cases carry the expectation TLC
    exported; a session is driven again and validated by Trace_X05 again."""
    from . import boot
    boot.setup()
    d = json.load(open(path))
    case = d["case"]
    kind = case.get("kind")
    if kind == "start-transition":
        r = replay_start(case["row"])
        print(json.dumps(r, indent=1, default=repr))
        return 1 if r["v"] == "bad" else 0        # "dev": explained by a named deviation (see r["keys"])
    if kind == "upgrade-content":
        chk = Check(PID, "quick", "other", silent=True)
        replay_contents(chk, [case["row"]], case.get("ext", ".html"))
        print(json.dumps({"violations_not_explained_by_known_deviation": chk.violations}, indent=1))
        return 1 if chk.violations else 0
    if kind == "upgrade-tree":
        r = replay_tree(case["row"])
        print(json.dumps(r, indent=1, default=repr))
        return 1 if r["bad"] else 0
    if kind == "session":
        root = fresh_world()
        try:
            user: Set[PathT] = set()
            evs = []
            for c in case["commands"]:
                c = dict(c)
                if c["op"] == "write":
                    user.add(tuple(c["path"]))
                elif c["op"] == "rm":
                    user.discard(tuple(c["path"]))
                elif c["op"] == "upgrade":
                    c["user"] = set(user)
                ev = drive(root, [c])[0]
                if ev["op"] == "start":
                    user -= {tuple(f["path"]) for f in ev["files"] if f["changed"]}
                evs.append(ev)
        finally:
            shutil.rmtree(root, ignore_errors=True)
        rej, _ = validate([{"id": 1, "events": evs}])
        print(json.dumps({"verdict": [{"event": at, "clauses": cl} for _, at, cl in rej] or "ACCEPT"}, indent=1))
        return 1 if any(not c.startswith("dev:") for _, _, cl in rej for c in cl) else 0
    print("unknown case kind")
    return 2
