"""C02 - tag arguments reach Python with exactly the values they denote.

Specification: specs/TagArgs.tla (abstract argument lists, Denote, the layout relation Text,
Invalid, named deviations), bounded instance specs/MC_C02.tla, trace specification
specs/Trace_C02.tla.

spec -> code: TLC builds argument lists by actions (a bottom-up stack machine, so BFS enumerates
    every list inside the bounds exactly once) in eight configurations - V: one argument, nested
    literals; A: up to three arguments, shallow values; R: the rich leaf alphabet (strings holding
    syntax characters / quotes / `%}`, translations, nested {{ }} {% %} {# #} strings, filter
    chains with arguments, dotted lookups); I: exactly one documented-invalid construct; N / M: the
    value-sensitive alphabets (the property holds "against all context values"): variables and
    literals that resolve to None / False / 0 / "" / a failed lookup, and text holding the
    HTML-special characters & < > ' " (plain and marked safe), each as an argument, as keyword and
    aggregate value, as list item, as dict KEY and dict value, as item / key / value coming out of
    a `*` / `**` / `...` spread (variables and single-tag strings as operands), as filter argument,
    inside a single-tag nested string ("{{ amp }}": the original value, unescaped, None stays
    None) and inside a rendered nested string ("{{ amp }}!": what stock Django renders); T / U: the
    Python TYPE of container values (TagArgs!SeqKinds / MapKinds) - a spread takes a MAPPING (dict,
    OrderedDict, and the mappings that are no dict: MappingProxyType, ChainMap, UserDict) as
    keyword arguments (`...m`) / entries (`{**m}`) and any OTHER ITERABLE (list, tuple, range, a
    keys() view, empty ones) as positional arguments (`...it`) / items (`[*it]`), as Python does for
    f(*it, **m), [*it], {**m}; every type is the operand of every spread it fits (variable and
    single-tag string), stands alone and among other arguments, and is also passed NOT spread (then the
    receiver gets the object itself); the second context gives each variable another type of the
    same kind; W: nested strings that hold a STATEFUL stock tag (TagArgs!StatefulTpl: {% cycle %},
    {% ifchanged %} - their j-th evaluation within one render is valued by the j-th rendering within one
    stock render) - and
    exports every list with its text under each style of a pairwise covering array of layout
    knobs (TLC checks the coverage as an ASSUME) and with Denote(args).  Each text is placed in a
    probe tag built with @template_tag (records *args / **kwargs / flags) and in
    {% component "<probe>" ... %} (records get_context_data(*a, **kw)); in one layout per list
    also in the same component behind the shorthand tag formatter ({% <name> ... %}) and - for
    keyword-only lists - in {% slot "s" ... %} (a Python fill records the slot data).  Received
    values must equal the expected ones with equal types (SafeString-ness ignored).  Leaves are valued by
    stock Django: FilterExpression(canonical text).resolve(context); nested-template strings by
    a stock Lexer/Parser render.  Invalid lists must raise TemplateSyntaxError.
    Place: every tag stands behind {% load vf_c02_ext i18n l10n %} (TagArgs!Loaded; vf_c02_ext is a
    library of this check that is not a builtin); leaves and nested strings - single-tag and
    rendered - use filters / tags of those libraries in every argument position and mean what a
    stock parser that has seen the same {% load %} makes of them.
    Moment: the denotation is per context (TagArgs!DenoteIn; Ctx2 gives every variable another
    value).  Every compiled template is rendered more than once: the probe tag with both contexts
    in every layout and - in one layout per list - inside {% for it in its %} (four evaluations of
    one tag instance, the loop variable feeding filter arguments such as "k"|add:it), the
    component tag / slot with both contexts in one layout per list.  Every
    evaluation must hand over the values of ITS context / iteration.
    Neighbours: every tag of a template is a tag of its own (TagArgs!TogetherForms / DenoteTogether): each
    valid list is also replayed as 2 / 3 tags with the SAME argument text in one template - each in its own
    {% for %} loop, or bare one after the other - rendered with both contexts; every copy must hand over in
    every evaluation what the single tag does (the second loop starts the cycle again).  Lists of W: all
    four forms on the probe and the component tag in every layout; the other configurations: the probe tag as
    a pair in loops or (alternating with the case number) the component tag as a bare triple, in one layout per list.
code -> spec: a seeded random driver builds deeper / wider lists (over the syntax-sensitive and the
    value-sensitive leaves together) with random styles (knob values outside the covering array),
    renders them with its own text function, runs the real tags and
    records what they received; TLC (Trace_C02) checks for every record that the text is
    Text(args, style) of the specification and that the received values are Denote(args) with the
    recorded stock leaf values (one ACCEPT/REJECT per record) - for the first render with Ctx and for
    the second render of the same compiled template with Ctx2 (DenoteIn(Ctx2, args)).

Unspecified zones (not generated): a leading `:` in a key (`:href=`); the same keyword given twice
or by a spread and a keyword (docs: right-most wins, C11: TypeError); positional after keyword
arguments (C11); filter *arguments* in a dict-key / dict-spread position (inside a dict literal
the first `:` ends the key - documented restriction); filters applied to list/dict literals or
to nested-template strings; backslash escapes inside nested-template strings; spreading a value
of the wrong kind; keys containing `:` coming out of a spread dict; whitespace after `=`.
Set of outcomes instead of one: whitespace between `*` / `**` and a *literal* operand (`[* [1]]`,
`{** {"a": 1}}`) - documented for a variable operand only; the tag may be refused with
TemplateSyntaxError (the current scanner does, counted as zone:...:refused in the evidence), but
if it is accepted it must denote the same values.
`...[..]` / `...{..}` at top level is listed both as supported and as invalid in parse_tag's
docstring; the tests and the changelog use it, so it is generated as valid.
Container types: a mapping spread with `*` / an iterable that is no mapping spread with `**`, and
`...x` of a str / bytes / generator / set (order, exhaustion) are not generated (wrong kind or not
determined); `...m|filter` on the new types is not generated (known finding on the plain ones).
Values: dict literals follow a Python dict display (an entry whose key equals an earlier one - also
False == 0 - replaces its value, the earlier key stays); unhashable keys, spreading None or text, and
non-str keys in a dict spread into keyword arguments are not generated (wrong kind: unspecified).
"""
from __future__ import annotations

import json
import multiprocessing as mp
import os
import random
import re
import signal
import time
from pathlib import Path
from typing import Any, Dict, List, Optional, Tuple

from . import tlc
from .core import Check, MachineryError, workdir

PID = "C02"
RULE = ("TLC (MC_C02) enumerates by BFS every argument list inside the bounds of configurations V/A/R/I (syntax) "
        "and N/M (value-sensitive alphabets: None / falsy values, HTML-special text in every argument position) and "
        "T/U (containers by Python type - tuple, range, keys(), MappingProxyType, ChainMap, UserDict, OrderedDict - as "
        "operand of every spread and as plain values) and "
        "W (nested strings with stateful stock tags - cycle, ifchanged) and "
        "samples deeper ones with -simulate (S); every valid list is also replayed as 2 / 3 tags with the same "
        "argument text in one template (each in its own loop / bare), every copy compared with the single tag's "
        "expectation; each list is replayed on the probe tag and on the component tag "
        "in k layouts of a 15-row pairwise covering array (quick k=3, thorough k=5 - N/M: 3 -, rotating with the case number); "
        "every compiled template is rendered with two contexts that differ in every variable (probe tag: every "
        "layout, once inside a {% for %}; component / slot: one layout per list), behind a {% load %} of "
        "three libraries whose filters / tags the value alphabets use; "
        "random deeper lists are validated by Trace_C02 in both renders.  Non-trivial = anything but a single plain positional "
        "leaf; distinct by hash of the abstract argument list")
ASSUMPTIONS = [
    "the meaning of a leaf is FilterExpression(canonical text).resolve(context) of the installed Django; "
    "of a nested-template string the text a stock Lexer/Parser render produces",
    "all whitespace points of one kind share one value within a text (per-kind, not per-point layouts)",
    "dict results are compared as Python dicts (order-insensitive); SafeString counts as str",
    "two renders per compiled template (and two loop iterations) stand for 'rendered again with other data'; "
    "the loaded libraries are one custom library (a filter, a simple_tag), i18n and l10n",
    "context values: int, str (also with & < > ' \"), SafeString, None, bool, 0, '', lists and dicts of these "
    "(None / 0 / '' / text as dict keys), and the same items / entries held by a tuple, range, dict keys() view, "
    "OrderedDict, MappingProxyType, ChainMap, UserDict; no floats, lazy strings, callables, generators, sets or "
    "objects with attributes",
    "stateful nested tags: {% cycle %} and {% ifchanged %} of stock Django (state per node and render), loops of "
    "two items, up to three same-text tags per template; the random driver does not use them",
    "top-level `...[..]` / `...{..}` is valid (docstring is contradictory; tests and changelog use it)",
]
PROBE_TAG = "vfprobe"
EXT_LIB = "vf_c02_ext"
HDR_KEYS = ("ctx", "ctxs", "loopctxs", "loopvar", "loopover", "loaded")
PROBE_COMP = "vf_probe_c02"
SHORT_TAG = "vf_short_c02"
PATHS = ("probe", "comp", "short", "slot")

# name -> (MaxLeaves, MaxCont, MaxDepth, MaxWidth, MaxArgs, Rich, AllowInvalid)
CONFIGS = {
    "quick": {
        "V": (3, 2, 2, 2, 1, False, False),
        "A": (2, 1, 1, 2, 3, False, False),
        "R": (2, 1, 1, 2, 1, True, False),
        "I": (2, 2, 2, 2, 1, False, True),
    },
    "thorough": {
        "V": (4, 3, 2, 2, 1, False, False),
        "A": (3, 1, 1, 2, 3, False, False),
        "R": (2, 1, 1, 2, 2, True, False),
        "I": (2, 2, 2, 2, 1, False, True),
    },
    "selftest": {
        "V": (2, 2, 2, 2, 1, False, False),
        "A": (2, 1, 1, 2, 2, False, False),
        "R": (1, 1, 1, 1, 1, True, False),
        "I": (2, 1, 1, 2, 1, False, True),
    },
}
# Value-sensitive configurations (kept apart from CONFIGS, which C12 re-uses for layouts): the
# alphabets "vals" / "core" of MC_C02 - None / falsy values and HTML-special text in every
# argument position.  N: every such leaf alone, as the item of a list, as key and as value of a
# dict entry, as operand of every spread; M: the core of it in two-entry dicts / entry + spread /
# two-item lists.  The optional 8th number bounds the items of a list literal.  The random walks
# (S) use the small alphabet and the core together.
# T / U: the alphabets "types" / "tcore" - containers by Python TYPE (TagArgs!SeqKinds / MapKinds: tuple,
# range, keys() view; MappingProxyType, ChainMap, UserDict, OrderedDict) as operand of every spread and
# as plain values.  T: one argument (a leaf, a one-item list, a dict of up to two entries / spreads);
# U: several arguments without literals (a spread among other arguments).
VALUE_CONFIGS = {
    "quick": {
        "N": (2, 1, 1, 2, 1, "vals", False, 1),
        "M": (4, 1, 1, 2, 1, "core", False),
        "T": (2, 1, 1, 2, 1, "types", False, 1),
        "U": (2, 0, 1, 2, 2, "tcore", False),
        "W": (2, 1, 1, 2, 1, "state", False, 1),
    },
    "thorough": {
        "N": (2, 2, 2, 2, 1, "vals", False, 1),
        "M": (4, 1, 1, 2, 1, "core", False),
        "D": (3, 2, 2, 2, 1, "core", False),      # the core nested two levels deep
        "T": (2, 1, 1, 2, 1, "types", False),
        "U": (3, 0, 1, 2, 3, "tcore", False),
        "W": (2, 1, 1, 2, 2, "state", False, 1),
    },
    "selftest": {
        "N": (2, 1, 1, 2, 1, "vals", False, 1),
        "M": (3, 1, 1, 2, 1, "core", False),
        "T": (2, 1, 1, 2, 1, "types", False, 1),
        "W": (1, 1, 1, 1, 1, "state", False, 1),
    },
}
SIM_CONFIGS = {"S": (9, 5, 3, 3, 4, "mixed", False)}
NSTYLES = 15
JVM_SMALL = "-XX:TieredStopAtLevel=1 -XX:ParallelGCThreads=2"
_JVM = {"small": False}     # set by export_cases for the tiers whose TLC runs are short

# ------------------------------------------------------------------ environment
_ENV: Dict[str, Any] = {}


def env() -> Dict[str, Any]:
    """Probe tag + probe component, created once per process."""
    if _ENV:
        return _ENV
    from . import boot
    boot.setup()
    boot.fake_translations()      # every _() string gets a visible translation (seeded change C02-2)
    from django.template import Library, engines
    from django.template.base import Parser
    from django_components import Component, registry, template_tag

    rec: List[Any] = []
    lib = Library()

    @template_tag(lib, tag=PROBE_TAG, end_tag="end" + PROBE_TAG, allowed_flags=["only"])
    def vfprobe(node, context, *args, **kwargs):
        rec.append(("probe", args, kwargs, {k for k, v in node.flags.items() if v}))
        return "[P]"

    eng = engines["django"].engine
    eng.template_libraries["vf_c02"] = lib
    eng.template_builtins.append(lib)

    class VfProbeC02(Component):
        template = "[C]"

        def get_context_data(self, *args, **kwargs):
            rec.append(("comp", args, kwargs, None))
            return {}

    if PROBE_COMP in registry.all():
        registry.unregister(PROBE_COMP)
    registry.register(PROBE_COMP, VfProbeC02)

    # the same receiver behind the shorthand tag formatter ({% <name> ... %}), private registry
    from django_components import ComponentRegistry, RegistrySettings
    from django_components.tag_formatter import ShorthandComponentFormatter
    slib = Library()
    sreg = ComponentRegistry(library=slib, settings=RegistrySettings(tag_formatter=ShorthandComponentFormatter()))

    class VfShortC02(Component):
        template = "[H]"

        def get_context_data(self, *args, **kwargs):
            rec.append(("short", args, kwargs, None))
            return {}

    sreg.register(SHORT_TAG, VfShortC02)
    eng.template_libraries["vf_c02_short"] = slib
    eng.template_builtins.append(slib)

    def slot_fill(ctx, data, ref):      # Python-side fill of slot "s": receives the slot data
        rec.append(("slot", (), dict(data), None))
        return "[S]"

    # a library that is NOT a builtin: templates get it with {% load vf_c02_ext %} (TagArgs!Loaded).
    # What its filter and tag compute is irrelevant - stock Django gives the expected values.
    xlib = Library()

    @xlib.filter
    def vfwrap(value, arg="|"):
        return f"{arg}{value}{arg}"

    @xlib.simple_tag
    def vfjoin(*args):
        return "+".join(str(a) for a in args)

    eng.template_libraries[EXT_LIB] = xlib
    _ENV["slot_fill"] = slot_fill
    _ENV["Component"] = Component
    _ENV.update(rec=rec, engine=eng, parser=Parser([], builtins=eng.template_builtins), stock={}, ctx=None, cx={},
                preamble="", loop=None)
    return _ENV


def set_ctx(ctxspec: Dict[str, Any]) -> None:
    """One context only (context id 0)."""
    e = env()
    e["ctxspec"] = ctxspec
    e["ctx"] = {k: lit(v) for k, v in ctxspec.items()}
    e["cx"] = {0: e["ctx"]}
    e["stock"] = {}


def set_header(header: Dict[str, Any]) -> None:
    """Everything the specification's export header fixes: the contexts a compiled template is
    rendered with (ids 0, 1, ..), the contexts of the iterations of {% for it in its %} (ids
    (k, i)), the loop variable, and the libraries loaded in front of every tag."""
    e = env()
    set_ctx(header["ctx"])
    for k, c in enumerate(header.get("ctxs", [])):
        e["cx"][k] = {n: lit(v) for n, v in c.items()}
    for k, cs in enumerate(header.get("loopctxs", [])):
        for i, c in enumerate(cs):
            e["cx"][(k, i)] = {n: lit(v) for n, v in c.items()}
    e["ctx"] = e["cx"][0]
    e["loop"] = (header["loopvar"], header["loopover"]) if "loopvar" in header else None
    loaded = header.get("loaded", [])
    e["preamble"] = "{% load " + " ".join(loaded) + " %}" if loaded else ""
    # stock Django's view of the place where the tags stand: a parser that has seen the same {% load %}
    from django.template.base import Lexer, Parser
    sp = Parser(Lexer(e["preamble"]).tokenize(), libraries=e["engine"].template_libraries,
                builtins=e["engine"].template_builtins)
    sp.parse()
    e["parser"] = sp


def lit(v: Dict[str, Any]) -> Any:
    """Typed literal of the specification -> Python value."""
    t = v["t"]
    if t == "int":
        return v["i"]
    if t == "str":
        return v["s"]
    if t == "none":
        return None
    if t == "bool":
        return bool(v["b"])
    if t == "safe":
        from django.utils.safestring import mark_safe
        return mark_safe(v["s"])
    if t == "list":
        return [lit(x) for x in v["items"]]
    if t == "dict":
        return {lit(x["k"]): lit(x["v"]) for x in v["items"]}
    if t in SEQ_KINDS:
        return make_seq(t, [lit(x) for x in v["items"]])
    if t in MAP_KINDS:
        return make_map(t, [(lit(x["k"]), lit(x["v"])) for x in v["items"]])
    raise MachineryError(f"not a literal: {v}")


# Python types of container values (TagArgs!SeqKinds / MapKinds): kind name <-> Python object
SEQ_KINDS = ("list", "tuple", "range", "keys")
MAP_KINDS = ("dict", "odict", "mproxy", "chainmap", "userdict")


def make_seq(kind: str, items: List[Any]) -> Any:
    if kind == "list":
        return list(items)
    if kind == "tuple":
        return tuple(items)
    if kind == "keys":
        if len(dict.fromkeys(items)) != len(items):
            raise MachineryError(f"keys view with repeated items: {items}")
        return dict.fromkeys(items).keys()
    if kind == "range":
        if not items:
            return range(0)
        if items != list(range(items[0], items[0] + len(items))):
            raise MachineryError(f"not a range: {items}")
        return range(items[0], items[0] + len(items))
    raise MachineryError(f"unknown iterable kind {kind}")


def make_map(kind: str, pairs: List[Tuple[Any, Any]]) -> Any:
    import collections
    import types
    if len(dict(pairs)) != len(pairs):
        raise MachineryError(f"mapping with repeated keys: {pairs}")
    if kind == "dict":
        return dict(pairs)
    if kind == "odict":
        return collections.OrderedDict(pairs)
    if kind == "mproxy":
        return types.MappingProxyType(dict(pairs))
    if kind == "chainmap":      # the first entry in the first map, the others in the second
        return collections.ChainMap(dict(pairs[:1]), dict(pairs[1:]))
    if kind == "userdict":
        return collections.UserDict(dict(pairs))
    raise MachineryError(f"unknown mapping kind {kind}")


def kind_of(x: Any) -> Optional[str]:
    """Kind name of a container value by its exact Python type (None: not one of the modelled types)."""
    import collections
    import types
    return {list: "list", tuple: "tuple", range: "range", type({}.keys()): "keys",
            dict: "dict", collections.OrderedDict: "odict", types.MappingProxyType: "mproxy",
            collections.ChainMap: "chainmap", collections.UserDict: "userdict"}.get(type(x))


# ------------------------------------------------------------------ stock Django = meaning of leaves
def _dummy_template():
    e = env()
    if "dummy" not in e:
        from django.template import Template
        e["dummy"] = Template("")
    return e["dummy"]


def stock_leaf(text: str, cid: Any = 0) -> Any:
    """Value of `text` as a stock Django filter expression (after the same {% load %}) under
    context `cid`."""
    e = env()
    key = ("leaf", text, cid)
    if key not in e["stock"]:
        from django.template import Context
        from django.template.base import FilterExpression
        c = Context(dict(e["cx"][cid]))
        with c.bind_template(_dummy_template()):     # only gives access to engine.string_if_invalid
            e["stock"][key] = FilterExpression(text, e["parser"]).resolve(c)
    return e["stock"][key]


def stock_render(src: str, cid: Any = 0) -> str:
    """Text rendered by stock Django for a template source (plain Lexer + Parser, no Template
    class) that stands behind the same {% load %} as the tag."""
    e = env()
    key = ("render", src, cid)
    if key not in e["stock"]:
        from django.template import Context
        from django.template.base import Lexer, Parser
        p = Parser(Lexer(e["preamble"] + src).tokenize(), libraries=e["engine"].template_libraries,
                   builtins=e["engine"].template_builtins)
        c = Context(dict(e["cx"][cid]))
        with c.bind_template(_dummy_template()):
            e["stock"][key] = p.parse().render(c)
    return e["stock"][key]


NTH_SEP = "\x1f"


def stock_nth(src: str, k: int) -> List[str]:
    """What stock Django renders for `src` in the 1st, 2nd, .. iteration of {% for it in its %} within ONE
    render with context k (plain Lexer + Parser behind the same {% load %})."""
    e = env()
    key = ("nth", src, k)
    if key not in e["stock"]:
        from django.template import Context
        from django.template.base import Lexer, Parser
        var, over = e["loop"]
        full = e["preamble"] + "{% for " + var + " in " + over + " %}" + src + NTH_SEP + "{% endfor %}"
        p = Parser(Lexer(full).tokenize(), libraries=e["engine"].template_libraries, builtins=e["engine"].template_builtins)
        c = Context(dict(e["cx"][k]))
        with c.bind_template(_dummy_template()):
            e["stock"][key] = p.parse().render(c).split(NTH_SEP)[:-1]
    return e["stock"][key]


def value_of(v: Dict[str, Any], cid: Any = 0) -> Any:
    """Expected Python value of a Denote result (leaves valued by stock Django in context cid)."""
    t = v["t"]
    if t in ("int", "str", "none", "bool"):
        return lit(v)
    if t == "leaf":
        return stock_leaf("".join(v["e"]), cid)
    if t == "render":
        return stock_render("".join(v["e"]), cid)
    if t == "nthrender":      # stateful string: evaluation i of render k -> the i-th rendering within one stock render
        if isinstance(cid, tuple):
            return stock_nth("".join(v["e"]), cid[0])[cid[1]]
        return stock_render("".join(v["e"]), cid)
    if t == "list":
        out: List[Any] = []
        for x in v["items"]:
            if x.get("t") == "splice":
                out.extend(value_of(x["of"], cid))
            else:
                out.append(value_of(x, cid))
        return out
    if t == "dict":
        d: Dict[Any, Any] = {}
        for x in v["items"]:
            if x.get("t") == "splice":
                d.update(value_of(x["of"], cid))
            else:
                d[value_of(x["k"], cid)] = value_of(x["v"], cid)
        return d
    raise MachineryError(f"unknown value {v}")


def expected_call(exp: Dict[str, Any], cid: Any = 0) -> Tuple[List[Any], Dict[str, Any], set]:
    args: List[Any] = []
    for x in exp["args"]:
        if x.get("t") == "splice":
            args.extend(value_of(x["of"], cid))
        else:
            args.append(value_of(x, cid))
    kwargs: Dict[str, Any] = {}
    for x in exp["kwargs"]:
        if x.get("t") == "splice":
            kwargs.update(value_of(x["of"], cid))
        else:
            k = x["k"]
            kwargs[k["s"] if k["t"] == "name" else value_of(k, cid)] = value_of(x["v"], cid)
    return args, kwargs, set(exp["flags"])


def same(a: Any, b: Any) -> bool:
    """Equal values of equal types (str subclasses such as SafeString count as str)."""
    if isinstance(a, str) and isinstance(b, str):
        return str(a) == str(b)
    if type(a) is not type(b):
        return False
    if isinstance(a, (list, tuple)) or kind_of(a) in SEQ_KINDS:      # (equal types: checked above)
        a, b = list(a), list(b)
        return len(a) == len(b) and all(same(x, y) for x, y in zip(a, b))
    if isinstance(a, dict) or kind_of(a) in MAP_KINDS:
        a, b = dict(a), dict(b)
        if len(a) != len(b):
            return False
        for k, v in a.items():
            hit = [k2 for k2 in b if same(k, k2)]
            if len(hit) != 1 or not same(v, b[hit[0]]):
                return False
        return True
    return a == b


# ------------------------------------------------------------------ real code
def source(path: str, text: str, slash: bool, loop: bool = False, copies: int = 1) -> str:
    """{% load .. %} of the specification's libraries, then the tag (loop: inside {% for it in its %});
    copies: that many tags with the same text one after the other (each in its own loop)."""
    e = env()
    if path == "probe":
        tag = "{% " + PROBE_TAG + " " + text + " %}" + ("" if slash else "B{% end" + PROBE_TAG + " %}")
    elif path == "short":
        tag = "{% " + SHORT_TAG + " " + text + " %}" + ("" if slash else "{% end" + SHORT_TAG + " %}")
    elif path == "slot":
        tag = '{% slot "s" ' + text + " %}" + ("" if slash else "B{% endslot %}")
    else:
        tag = "{% component '" + PROBE_COMP + "' " + text + " %}" + ("" if slash else "{% endcomponent %}")
    if loop:
        var, over = e["loop"]
        tag = "{% for " + var + " in " + over + " %}" + tag + "{% endfor %}"
    return e["preamble"] + tag * copies + "T"


WANT_OUT = {"probe": "[P]", "comp": "[C]", "short": "[H]", "slot": "[S]"}


def observe_runs(path: str, text: str, slash: bool, runs: List[Any], loop: bool = False,
                 copies: int = 1) -> List[List[Dict[str, Any]]]:
    """Compile the text inside the receiver `path` ONCE and render that compiled template once per
    context id in `runs` (loop: the tag stands in {% for it in its %}).  -> per run, per evaluation
    of the tag (one, or one per loop item): {"o": "values", args, kwargs, flags} | {"o": "tse"} |
    {"o": "exc:<Class>"} | {"o": "malformed", ...}"""
    from django.template import Context, Template, TemplateSyntaxError
    e = env()
    rec = e["rec"]
    src = source(path, text, slash, loop, copies)

    def failed(ex, n):
        o = "tse" if isinstance(ex, TemplateSyntaxError) else "exc:" + type(ex).__name__
        return [{"o": o, "msg": str(ex)[:200]} for _ in range(n)]

    def evals(cid):
        return (len(e["cx"][cid][e["loop"][1]]) if loop else 1) * copies
    tpl = host = None
    try:
        if path == "slot":
            # a host component whose template is the {% slot %} tag; the fill is a Python function
            host = type("VfSlotHostC02", (e["Component"],), {"template": src})
        else:
            tpl = Template(src)
    except Exception as ex:  # noqa: BLE001 - the outcome class is what is observed
        return [failed(ex, evals(cid)) for cid in runs]
    res = []
    for cid in runs:
        del rec[:]
        n = evals(cid)
        try:
            c = Context(dict(e["cx"][cid]))
            out = host.render(slots={"s": e["slot_fill"]}, context=c) if host is not None else tpl.render(c)
        except Exception as ex:  # noqa: BLE001
            res.append(failed(ex, n))
            continue
        mine = [r for r in rec if r[0] == path]
        out = re.sub(r"<!-- _RENDERED [^>]*-->", "", out)
        if len(mine) != n or out != WANT_OUT[path] * n + "T":
            res.append([{"o": "malformed", "calls": len(mine), "out": out[:200]} for _ in range(n)])
        else:
            res.append([{"o": "values", "args": list(a), "kwargs": dict(kw), "flags": fl} for _, a, kw, fl in mine])
    return res


def observe(path: str, text: str, slash: bool) -> Dict[str, Any]:
    """One compile, one render with the first context."""
    return observe_runs(path, text, slash, [0])[0][0]


def compare(obs: Dict[str, Any], outcomes, exp: Optional[Tuple[List[Any], Dict[str, Any], set]], path: str) -> bool:
    if obs["o"] not in outcomes:
        return False
    if obs["o"] != "values":
        return True
    a, kw, fl = exp
    return same(obs["args"], a) and same(obs["kwargs"], kw) and (path != "probe" or obs["flags"] == fl)


def show(obs: Dict[str, Any]) -> Dict[str, Any]:
    d = dict(obs)
    for k in ("args", "kwargs", "flags"):
        if k in d:
            d[k] = repr(d[k])
    return d


def together_plan(forms: List[Dict[str, Any]], full: bool, first: bool, alt: int = 0) -> List[Tuple[str, int, bool]]:
    """Which templates with several same-text tags (TagArgs!TogetherForms) a layout is replayed in:
    lists over the stateful alphabet (full) in every form on the probe and the component tag in every
    layout; the others in their first layout - alternating with the case number (alt) the probe tag in
    the first form or the component tag in the second."""
    if not forms:
        return []
    if full:
        return [(p, f["n"], f["loop"]) for p in ("probe", "comp") for f in forms]
    if not first:
        return []
    f = forms[alt % 2 % len(forms)]
    return [("probe" if alt % 2 == 0 else "comp", f["n"], f["loop"])]


def check_case(case: Dict[str, Any], styles: List[Dict[str, Any]], sfrom: int,
               pick: Optional[List[int]] = None, form: Optional[bool] = None,
               forms: Optional[List[Dict[str, Any]]] = None, full: bool = False, alt: int = 0) -> List[Dict[str, Any]]:
    """Replay one exported case under the exported styles (`pick`: positions in case["texts"],
    default all); -> list of failures.  Every compiled template is rendered more than once:
    in the first replayed layout (form True) the probe tag stands in {% for it in its %} and is
    rendered with both contexts (four evaluations of one tag instance), the component tag and - for
    keyword-only lists - the slot are rendered with both contexts, the shorthand tag with the first;
    in the other layouts (form False) the probe tag with both contexts, the component tag with the first.
    Each evaluation must hand over what the arguments denote in ITS context (case["expects"][k],
    leaves valued by stock Django in that context / loop iteration)."""
    e = env()
    fails: List[Dict[str, Any]] = []
    outcome = "tse" if case["invalid"] else "values"
    expects = case.get("expects") or [case["expect"]]
    nctx = min(len(expects), len([k for k in e["cx"] if isinstance(k, int)]))
    can_loop = e["loop"] is not None and nctx > 1
    cache: Dict[Any, Any] = {}

    def exp(k, cid):
        if case["invalid"]:
            return None
        if cid not in cache:
            try:
                cache[cid] = expected_call(expects[k], cid)
            except Exception as ex:  # stock Django cannot value a leaf: the case is outside the model
                raise MachineryError(f"stock evaluation failed for {case['args']} in context {cid}: {ex!r}")
        return cache[cid]
    seen_first = False
    for j, syms in enumerate(case["texts"]):
        if pick is not None and j not in pick:
            continue
        st = styles[sfrom - 1 + j]
        text = "".join(syms)
        first = (not seen_first) if form is None else form
        seen_first = True
        both = list(range(nctx))
        plan = [("probe", both, first and can_loop), ("comp", both if first else [0], False)]
        if first:      # (the shorthand tag differs from the component tag in how its NAME is found: one context)
            plan += [("short", [0], False)] + ([("slot", both, False)] if case.get("slot") else [])
        plan = [(p, r, lp, 1) for p, r, lp in plan]
        if not case["invalid"]:     # several tags with the same text in one template: each denotes what it does alone
            plan += [(p, both, lp and can_loop, n) for p, n, lp in together_plan(forms or [], full, first, alt)
                     if can_loop or not lp]
        for path, runs, loop, copies in plan:
            res = observe_runs(path, text, st["slash"], runs, loop, copies)
            for k, obss in zip(runs, res):
                per = len(obss) // copies
                for ii, obs in enumerate(obss):
                    i = ii % per
                    cid = (k, i) if loop else k
                    if compare(obs, [outcome], exp(k, cid), path):
                        continue
                    if case["lenient"][j] and obs["o"] == "tse":     # unspecified zone: refusal is admissible
                        fails.append({"zone": "ws-before-literal-spread-operand"})
                        continue
                    key = None
                    for dev in (case.get("devs", []) if k == 0 and copies == 1 else []):   # deviations are stated for Ctx
                        if path not in dev["paths"]:
                            continue
                        dexp = expected_call(dev["expect"], cid) if "values" in dev["outcomes"] else None
                        if compare(obs, dev["outcomes"], dexp, path):
                            key = dev["name"]
                            break
                    fails.append({"path": path, "style": sfrom + j, "text": text, "key": key, "form": first,
                                  "render": {"ctx": k + 1, "loop_item": i + 1 if loop else None,
                                             "tags_in_template": copies, "tag": ii // per + 1},
                                  "expected": {"o": outcome, "call": repr(exp(k, cid))}, "observed": show(obs)})
    return fails


# ------------------------------------------------------------------ spec -> code
def write_cfg(path: Path, c: Tuple, sfrom: int, sto: int, invariants: List[str]) -> None:
    ml, mc, md, mw, ma, alpha, inv = c[:7]
    mlw = c[7] if len(c) > 7 else mw                             # optional 8th: items per list literal
    alpha = {True: "rich", False: "small"}.get(alpha, alpha)      # leaf alphabet of MC_C02
    path.write_text(
        "SPECIFICATION Spec\nCONSTANTS\n"
        f"  MaxLeaves = {ml}\n  MaxCont = {mc}\n  MaxDepth = {md}\n  MaxWidth = {mw}\n  MaxListWidth = {mlw}\n  MaxArgs = {ma}\n"
        f"  Alpha = \"{alpha}\"\n  AllowInvalid = {'TRUE' if inv else 'FALSE'}\n"
        f"  StyleFrom = {sfrom}\n  StyleTo = {sto}\n" + "".join(f"INVARIANT {i}\n" for i in invariants))


def _tlc_export(job):
    name, c, w, simulate, seed, depth = job
    cfg = Path(w) / f"mc_{name}.cfg"
    out = Path(w) / f"cases_{name}.ndjson"
    write_cfg(cfg, c, 1, NSTYLES, ["Export"])
    if out.exists():
        out.unlink()
    e = {"OUT": str(out)}
    if _JVM["small"]:
        # short single-worker runs, many at a time: keep each JVM small (C1 only, two GC threads) -
        # same wall time at about half the CPU
        e["_JAVA_OPTIONS"] = JVM_SMALL
    r = tlc.run("MC_C02", str(cfg), env=e, workers=1, simulate=simulate, seed=seed, depth=depth, timeout=3000)
    return name, r, str(out)


def _tlc_props(job):
    name, c, w, workers = job
    cfg = Path(w) / f"props_{name}.cfg"
    write_cfg(cfg, c, 1, NSTYLES, ["GeneratorAgrees", "SkeletonInvariant", "SerialIsLayout", "WellFormed", "LoopDenotes"])
    return name, tlc.run("MC_C02", str(cfg), workers=workers, timeout=3000)


def export_cases(tier: str, w: Path, with_props: bool = True, sim: bool = False, seed: int = 0,
                 lazy_props: bool = False):
    """Run TLC on every configuration of the tier (export runs with 1 worker each, in parallel;
    the specification-level invariants in separate runs).  -> {name: (TlcResult, path)}, props
    (lazy_props: an iterator of (name, (TlcResult, path)) that waits for one export at a time, and
    props is a function that waits for the invariant runs - TLC goes on while cases are replayed)."""
    from concurrent.futures import ThreadPoolExecutor
    _JVM["small"] = tier != "thorough"
    cfgs = dict(CONFIGS[tier])
    cfgs.update(VALUE_CONFIGS[tier])
    jobs = [(n, c, str(w), None, None, None) for n, c in cfgs.items()]
    if sim:
        # random walks of the same machine beyond the BFS bounds (small alphabets: with the rich ones
        # almost every successor is a PushLeaf and the walks rarely complete a list)
        n = 20000 if tier == "thorough" else 3000
        for i, (sn, sc) in enumerate(SIM_CONFIGS.items()):
            jobs.append((sn, sc, str(w), f"num={n}", seed + 1 + i, 40))
    ex = ThreadPoolExecutor(max_workers=11)
    # the specification-level invariants: every configuration in thorough, V and R in quick
    pc = {n: c for n, c in cfgs.items() if tier != "quick" or n in ("V", "R")}
    pf = [ex.submit(_tlc_props, (n, c, str(w), 2)) for n, c in pc.items()] if with_props else []
    futs = {j[0]: ex.submit(_tlc_export, j) for j in jobs}

    def one(name):
        _, r, out = futs[name].result()
        tlc.require_ok(r, f"MC_C02 export {name}")
        return r, out

    def props():
        try:
            return dict(f.result() for f in pf)
        finally:
            ex.shutdown(wait=True)
    if lazy_props:
        # the small exports first: their replay overlaps with the TLC runs that are still going on
        first = ("W", "T", "U", "M", "N", "S", "D", "I", "V", "A", "R")
        order = [n for n in first if n in futs] + [n for n in futs if n not in first]
        return ((n, one(n)) for n in order), props
    try:
        res = {n: one(n) for n in futs}
    except BaseException:
        ex.shutdown(wait=True, cancel_futures=True)
        raise
    return res, props()


def read_cases(path: str):
    header, cases = None, []
    with open(path, encoding="utf-8") as f:
        for line in f:
            if not line.strip():
                continue
            r = json.loads(line)
            if r["kind"] == "header":
                header = r
            else:
                cases.append(r)
    if header is None:
        raise MachineryError(f"no header line in {path}")
    return header, cases


_W: Dict[str, Any] = {}


def _init_worker(header, k):
    _W["header"] = header
    _W["k"] = k
    set_header(header)


def picks(idx: int, nst: int, k: Optional[int]) -> List[int]:
    """Which of the nst exported layouts case number idx is replayed in: all, or k of them
    rotating with the case number so that every layout is used equally often."""
    if k is None or k >= nst:
        return list(range(nst))
    return [(idx * k + j) % nst for j in range(k)]


def _work(chunk):
    out = []
    h = _W["header"]
    for idx, case in chunk:
        out.append((idx, check_case(case, h["styles"], h["from"], picks(idx, len(case["texts"]), _W["k"]),
                                    forms=h.get("together"), full=h.get("alpha") == "state", alt=idx)))
    return out


def replay_cases(chk: Check, header, cases, label: str, procs: int, k: Optional[int] = None) -> None:
    """Replay exported cases on the real code in worker processes."""
    idx = list(enumerate(cases))
    n = max(1, min(400, len(idx) // (procs * 4) + 1))
    chunks = [idx[i:i + n] for i in range(0, len(idx), n)]
    if procs <= 1:
        _init_worker(header, k)
        results = [_work(c) for c in chunks]
    else:
        ctx = mp.get_context("fork")
        with ctx.Pool(procs, initializer=_init_worker, initargs=(header, k)) as pool:
            results = pool.map(_work, chunks, chunksize=1)
    nfail = 0
    for res in results:
        for i, fails in res:
            case = cases[i]
            for f in fails:
                if "zone" in f:
                    chk.add("zone:" + f["zone"] + ":refused")
                    continue
                nfail += 1
                chk.violation({"kind": "replay", "config": label, "args": case["args"], "invalid": case["invalid"],
                               "style": f["style"], "path": f["path"], "text": f["text"], "form": f["form"],
                               "render": f["render"], "slash": header["styles"][f["style"] - 1]["slash"],
                               "slot": bool(case.get("slot")),
                               "together": header.get("together"), "full": header.get("alpha") == "state", "alt": i,
                               "hdr": {x: header[x] for x in HDR_KEYS if x in header},
                               "expect": case["expect"], "expects": case.get("expects"), "devs": case.get("devs", [])},
                              {"expected": f["expected"], "observed": f["observed"]}, key=f["key"])
    ntexts = sum(len(picks(i, len(c["texts"]), k)) for i, c in enumerate(cases))
    nslot = sum(1 for c in cases if c.get("slot"))
    chk.add("cases_replayed", len(cases))
    chk.add("texts_replayed", ntexts)
    # per case: first layout probe (in a loop) / comp (/ slot) with both contexts and short with the first, the
    # other layouts probe with both contexts and comp with the first
    chk.add("compiled_templates", 2 * ntexts + len(cases) + nslot)
    chk.add("real_renders", 5 * len(cases) + 2 * nslot + 3 * (ntexts - len(cases)))
    chk.add("tag_evaluations", 7 * len(cases) + 2 * nslot + 3 * (ntexts - len(cases)))
    chk.add("second_context_renders", 2 * len(cases) + nslot + (ntexts - len(cases)))
    # templates that hold several tags with the same argument text (TagArgs!TogetherForms), two renders each
    forms, full = header.get("together") or [], header.get("alpha") == "state"
    nvalid = sum(1 for c in cases if not c["invalid"])
    nvtexts = sum(len(picks(i, len(c["texts"]), k)) for i, c in enumerate(cases) if not c["invalid"])
    ntog = (nvtexts * 2 * len(forms) if full else nvalid) if forms else 0
    chk.add("same_text_tags_templates", ntog)
    chk.add("compiled_templates", ntog)
    chk.add("real_renders", 2 * ntog)


def nontrivial(case) -> bool:
    """More than a single plain leaf argument."""
    a = case["args"]
    return len(a) > 1 or (len(a) == 1 and a[0]["t"] != "flag" and (a[0]["t"] != "pos" or a[0]["v"]["t"] in
                                                                 ("list", "dict", "filt", "tpl", "trans")))


def header_only(w: Path) -> Dict[str, Any]:
    """The header line of the export (context, styles, string tables): the smallest configuration."""
    _, r, out = _tlc_export(("H", (1, 1, 1, 1, 1, False, False), str(w), None, None, None))
    tlc.require_ok(r, "MC_C02 header")
    return read_cases(out)[0]


def spec_to_code(chk: Check, tier: str, procs: int, with_props: bool = True, sim: bool = True,
                 k: Optional[int] = None, exports=None):
    """exports: what export_cases(.., lazy_props=True) returned, if the TLC runs were started before."""
    res, props = exports or export_cases(tier, workdir("c02mc"), with_props=with_props, sim=sim, seed=chk.seed,
                                         lazy_props=True)
    ph = chk.cov.setdefault("phase_wall_s", {})
    t0 = time.time()
    for name, (r, out) in res:
        ph["wait_" + name] = round(time.time() - t0, 1)
        t0 = time.time()
        header, cases = read_cases(out)
        if name in SIM_CONFIGS:     # simulation revisits states: one line per visit, keep distinct lists
            seen, uniq = set(), []
            for c in cases:
                ck = json.dumps(c["args"], sort_keys=True)
                if ck not in seen:
                    seen.add(ck)
                    uniq.append(c)
            cases = uniq
        if not cases:
            raise MachineryError(f"configuration {name} exported no case")
        chk.add("states", r.distinct)
        chk.add("transitions", r.generated)
        chk.cov.setdefault("cases_by_config", {})[name] = len(cases)
        chk.cov.setdefault("tlc_wall_s", {})[name] = round(r.wall_s, 1)
        for c in cases:
            chk.count(c["args"], nontrivial(c))
        mid = cases[len(cases) // 2]
        chk.sample({"config": name, "args": mid["args"], "text": "".join(mid["texts"][min(2, len(mid["texts"]) - 1)]),
                    "expect": mid["expect"], "invalid": mid["invalid"]}, limit=8)
        # the value-sensitive configurations in at most 3 layouts each (rotating like the others)
        replay_cases(chk, header, cases, name, procs, min(k, 3) if k and name in VALUE_CONFIGS[tier] else k)
        ph["replay_" + name] = round(time.time() - t0, 1)
        t0 = time.time()
    prs = props()
    ph["wait_props"] = round(time.time() - t0, 1)
    for name, r in prs.items():
        if r.violated:
            chk.violation({"kind": "spec-invariant", "config": name},
                          {"violated": r.violated, "tlc_tail": r.out.splitlines()[-40:]})
        else:
            tlc.require_ok(r, f"MC_C02 invariants {name}")
        chk.add("spec_invariant_states", r.distinct)
        chk.cov.setdefault("tlc_wall_s", {})["props_" + name] = round(r.wall_s, 1)
    return header


# ------------------------------------------------------------------ code -> spec
WS_RANDOM = ["", "", " ", "\n", "\t", "  ", " \n", "\r\n"]
SEP_RANDOM = [" ", "\n", "  ", "\n  ", "\t", " \n", "\r\n"]
WS_KNOBS = ["padl", "padr", "wo", "wc", "wbc", "wac", "wbk", "wak", "wbp", "wap", "wbf", "waf", "wst", "wtr"]


def V(n):
    return {"t": "var", "n": n}


def N(n):
    return {"t": "num", "n": n}


def S(i):
    return {"t": "str", "id": i}


def F(b, *fs):
    return {"t": "filt", "b": b, "fs": [{"n": f[0], "a": list(f[1:])} for f in fs]}


class Gen:
    """Seeded random argument lists in the abstract syntax of TagArgs (JSON form), respecting the
    unspecified zones listed in the module docstring.  It decides no expected value."""

    def __init__(self, rnd: random.Random, header: Dict[str, Any]):
        self.r = rnd
        self.nstr = len(header["strtab"])
        self.ntpl = len(header["tpltab"]) - len(header.get("stateful", []))      # (the stateful strings come last)
        self.tpltab = header["tpltab"]
        self.ctx = header["ctx"]
        self.ctxs = header.get("ctxs") or [header["ctx"]]

    # value-sensitive variables of the specification's context: None / falsy values, failed
    # lookups, text with HTML-special characters (plain and marked safe), containers holding them
    VAL_VARS = ["nn", "None", "f", "False", "True", "z", "es", "nope", "hs.1", "dh.u", "amp", "h", "sf", "hs", "dn", "dh", "it"]
    # containers by Python type (TagArgs!SeqKinds / MapKinds): iterables that are no list, mappings
    # that are no dict (SEQ_VARS / KWMAP_VARS: str keys only / MAP_VARS: any key), here as plain values
    SEQ_VARS = ["tp", "rg", "ks", "et"]
    KWMAP_VARS = ["mp", "cm", "ud", "od", "em"]
    MAP_VARS = ["mn"]

    def plain_leaf(self):
        r = self.r
        k = r.randrange(11)
        if k == 0:
            return V(r.choice(["x", "s", "xs", "ys", "e0", "d", "d2", "o.p.q", "xs.1", "o.p", "nope"]))
        if k == 9:
            return V(r.choice(self.VAL_VARS))
        if k == 10:
            return V(r.choice(self.VAL_VARS + self.SEQ_VARS + self.KWMAP_VARS + self.MAP_VARS))
        if k == 1:
            return N(r.choice(["42", "-1.5", "0", "7"]))
        if k in (2, 3):
            return S(r.randrange(1, self.nstr + 1))
        if k == 4:
            return {"t": "trans", "id": r.choice([1, 3, 4])}
        if k == 5:
            return {"t": "tpl", "id": r.randrange(1, self.ntpl + 1)}
        return self.filt()

    def filt(self):
        r = self.r
        base = r.choice([V("x"), V("s"), V("xs"), V("nope"), S(1), S(2), S(3), N("42"), {"t": "trans", "id": 1},
                         V("nn"), V("z"), V("es"), V("f"), V("amp"), V("h"), V("sf"), V("hs"), S(10), S(4), S(6)])
        fs = []
        for _ in range(r.randint(1, 3)):
            f = r.choice([("upper",), ("lower",), ("title",), ("length",), ("first",), ("safe",),
                          ("default", S(r.randrange(1, self.nstr + 1))), ("default", V("x")), ("add", N("2")),
                          ("add", V("x")), ("cut", S(4)), ("join", S(2)), ("default_if_none", {"t": "trans", "id": 1}),
                          ("yesno", S(2)), ("slice", S(9)),
                          ("default_if_none", V("amp")), ("default", V("nn")), ("default", V("h")), ("escape",),
                          ("last",), ("force_escape",),
                          # arguments that differ from render to render / iteration to iteration
                          ("add", V("it")), ("default", V("amp")), ("add", V("s")),
                          # filters of the loaded libraries
                          ("vfwrap",), ("vfwrap", V("s")), ("unlocalize",)])
            fs.append(f)
        return F(base, *fs)

    def key_leaf(self):
        r = self.r
        k = r.randrange(8)
        if k >= 6:      # keys that resolve to None / a falsy value / text with HTML-special characters
            return r.choice([V("nn"), V("None"), V("False"), V("z"), V("es"), S(6), V("hs.1"), V("amp"), V("h"), V("sf"),
                             S(10), F(V("h"), ("upper",)), F(V("hs"), ("last",))]
                            + [{"t": "tpl", "id": i} for i in (9, 10, 11, 14, 21, 22, 23, 26)]
                            + [F(V("amp"), ("vfwrap",)), F(S(4), ("vfwrap",), ("upper",))])
        if k < 3:
            return S(r.choice([2, 4, 5, 6, 7]))
        if k == 3:
            return r.choice([V("x"), V("s"), N("42"), {"t": "trans", "id": 1}, {"t": "tpl", "id": 7}])
        return F(r.choice([S(4), S(5), V("s")]), *[(r.choice(["upper", "lower", "title"]),) for _ in range(r.randint(1, 2))])

    def list_operand(self, depth):
        r = self.r
        k = r.randrange(4)
        if k == 0 and depth > 0:
            return self.lst(depth - 1)
        if k == 1:
            return F(V("xs"), ("slice", S(9)))
        if k == 2:      # an iterable of another Python type than list
            return r.choice([V(n) for n in self.SEQ_VARS] + [{"t": "tpl", "id": 29}])
        return r.choice([V("xs"), V("ys"), V("e0"), V("hs"), {"t": "tpl", "id": 16}])

    def dict_operand(self, depth, plain=False):
        """plain: the entries become keyword arguments (every key a str)."""
        r = self.r
        if r.randrange(3) == 0 and depth > 0:
            return self.dct(depth - 1, plain)
        if r.randrange(3) == 0:      # a mapping of another Python type than dict
            return r.choice([V(n) for n in self.KWMAP_VARS] + [{"t": "tpl", "id": 30}]
                            + ([] if plain else [V(n) for n in self.MAP_VARS]))
        return r.choice([V("d"), V("d2"), V("dh"), {"t": "tpl", "id": 18}]
                        + ([] if plain else [V("dn"), {"t": "tpl", "id": 17}]))

    def value(self, depth):
        r = self.r
        k = r.randrange(10)
        if depth > 0 and k < 3:
            return self.lst(depth - 1)
        if depth > 0 and k < 6:
            return self.dct(depth - 1)
        return self.plain_leaf()

    def lst(self, depth):
        r = self.r
        items = []
        for _ in range(r.choice([0, 1, 1, 2, 2, 3, 4])):
            if r.randrange(5) == 0:
                items.append({"t": "spread", "tok": "*", "v": self.list_operand(depth)})
            else:
                items.append(self.value(depth))
        return {"t": "list", "items": items}

    def dct(self, depth, plain=False):
        r = self.r
        items = []
        for _ in range(r.choice([0, 1, 1, 2, 2, 3, 4])):
            if r.randrange(5) == 0:
                items.append({"t": "spread", "tok": "**", "v": self.dict_operand(depth, plain)})
            else:
                k = S(r.choice([4, 5])) if plain else self.key_leaf()
                items.append({"t": "pair", "k": k, "v": self.value(depth)})
        return {"t": "dict", "items": items}

    def lit_keys(self, v, strtab):
        if v["t"] == "tpl":
            v = V(self.tpltab[v["id"] - 1]["inner"][0])
        if v["t"] == "var":
            return {e["k"]["s"] for c in self.ctxs for e in c[v["n"]]["items"] if e["k"]["t"] == "str"}
        if v["t"] == "filt":
            return self.lit_keys(V("d"), strtab) | self.lit_keys(V("d2"), strtab)
        out = set()
        for it in v["items"]:
            out |= self.lit_keys(it["v"], strtab) if it["t"] == "spread" else {strtab[it["k"]["id"] - 1]["dq"]}
        return out

    def args(self, strtab, depth):
        r = self.r
        out, used, agg_used, kw_seen, flag = [], set(), set(), False, False
        kwnames = ["a", "b_1", "@c-d.e#f", "data-x", "z9", "x-on:click".replace(":", "."), "#id"]
        for _ in range(r.randint(1, 5)):
            k = r.randrange(10)
            if k == 0 and not flag:
                out.append({"t": "flag", "n": "only"})
                flag = True
            elif k in (1, 2) and not kw_seen:
                v = self.value(depth)
                if v == V("only"):
                    continue
                out.append({"t": "pos", "v": v})
            elif k == 3 and not kw_seen:
                out.append({"t": "spread", "tok": "...", "v": self.list_operand(depth)})
            elif k == 4:
                v = self.dict_operand(depth, plain=True) if r.randrange(4) else F(V("d2"), ("default", V("d")))
                keys = self.lit_keys(v, strtab)
                if keys & used:
                    continue
                used |= keys
                kw_seen = True
                out.append({"t": "spread", "tok": "...", "v": v})
            elif k in (5, 6):
                pre, key = r.choice([("attrs", "class"), ("attrs", "@click.x"), ("attrs", "data-y"), ("g", "h:i"), ("g", "j")])
                if pre in used or (pre, key) in agg_used:
                    continue
                agg_used.add((pre, key))
                kw_seen = True
                out.append({"t": "agg", "pre": pre, "key": key, "v": self.value(depth) if r.randrange(8) else V("only")})
            else:
                name = r.choice(kwnames)
                if name in used or name in {p for p, _ in agg_used}:
                    continue
                used.add(name)
                kw_seen = True
                out.append({"t": "kw", "key": name, "v": self.value(depth) if r.randrange(12) else V("only")})
        if not out:
            out.append({"t": "pos", "v": self.plain_leaf()})
        used_pre = {p for p, _ in agg_used}
        if used_pre & used:
            return self.args(strtab, depth)
        return out

    def make_invalid(self, args):
        """Insert one documented-invalid construct."""
        r = self.r
        k = r.randrange(6)
        x = r.choice([V("xs"), V("d")])
        if k == 0:
            bad = {"t": "pos", "v": {"t": "badfilt", "b": V("x"), "tok": r.choice(["...", "*", "**"]), "n": "upper"}}
        elif k == 1:
            bad = {"t": "kw", "key": "q1", "v": {"t": "list", "items": [N("1"), {"t": "spread", "tok": r.choice(["...", "**"]), "v": x}]}}
        elif k == 2:
            bad = {"t": "kw", "key": "q1", "v": {"t": "dict", "items": [{"t": "spread", "tok": r.choice(["...", "*"]), "v": x}]}}
        elif k == 3:
            bad = {"t": "kw", "key": "q1", "v": {"t": "dict", "items": [
                {"t": "pair", "k": S(4), "v": {"t": "spread", "tok": r.choice(["**", "...", "*"]), "v": V("d")}}]}}
        elif k == 4:
            bad = {"t": "kw", "key": "q1", "v": {"t": "dict", "items": [
                {"t": "pair", "k": {"t": "spread", "tok": r.choice(["**", "..."]), "v": V("d")}, "v": S(1)}]}}
        else:
            bad = {"t": "kwspread", "key": "q1", "tok": "...", "v": x}
        if bad["t"] == "pos":
            return [bad] + args
        return args + [bad]

    def style(self):
        r = self.r
        st = {k: r.choice(WS_RANDOM) for k in WS_KNOBS}
        st.update(sep=r.choice(SEP_RANDOM), trail=r.random() < 0.4, q=r.choice(["dq", "sq"]), slash=r.random() < 0.5)
        return st


def text_of(args, st, strtab, tpltab) -> List[str]:
    """The driver's own rendering of (args, style); TLC checks it against Text(args, style)."""
    def w(x):
        return [x] if x else []
    q = '"' if st["q"] == "dq" else "'"

    def strsyms(i):
        return [q, strtab[i - 1][st["q"]], q]

    def leaf(l):
        t = l["t"]
        if t in ("var", "num"):
            return [l["n"]]
        if t == "str":
            return strsyms(l["id"])
        if t == "trans":
            return ["_("] + w(st["wtr"]) + strsyms(l["id"]) + w(st["wtr"]) + [")"]
        if t == "tpl":
            e = tpltab[l["id"] - 1]
            return [e["q"], e["c"], e["q"]]
        if t == "badfilt":
            return leaf(l["b"]) + ["|", l["tok"], l["n"]]
        out = leaf(l["b"])
        for f in l["fs"]:
            out += w(st["wbp"]) + ["|"] + w(st["wap"]) + [f["n"]]
            if f["a"]:
                out += w(st["wbf"]) + [":"] + w(st["waf"]) + leaf(f["a"][0])
        return out

    def body(items):
        out = w(st["wo"])
        if not items:
            return out
        for i, it in enumerate(items):
            if i:
                out += w(st["wbc"]) + [","] + w(st["wac"])
            out += val(it)
        if st["trail"]:
            out += w(st["wbc"]) + [","]
        return out + w(st["wc"])

    def val(v):
        t = v["t"]
        if t == "list":
            return ["["] + body(v["items"]) + ["]"]
        if t == "dict":
            return ["{"] + body(v["items"]) + ["}"]
        if t == "spread":
            return [v["tok"]] + ([] if v["tok"] == "..." else w(st["wst"])) + val(v["v"])
        if t == "pair":
            return val(v["k"]) + w(st["wbk"]) + [":"] + w(st["wak"]) + val(v["v"])
        return leaf(v)

    out = w(st["padl"])
    for i, a in enumerate(args):
        if i:
            out.append(st["sep"])
        t = a["t"]
        if t == "pos":
            out += val(a["v"])
        elif t == "kw":
            out += [a["key"], "="] + val(a["v"])
        elif t == "agg":
            out += [a["pre"], ":", a["key"], "="] + val(a["v"])
        elif t == "spread":
            out += val(a)
        elif t == "kwspread":
            out += [a["key"], "="] + val({"t": "spread", "tok": a["tok"], "v": a["v"]})
        else:
            out.append(a["n"])
    if st["slash"]:
        out += [st["sep"], "/"] if args else ["/"]
    return out + w(st["padr"])


def typed(x: Any) -> Dict[str, Any]:
    """Python value -> typed value of Trace_C02."""
    if x is None:
        return {"t": "none"}
    if isinstance(x, bool):
        return {"t": "bool", "b": x}
    if isinstance(x, int):
        return {"t": "int", "i": x} if -2**31 < x < 2**31 else {"t": "other", "s": repr(x)}
    if isinstance(x, float):
        return {"t": "float", "s": repr(x)}
    if isinstance(x, str):
        return {"t": "str", "s": str(x)}
    k = kind_of(x)
    if k in SEQ_KINDS:
        return {"t": k, "items": [typed(y) for y in x]}
    if k in MAP_KINDS:
        return {"t": k, "items": [{"k": typed(kk), "v": typed(v)} for kk, v in x.items()]}
    return {"t": "other", "s": type(x).__name__ + ":" + repr(x)}


def leaves_of(args, st_canon, strtab, tpltab):
    """(kind, canonical symbols) of every leaf whose stock value Denote can refer to."""
    out = []

    def walk(v):
        t = v["t"]
        if t in ("list", "dict"):
            for it in v["items"]:
                walk(it)
        elif t == "spread":
            walk(v["v"])
        elif t == "pair":
            walk(v["k"])
            walk(v["v"])
        elif t == "tpl":
            e = tpltab[v["id"] - 1]
            out.append(("leaf", list(e["inner"])) if e["single"] else ("render", [e["c"]]))
        elif t != "badfilt":
            out.append(("leaf", text_of([{"t": "pos", "v": v}], st_canon, strtab, tpltab)))
    for a in args:
        if a["t"] != "flag":
            walk(a["v"])
    return out


def slot_applies(args, ctxspec, tpltab=None) -> bool:
    """Whether the driver feeds the list to {% slot %} (keyword-only lists); TLC checks the choice
    against SlotApplies(args)."""
    for a in args:
        if a["t"] in ("kw", "agg", "kwspread"):
            continue
        if a["t"] == "spread" and a["tok"] == "...":
            v = a["v"]["b"] if a["v"]["t"] == "filt" else a["v"]
            if v["t"] == "tpl" and tpltab is not None:
                e = tpltab[v["id"] - 1]
                if e["single"] and len(e["inner"]) == 1 and e["inner"][0] in ctxspec:
                    v = V(e["inner"][0])
            if v["t"] == "dict" or (v["t"] == "var" and ctxspec.get(v["n"], {}).get("t") in MAP_KINDS):
                continue
        return False
    return True


def obs_record(obs: Dict[str, Any]) -> Dict[str, Any]:
    if obs["o"] != "values":
        return {"o": obs["o"], "args": [], "kwargs": [], "flags": []}
    return {"o": "values", "args": [typed(x) for x in obs["args"]],
            "kwargs": [{"k": typed(k), "v": typed(v)} for k, v in obs["kwargs"].items()],
            "flags": sorted(obs["flags"] or [])}


def leaf_values(args, header, cid) -> List[Dict[str, Any]]:
    """Stock values (context cid) of the leaves Denote can refer to; raises if stock Django does."""
    lv = []
    for kind, can in dict.fromkeys((k, tuple(c)) for k, c in leaves_of(args, header["canon"], header["strtab"],
                                                                       header["tpltab"])):
        val = stock_leaf("".join(can), cid) if kind == "leaf" else stock_render("".join(can), cid)
        lv.append({"kind": kind, "canon": list(can), "val": typed(val)})
    return lv


NA = {"o": "n/a", "args": [], "kwargs": [], "flags": []}


def observe_record(rec: Dict[str, Any], args, text: str, slash: bool, header) -> None:
    """Fill rec[path] (first render, Ctx) and rec["r2"][path] (second render of the same compiled
    template, Ctx2) for every receiver."""
    for path in PATHS:
        if path == "slot" and not slot_applies(args, header["ctx"], header["tpltab"]):
            rec[path], rec["r2"][path] = dict(NA), dict(NA)
        else:
            r1, r2 = observe_runs(path, text, slash, [0, 1])
            rec[path], rec["r2"][path] = obs_record(r1[0]), obs_record(r2[0])


def record_traces(header, seed: int, n: int, depth: int) -> List[Dict[str, Any]]:
    set_header(header)
    rnd = random.Random(seed)
    g = Gen(rnd, header)
    strtab, tpltab = header["strtab"], header["tpltab"]
    out = []
    guard = 0
    while len(out) < n:
        guard += 1
        if guard > 20 * n + 100:
            raise MachineryError("random driver cannot produce enough evaluable argument lists")
        args = g.args(strtab, rnd.randint(0, depth))
        if rnd.random() < 0.15:
            args = g.make_invalid(args)
        st = g.style()
        syms = text_of(args, st, strtab, tpltab)
        text = "".join(syms)
        try:
            lv, lv2 = leaf_values(args, header, 0), leaf_values(args, header, 1)
        except Exception:  # noqa: BLE001 - stock Django itself raises on a leaf (e.g. 7|first): no meaning, skip
            continue
        rec = {"id": len(out) + 1, "args": args, "style": st, "text": syms, "lv": lv, "r2": {"lv": lv2}}
        observe_record(rec, args, text, st["slash"], header)
        out.append(rec)
    return out


def code_to_spec(chk: Check, header, ntraces: int, depth: int, batch: int = 400, later: Optional[List] = None) -> None:
    """later: a list that collects the reports (violations, samples) instead of making them - the
    caller makes them after those of the exhaustive part, whose cases are the smaller ones."""
    def report(what, *a, **kw):
        if later is None:
            getattr(chk, what)(*a, **kw)
        else:
            later.append((what, a, kw))
    w = workdir("c02tr")
    cfg = w / "trace.cfg"
    cfg.write_text("SPECIFICATION TrSpec\n")
    total = 0
    nb = 0
    while total < ntraces:
        n = min(batch, ntraces - total)
        traces = record_traces(header, chk.seed * 7907 + 2 + nb, n, depth)
        f = w / f"traces_{nb}.ndjson"
        tlc.write_ndjson(f, traces)
        r = tlc.require_ok(tlc.run("Trace_C02", str(cfg), env={"IN": str(f)}, workers=1), "Trace_C02")
        v = _verdicts(r, len(traces))
        for tid, st in v.items():
            t = traces[tid - 1]
            text = "".join(t["text"])
            if st is None:
                chk.count(t["args"], True)
                continue
            chk.count(t["args"], True)
            for (what, rn), status in zip([("layout", 1)] + [(p, 1) for p in PATHS] + [(p, 2) for p in PATHS], st):
                if status == "ok":
                    continue
                key = status[4:] if status.startswith("dev:") else None
                if what == "layout":
                    raise MachineryError(f"driver text is not the specification's layout of {t['args']} / {t['style']}")
                src = t if rn == 1 else t["r2"]
                report("violation", {"kind": "trace", "args": t["args"], "style": t["style"], "text": text,
                                     "path": what, "render": rn, "hdr": {x: header[x] for x in HDR_KEYS if x in header}},
                       {"status": status, "observed": src[what], "stock_leaves": src["lv"]}, key=key)
        report("sample", {"trace": {"text": "".join(traces[0]["text"]), "probe": traces[0]["probe"]}}, limit=10)
        total += n
        nb += 1
    chk.add("traces_validated_against_impl", total)


def _trace_job(job):
    """code -> spec in a process of its own (it goes on while the exported cases are replayed):
    -> the reports and counts for the parent's Check."""
    from . import core
    seed, ntraces, depth, _JVM["small"] = job
    n0 = len(core._workdirs)
    try:
        class Collect:          # what code_to_spec uses of a Check
            def __init__(self):
                self.seed, self.counts, self.adds = seed, [], {}

            def count(self, case, nontrivial=True):
                self.counts.append(case)

            def add(self, key, n=1):
                self.adds[key] = self.adds.get(key, 0) + n
        col = Collect()
        later: List[Any] = []
        t0 = time.time()
        code_to_spec(col, header_only(workdir("c02th")), ntraces, depth, later=later)
        return {"later": later, "counts": col.counts, "adds": col.adds, "wall": round(time.time() - t0, 1)}
    finally:
        import shutil
        for d in core._workdirs[n0:]:       # this process leaves through os._exit: no atexit clean-up
            shutil.rmtree(d, ignore_errors=True)


def _verdicts(r, n: int) -> Dict[int, Optional[List[str]]]:
    """id -> None (ACCEPT) | statuses: layout, the four receivers in the first render, the four in the second."""
    out: Dict[int, Optional[List[str]]] = {}
    for line in r.out.splitlines():
        m = re.match(r'"ACCEPT (\d+)"$', line)
        if m:
            out[int(m.group(1))] = None
        m = re.match(r'"REJECT (\d+)((?: \S+){9})"$', line)
        if m:
            out[int(m.group(1))] = m.group(2).split()
    if len(out) != n:
        raise MachineryError(f"Trace_C02: {len(out)} verdicts for {n} traces\n" + "\n".join(r.out.splitlines()[-40:]))
    return out


def run(tier: str) -> int:
    env()
    chk = Check(PID, tier, "model_checking")
    w = workdir("c02mc")
    # The random driver records and validates its traces in a process of its own.  It is forked FIRST:
    # a process forked while a thread is starting a TLC run inherits the write ends of that run's pipes
    # and keeps them open for as long as it lives - the thread would never see the end of TLC's output.
    tp = mp.get_context("fork").Pool(1)
    try:
        tr = tp.apply_async(_trace_job, ((chk.seed, 600 if tier == "quick" else 6000, 3 if tier == "quick" else 4,
                                          tier != "thorough"),))
        # all TLC runs start now
        exports = export_cases(tier, w, sim=True, seed=chk.seed, lazy_props=True)
        spec_to_code(chk, tier, procs=8, k=3 if tier == "quick" else 5, exports=exports)
        t0 = time.time()
        res = tr.get(timeout=3000)
    finally:
        tp.terminate()
    chk.cov["phase_wall_s"].update(wait_traces=round(time.time() - t0, 1), traces=res["wall"])
    for case in res["counts"]:
        chk.count(case, True)
    for key, n in res["adds"].items():
        chk.add(key, n)
    for what, a, kw in res["later"]:
        getattr(chk, what)(*a, **kw)
    chk.cov["exhaustive"] = True
    chk.cov["rule"] = RULE
    chk.assumptions += ASSUMPTIONS
    return chk.finish()


# ------------------------------------------------------------------ replay of a stored violation
def replay(path: str) -> int:
    env()
    d = json.load(open(path))
    case = d["case"]
    hdr = case.get("hdr") or {"ctx": case["ctx"]}      # (files written before the second context existed)
    kind = case.get("kind")
    if kind == "replay":
        set_header(hdr)
        fake = {"args": case["args"], "invalid": case["invalid"], "texts": [[case["text"]]], "expect": case["expect"],
                "expects": case.get("expects"), "devs": case.get("devs", []), "lenient": [False],
                "slot": case.get("slot", case["path"] == "slot")}
        styles = [{"slash": case.get("slash", case["text"].rstrip().endswith("/"))}]
        fails = [f for f in check_case(fake, styles, 1, form=case.get("form"), forms=case.get("together"),
                                       full=bool(case.get("full")), alt=case.get("alt", 0)) if f.get("path") == case["path"]]
        print(json.dumps({"text": case["text"], "path": case["path"], "failures": fails}, indent=1, default=repr))
        return 1 if fails else 0
    if kind == "trace":
        st = case["style"]
        w = workdir("c02rp")
        header = header_only(w)
        set_header(header)
        rec = {"id": 1, "args": case["args"], "style": st,
               "text": text_of(case["args"], st, header["strtab"], header["tpltab"]),
               "lv": leaf_values(case["args"], header, 0), "r2": {"lv": leaf_values(case["args"], header, 1)}}
        observe_record(rec, case["args"], case["text"], st["slash"], header)
        now = rec if case.get("render", 1) == 1 else rec["r2"]
        print(json.dumps({"text": case["text"], "path": case["path"], "render": case.get("render", 1),
                          "observed_now": now[case["path"]], "recorded": d["detail"]}, indent=1, default=repr))
        f = w / "one.ndjson"
        tlc.write_ndjson(f, [rec])
        cfg = w / "trace.cfg"
        cfg.write_text("SPECIFICATION TrSpec\n")
        r = tlc.require_ok(tlc.run("Trace_C02", str(cfg), env={"IN": str(f)}, workers=1), "Trace_C02")
        v = _verdicts(r, 1)[1]
        print("TLC verdict:", v or "ACCEPT")
        return 0 if v is None else 1
    print(f"unknown case kind {kind!r}")
    return 2


# ---- selftest probes on the Python type of a spread operand: mapping -> keywords / entries, any other
# iterable -> positionals / items.  Faithful copies of the library functions with one type test narrowed
# (variant None: the unchanged behaviour).
def probe_top_spread(variant: Optional[str]):
    import django_components.util.template_tag as ttag
    from collections.abc import Iterable, Mapping

    def resolve_params(tag, params, context):
        out = []
        for p in params:
            v = p.value.resolve(context)
            if not p.value.spread:
                out.append(ttag.TagParam(key=p.key, value=v))
                continue
            if p.key:
                raise ValueError(f"Cannot spread a value onto a key: {p.key}")
            if variant == "dict-only":            # every mapping that is no dict is iterated: its keys become positionals
                is_map = isinstance(v, dict)
            elif variant == "list-or-mapping":    # whatever is no list / tuple is taken for a mapping
                is_map = isinstance(v, Mapping) or not isinstance(v, (list, tuple))
            else:
                is_map = isinstance(v, Mapping)
            if is_map:
                out.extend(ttag.TagParam(key=k, value=x) for k, x in v.items())
            elif isinstance(v, Iterable):
                out.extend(ttag.TagParam(key=None, value=x) for x in v)
            else:
                raise ValueError(f"Cannot spread non-iterable value: '{p.value.serialize()}' resolved to {v}")
        if tag == "html_attrs":
            out = ttag.merge_repeated_kwargs(out)
        return ttag.process_aggregate_kwargs(out)
    return resolve_params


def probe_struct_spread(variant: Optional[str]):
    import django_components.util.tag_parser as tp
    from django.template import TemplateSyntaxError

    def resolve(self, context):
        self.compile()
        if self.type == "simple":
            value = self.entries[0]
            if not isinstance(value, tp.TagValue):
                raise TemplateSyntaxError("Malformed tag: simple value is not a TagValue")
            return value.resolve(context)
        if self.type == "list":
            out: List[Any] = []
            for entry in self.entries:
                v = entry.resolve(context)
                if isinstance(entry, tp.TagValueStruct) and entry.spread:
                    if not entry.type == "list":
                        raise TemplateSyntaxError("Malformed tag: cannot spread non-list value into a list")
                    out.extend(v)
                elif isinstance(entry, tp.TagValue) and entry.is_spread:
                    if variant == "list-only" and not isinstance(v, list):
                        out.append(v)             # "not a list: a single item"
                    else:
                        out.extend(v)
                else:
                    out.append(v)
            return out
        res: Dict[Any, Any] = {}
        pair: List[Any] = []
        for entry in self.entries:
            v = entry.resolve(context)
            if (isinstance(entry, tp.TagValueStruct) and entry.spread) or (isinstance(entry, tp.TagValue) and entry.is_spread):
                if pair:
                    raise TemplateSyntaxError("Malformed dict: spread operator cannot be used on the position of a dict value")
                if variant == "dict-only" and not isinstance(v, dict):
                    res.update(dict.fromkeys(v))  # "not a dict: an iterable of keys"
                else:
                    res.update(v)
            else:
                pair.append(v)
            if len(pair) == 2:
                res[pair[0]] = pair[1]
                pair = []
        return res
    return resolve


# ------------------------------------------------------------------ selftest
def selftest(tier: str) -> int:
    """In-process mutation probes (monkeypatched library functions; /repo is never touched)."""
    from contextlib import ExitStack, contextmanager
    from .core import run_probes
    env()
    import django_components.expression as dexpr
    import django_components.node as dnode
    import django_components.util.tag_parser as tp
    import django_components.util.template_parser as tpar
    import django_components.util.template_tag as ttag
    import django_components.util.django_monkeypatch as dmp
    from django.template.base import VariableNode

    @contextmanager
    def patch(obj, name, new):
        old = getattr(obj, name)
        setattr(obj, name, new)
        try:
            yield
        finally:
            setattr(obj, name, old)

    def many(*ps):
        @contextmanager
        def cm():
            with ExitStack() as st:
                for p in ps:
                    st.enter_context(patch(*p))
                yield
        return cm

    orig_resolve = tp.TagValueStruct.resolve

    def list_spread_appends(self, context):
        # `[*xs]` appends the list instead of extending with its items
        if self.type == "list":
            self.compile()
            return [e.resolve(context) for e in self.entries]
        return orig_resolve(self, context)

    def dict_first_key_wins(self, context):
        r = orig_resolve(self, context)
        if self.type == "dict":
            self.compile()
            out, pair = {}, []
            for e in self.entries:
                v = e.resolve(context)
                spread = (isinstance(e, tp.TagValueStruct) and e.spread) or (isinstance(e, tp.TagValue) and e.is_spread)
                if spread:
                    for k2, v2 in v.items():
                        out.setdefault(k2, v2)
                else:
                    pair.append(v)
                    if len(pair) == 2:
                        out.setdefault(pair[0], pair[1])
                        pair = []
            return out
        return r

    def agg_rsplit(params):
        # aggregate key split at the LAST colon: attrs:my_key:two -> {"attrs:my_key": {"two": ..}}
        out, nested = [], {}
        for p in params:
            if p.key is None or not dexpr.is_aggregate_key(p.key):
                out.append(p)
                continue
            pre, key = p.key.rsplit(":", 1)
            nested.setdefault(pre, {})[key] = p.value
        for k, v in nested.items():
            out.append(ttag.TagParam(key=k, value=v))
        return out

    orig_part_ser = tp.TagValuePart.serialize

    def always_double_quotes(self):
        if self.quoted:
            old = self.quoted
            self.quoted = '"'
            try:
                return orig_part_ser(self)
            finally:
                self.quoted = old
        return orig_part_ser(self)

    orig_dyn_resolve = dexpr.DynamicFilterExpression.resolve

    def dyn_always_string(self, context):
        # single-node passthrough lost: "{{ x }}" arrives as text
        from django.template import NodeList
        return NodeList(dexpr.StringifiedNode(n) for n in self.nodelist).render(context)

    def dyn_only_var_tags(value):
        return isinstance(value, str) and len(value) >= 6 and value[0] in "'\"" and value[-1] == value[0] and "{{" in value

    def plain_lexer(text):
        # `%}` inside a quoted string ends the tag (the quote-aware scanner is skipped)
        from django.template.base import DebugLexer
        return DebugLexer(text).tokenize()

    orig_validate = dnode.validate_params

    def drop_special_kwargs(func, sig, tag, params, extra_kwargs=None):
        return orig_validate(func, sig, tag, params, None)

    orig_compile = tp.TagValue.compile

    def spread_offset_one(self, parser):
        # strips one character of the spread token only: `**d` is compiled as `*d`
        if self.compiled is None and self.is_spread:
            from django.template.base import FilterExpression
            self.compiled = FilterExpression(self.serialize()[1:], parser)
            return
        return orig_compile(self, parser)

    def compiled_values_shared_per_template(self, parser):
        # "each distinct expression is compiled once per template": tags with the same argument text share
        # one compiled value - and with it the per-render state of a nested {% cycle %} / {% ifchanged %}
        if self.compiled is not None or parser is None:
            return orig_compile(self, parser)
        shared = parser.__dict__.setdefault("_vf_compiled", {})
        key = (self.is_spread, self.serialize())
        if key in shared:
            self.compiled = shared[key]
            return
        orig_compile(self, parser)
        shared[key] = self.compiled

    orig_parse_tag = ttag.parse_tag

    def newline_not_whitespace(text, parser):
        # the scanner only knows blanks and tabs; line breaks glue words together
        with patch(tp, "TAG_WHITESPACE", (" ", "\t")):
            return orig_parse_tag(text, parser)

    orig_resolve_params = ttag.resolve_params

    def spread_keeps_first(tag, params, context):
        # right-most does not win inside literals is covered above; here: a spread dict's
        # entries are added as ONE positional dict when it is the last argument
        out = orig_resolve_params(tag, params, context)
        if params and params[-1].value.spread and params[-1].value.type == "dict":
            keys = set(params[-1].value.resolve(context).keys())
            out = [p for p in out if p.key not in keys]
        return out

    def strip_filter_ws(self):
        # serialisation of a filter part forgets the `:` / `|` prefix when the value is quoted
        value = f"{self.quoted}{self.value}{self.quoted}" if self.quoted else self.value
        if self.translation:
            value = f"_({value})"
        elif self.spread:
            value = f"{self.spread}{value}"
        if self.filter and not (self.quoted and self.filter == ":"):
            value = f"{self.filter}{value}"
        return value

    import django_components.tag_formatter as tfm
    orig_short_parse = tfm.ShorthandComponentFormatter.parse

    def shorthand_pops_twice(self, tokens):
        r = orig_short_parse(self, tokens)
        return tfm.TagResult(r.component_name, r.tokens[1:])

    orig_comp_parse = tfm.ComponentFormatter.parse

    def formatter_unquotes_every_token(self, tokens):
        r = orig_comp_parse(self, tokens)
        from django_components.util.misc import is_str_wrapped_in_quotes
        return tfm.TagResult(r.component_name, [t[1:-1] if is_str_wrapped_in_quotes(t) else t for t in r.tokens])

    # ---- value-sensitive probes: the text of the tag is handled correctly, the VALUE is not
    def dict_resolve(variant):
        # TagValueStruct.resolve with the pending dict key tracked in one variable
        def resolve(self, context):
            if self.type != "dict":
                return orig_resolve(self, context)
            self.compile()
            out: Dict[Any, Any] = {}
            key, have = None, False
            for e in self.entries:
                v = e.resolve(context)
                if (isinstance(e, tp.TagValueStruct) and e.spread) or (isinstance(e, tp.TagValue) and e.is_spread):
                    out.update(v)
                    continue
                if variant == "none-key":        # None doubles as "no pending key"
                    if key is None:
                        key = v
                    else:
                        out[key] = v
                        key = None
                elif variant == "falsy-key":     # truthiness doubles as "no pending key"
                    if not key:
                        key = v
                    else:
                        out[key] = v
                        key = None
                else:                            # entries whose value is None are left out
                    if not have:
                        key, have = v, True
                    else:
                        if v is not None:
                            out[key] = v
                        have = False
            return out
        return resolve

    def list_spread_skips_none(self, context):
        if self.type != "list":
            return orig_resolve(self, context)
        self.compile()
        out: List[Any] = []
        for e in self.entries:
            v = e.resolve(context)
            if (isinstance(e, tp.TagValueStruct) and e.spread) or (isinstance(e, tp.TagValue) and e.is_spread):
                out.extend(x for x in v if x is not None)
            else:
                out.append(v)
        return out

    def dyn_single(variant):
        def resolve(self, context):
            if len(self.nodelist) == 1 and isinstance(self.nodelist[0], VariableNode):
                v = self.nodelist[0].filter_expression.resolve(context)
                if variant == "escape":          # text is escaped as if it were rendered
                    from django.utils.html import conditional_escape
                    return conditional_escape(v) if isinstance(v, str) and context.autoescape else v
                if variant == "none-to-empty":   # None is rendered like a failed lookup
                    return "" if v is None else v
                if v:
                    return v
                from django.template import NodeList            # "falsy-rendered": 0 / None / [] fall through to
                return NodeList(self.nodelist).render(context)  # rendering the string as a template
            return orig_dyn_resolve(self, context)
        return resolve

    def spread_drops_none_kwargs(tag, params, context):
        out = orig_resolve_params(tag, params, context)
        spread_keys = set()
        for p in params:
            if p.value.spread:
                v = p.value.resolve(context)
                if hasattr(v, "keys"):
                    spread_keys |= {k for k in v.keys() if v[k] is None}
        return [p for p in out if not (p.key in spread_keys and p.value is None)]

    def agg_drops_falsy(params):
        out = []
        for p in dexpr.process_aggregate_kwargs(params):
            if isinstance(p.value, dict) and p.key is not None and any(
                    q.key is not None and q.key.startswith(p.key + ":") for q in params):
                p = ttag.TagParam(key=p.key, value={k: v for k, v in p.value.items() if v})
            out.append(p)
        return out

    # ---- the place and the moment of the evaluation: loaded libraries, repeated renders
    orig_dyn_init = dexpr.DynamicFilterExpression.__init__

    def dyn_init(variant):
        def init(self, parser, expr_str):
            if not dexpr.is_dynamic_expression(expr_str):
                raise dexpr.TemplateSyntaxError(f"Not a valid dynamic expression: '{expr_str}'")
            from django.template import Engine
            from django.template.base import Parser as P
            self.expr = expr_str[1:-1]
            tokens = dexpr.parse_template(self.expr)
            if variant == "engine-default":      # "the way Template.compile_nodelist() does it"
                eng = Engine.get_default()
                ep = P(tokens, eng.template_libraries, eng.template_builtins, parser.origin)
            else:                                # only the filters are handed down, the tags are the builtin ones
                eng = Engine.get_default()
                ep = P(tokens, builtins=eng.template_builtins)
                ep.filters = {**parser.filters}
            self.nodelist = ep.parse()
        return init

    orig_value_resolve = tp.TagValue.resolve

    def constant_head_memoised(self, context):
        # "constants" (FilterExpression.is_var False) are resolved on the first render only
        c = self.compiled
        if c is not None and getattr(c, "is_var", True) is False:
            if not hasattr(self, "_vf_memo"):
                self._vf_memo = c.resolve(context)
            return self._vf_memo
        return orig_value_resolve(self, context)

    def dyn_rendered_cached(self, context):
        # a nested string that is rendered to text is rendered once per tag instance
        if len(self.nodelist) == 1:
            return orig_dyn_resolve(self, context)
        if not hasattr(self, "_vf_memo"):
            self._vf_memo = orig_dyn_resolve(self, context)
        return self._vf_memo

    def literal_struct_memoised(self, context):
        # list / dict literals without a spread are built once per tag instance
        if self.type == "simple" or self.spread or any(
                (isinstance(x, tp.TagValueStruct) and x.spread) or (isinstance(x, tp.TagValue) and x.is_spread)
                for x in self.entries):
            return orig_resolve(self, context)
        if not hasattr(self, "_vf_memo"):
            self._vf_memo = orig_resolve(self, context)
        return self._vf_memo

    probes = [
        ("compiled-values-shared-by-same-text-tags", many((tp.TagValue, "compile", compiled_values_shared_per_template))),
        ("top-level-spread-only-dict-gives-kwargs", many((dnode, "resolve_params", probe_top_spread("dict-only")))),
        ("top-level-spread-only-list-tuple-give-args", many((dnode, "resolve_params", probe_top_spread("list-or-mapping")))),
        ("list-literal-spread-only-splices-lists", many((tp.TagValueStruct, "resolve", probe_struct_spread("list-only")))),
        ("dict-literal-spread-only-merges-dicts", many((tp.TagValueStruct, "resolve", probe_struct_spread("dict-only")))),
        ("nested-string-parser-from-engine-defaults", many((dexpr.DynamicFilterExpression, "__init__", dyn_init("engine-default")))),
        ("nested-string-parser-forgets-loaded-tags", many((dexpr.DynamicFilterExpression, "__init__", dyn_init("filters-only")))),
        ("constant-head-value-memoised", many((tp.TagValue, "resolve", constant_head_memoised))),
        ("rendered-nested-string-cached", many((dexpr.DynamicFilterExpression, "resolve", dyn_rendered_cached))),
        ("literal-list-dict-memoised", many((tp.TagValueStruct, "resolve", literal_struct_memoised))),
        ("dict-none-key-taken-for-no-key", many((tp.TagValueStruct, "resolve", dict_resolve("none-key")))),
        ("dict-falsy-key-taken-for-no-key", many((tp.TagValueStruct, "resolve", dict_resolve("falsy-key")))),
        ("dict-entry-with-none-value-dropped", many((tp.TagValueStruct, "resolve", dict_resolve("none-value")))),
        ("list-spread-skips-none-items", many((tp.TagValueStruct, "resolve", list_spread_skips_none))),
        ("single-tag-string-escapes-text", many((dexpr.DynamicFilterExpression, "resolve", dyn_single("escape")))),
        ("single-tag-string-none-to-empty", many((dexpr.DynamicFilterExpression, "resolve", dyn_single("none-to-empty")))),
        ("single-tag-string-falsy-rendered", many((dexpr.DynamicFilterExpression, "resolve", dyn_single("falsy-rendered")))),
        ("spread-dict-none-values-dropped", many((dnode, "resolve_params", spread_drops_none_kwargs))),
        ("aggregate-falsy-values-dropped", many((ttag, "process_aggregate_kwargs", agg_drops_falsy))),
        ("shorthand-formatter-pops-twice", many((tfm.ShorthandComponentFormatter, "parse", shorthand_pops_twice))),
        ("formatter-unquotes-every-token", many((tfm.ComponentFormatter, "parse", formatter_unquotes_every_token))),
        ("list-spread-appends", many((tp.TagValueStruct, "resolve", list_spread_appends))),
        ("dict-first-duplicate-wins", many((tp.TagValueStruct, "resolve", dict_first_key_wins))),
        ("aggregate-split-at-last-colon", many((ttag, "process_aggregate_kwargs", agg_rsplit))),
        ("serialize-always-double-quotes", many((tp.TagValuePart, "serialize", always_double_quotes))),
        ("nested-template-always-string", many((dexpr.DynamicFilterExpression, "resolve", dyn_always_string))),
        ("nested-template-only-var-tags", many((tp, "is_dynamic_expression", dyn_only_var_tags))),
        ("percent-brace-in-string-ends-tag", many((dmp, "parse_template", plain_lexer), (dexpr, "parse_template", plain_lexer))),
        ("special-char-kwargs-dropped", many((dnode, "validate_params", drop_special_kwargs))),
        ("spread-token-offset-one", many((tp.TagValue, "compile", spread_offset_one))),
        ("newline-not-whitespace", many((ttag, "parse_tag", newline_not_whitespace))),
        ("last-spread-dict-dropped", many((dnode, "resolve_params", spread_keeps_first))),
        ("filter-arg-colon-lost-for-quoted", many((tp.TagValuePart, "serialize", strip_filter_ws))),
    ]
    cache: Dict[str, Any] = {}

    def body(chk: Check) -> None:
        if "cases" not in cache:
            w = workdir("c02st")
            res, _ = export_cases("selftest", w, with_props=False)
            cache["cases"] = {n: read_cases(out) for n, (r, out) in res.items()}
        header = None
        for name, (header, cases) in cache["cases"].items():
            replay_cases(chk, header, cases, name, procs=4, k=2 if name in VALUE_CONFIGS["selftest"] else 5)
        code_to_spec(chk, header, ntraces=150, depth=3)

    return run_probes(PID, probes, body)
