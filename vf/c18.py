"""C18 - template caching is transparent and behaves as a bounded LRU.

spec -> code: TLC enumerates the complete state graph of specs/LRUCache.tla for every
              cache size and exports every transition; each is replayed on the real
              LRUCache with the projected state compared before and after.
code -> spec: long random histories on the real LRUCache, and compile histories through
              cached_template() / Component rendering under several template_cache_size
              settings, are validated by TLC against Trace_C18 / Trace_C18T.

Component level (TemplateCache.tla: RenderClass / OwnTemplate / NoSharing): the import path (module + qualname) of a
component class does not identify it - classes made by one factory function and re-executions of one class statement
share it.  spec -> code: TLC enumerates EVERY sequence of renders / clears over a class table in which several classes
share a path (MC_C18T CompSpec, every cache size) and exports it with the object, the template it was compiled from and
the LRU order the specification determines after every step; each sequence is replayed in this process on freshly made
classes (paths never seen before in the process, so the render ORDER of the sequence is what counts) and every render
must print what a fresh compilation of that class' own template prints.  code -> spec: the component histories for
Trace_C18T are rendered over such class tables too (paths there are drawn from a small pool that is reused across
traces, i.e. redefinition over time).
Left out on purpose: two classes with the SAME template text - whether they share a cache entry / a Template object
is not determined by the property text (rendered output is the same either way), so all classes of one table have
pairwise different templates and the LRU order is compared by template text only (the cache key layout is free).
Components are rendered with render_dependencies=False: the JS/CSS dependency machinery (also keyed by import path)
is not part of this property.
"""
from __future__ import annotations

import json
import random
from pathlib import Path
from typing import Any, Dict, List, Optional

from . import tlc
from .core import Check, MachineryError, workdir

PID = "C18"
SIZES = [None, 0, 1, 2, 3]
# class tables of MC_C18T (name of the definition -> import path number of class 1, 2, ...)
TABLES = {"P11": [1, 1], "P1112": [1, 1, 1, 2], "P1122": [1, 1, 2, 2], "P11122": [1, 1, 1, 2, 2]}


def _cfg(path: Path, spec: str, keys: str, vals: str, maxsize: Optional[int], extra: str = "") -> None:
    ms = "MaxSize <- Unbounded" if maxsize is None else f"MaxSize = {maxsize}"
    path.write_text(f"SPECIFICATION {spec}\nCONSTANTS\n  Keys = {keys}\n  Vals = {vals}\n  None = 0\n  {ms}\n{extra}")


# ---------------------------------------------------------------- projection
def project(cache) -> Dict[str, Any]:
    """Abstract state of a real LRUCache: dict contents plus both walks of the list."""
    fwd, bwd, vals = [], [], []
    n, limit = cache.head.next, len(cache.cache) + 3
    bad = None
    while n is not cache.tail and n is not None and limit:
        fwd.append(n.key)
        vals.append(n.value)
        n = n.next
        limit -= 1
    if n is not cache.tail:
        bad = "forward walk does not reach tail"
    n, limit = cache.tail.prev, len(cache.cache) + 3
    while n is not cache.head and n is not None and limit:
        bwd.append(n.key)
        n = n.prev
        limit -= 1
    if n is not cache.head:
        bad = "backward walk does not reach head"
    if cache.head.prev is not None or cache.tail.next is not None:
        bad = "sentinel has outward pointer"
    for k, node in cache.cache.items():
        if node.key != k:
            bad = "dict key maps to node of another key"
    return {"fwd": fwd, "bwd": bwd, "vals": vals, "dkeys": sorted(cache.cache.keys(), key=repr), "bad": bad}


def _enc_ret(r) -> Dict[str, Any]:
    if r is None:
        return {"rt": "none", "ret": 0}
    if isinstance(r, bool):
        return {"rt": "bool", "ret": r}
    if isinstance(r, int):
        return {"rt": "int", "ret": r}
    return {"rt": "other", "ret": 0}


def _call(cache, ev):
    op = ev["op"]
    if op == "get":
        return cache.get(ev["k"])
    if op == "has":
        return cache.has(ev["k"])
    if op == "set":
        return cache.set(ev["k"], ev["v"])
    if op == "clear":
        return cache.clear()
    raise MachineryError(f"unknown op {op}")


# ---------------------------------------------------------------- spec -> code
def replay_transition(row) -> Optional[Dict[str, Any]]:
    """Replay one exported transition on a fresh real cache; None if it conforms."""
    from django_components.util.cache import LRUCache
    ms = None if row["max"] == -1 else row["max"]
    c = LRUCache(maxsize=ms)
    for k, v in reversed(row["pre"]):
        c.set(k, v)
    p = project(c)
    want_pre = [k for k, _ in row["pre"]]
    if p["bad"] or p["fwd"] != want_pre or p["bwd"] != want_pre[::-1] or p["vals"] != [v for _, v in row["pre"]] \
            or p["dkeys"] != sorted(want_pre, key=repr):
        return {"stage": "construct-source-state", "expected": row["pre"], "observed": p}
    try:
        r = _call(c, row["call"])
    except Exception as e:  # the specification never raises
        return {"stage": "call", "exception": repr(e)}
    p = project(c)
    want = [k for k, _ in row["post"]]
    exp_ret = row["ret"]
    ok_ret = (r is None and exp_ret == 0) or (r is not None and type(r) is type(exp_ret) and r == exp_ret)
    if p["bad"] or p["fwd"] != want or p["bwd"] != want[::-1] or p["vals"] != [v for _, v in row["post"]] \
            or p["dkeys"] != sorted(want, key=repr) or not ok_ret:
        return {"stage": "post-state", "expected": {"post": row["post"], "ret": exp_ret},
                "observed": {"state": p, "ret": repr(r)}}
    return None


def model_check_and_replay(chk: Check, nkeys: int, nvals: int) -> None:
    w = workdir("c18mc")
    keys = "{" + ",".join(str(i) for i in range(1, nkeys + 1)) + "}"
    vals = "{" + ",".join(str(10 * i) for i in range(1, nvals + 1)) + "}"
    states = trans = 0
    rows_all = 0
    for ms in SIZES:
        cfg = w / f"mc_{ms}.cfg"
        out = w / f"tr_{ms}.ndjson"
        _cfg(cfg, "MCSpec", keys, vals, ms,
             "INVARIANT TypeOK\nINVARIANT Bounded\nINVARIANT DictMatchesList\nINVARIANT Export\n"
             "PROPERTY EvictsLRU\nPROPERTY GetSemantics\nPROPERTY SetThenGet\n")
        r = tlc.require_ok(tlc.run("MC_C18", str(cfg), env={"OUT": str(out)}, workers=1), f"MC_C18 size={ms}")
        rows = tlc.read_ndjson(out)
        if len(rows) != r.distinct - 1:
            raise MachineryError(f"export incomplete: {len(rows)} rows for {r.distinct} states")
        states += r.distinct
        trans += r.generated
        rows_all += len(rows)
        for row in rows:
            chk.count(row, nontrivial=bool(row["pre"]) or row["call"]["op"] == "set")
            bad = replay_transition(row)
            if bad:
                chk.violation({"kind": "lru-transition", "row": row}, bad)
        if rows:
            chk.sample({"lru_transition": rows[len(rows) // 2]}, limit=3)
    chk.add("states", states)
    chk.add("transitions", trans)
    chk.add("lru_transitions_replayed", rows_all)


# ---------------------------------------------------------------- code -> spec (LRU)
def record_lru_trace(rnd: random.Random, ms: Optional[int], nkeys: int, length: int) -> List[Dict[str, Any]]:
    from django_components.util.cache import LRUCache
    c = LRUCache(maxsize=ms)
    evs = []
    for _ in range(length):
        x = rnd.random()
        k = rnd.randint(1, nkeys)
        if x < 0.45:
            ev = {"op": "set", "k": k, "v": rnd.randint(1, 50)}
        elif x < 0.80:
            ev = {"op": "get", "k": k}
        elif x < 0.95:
            ev = {"op": "has", "k": k}
        else:
            ev = {"op": "clear"}
        try:
            r = _call(c, ev)
            ev.update(_enc_ret(r))
        except Exception as e:
            ev.update({"rt": "exception:" + type(e).__name__, "ret": 0})
        p = project(c)
        if p["bad"]:
            ev["rt"] = "malformed:" + p["bad"]
        ev.update({"fwd": p["fwd"], "bwd": p["bwd"], "vals": p["vals"], "dkeys": p["dkeys"]})
        evs.append(ev)
    return evs


def validate_lru_traces(chk: Check, ntraces: int, length: int) -> None:
    rnd = random.Random(chk.seed * 7919 + 18)
    w = workdir("c18tr")
    total = 0
    for ms in SIZES + [5]:
        traces = []
        for i in range(ntraces):
            nkeys = rnd.choice([2, 3, 4, 6, 8])
            traces.append({"id": i + 1, "max": -1 if ms is None else ms,
                           "events": record_lru_trace(rnd, ms, nkeys, length)})
        f = w / f"lru_{ms}.ndjson"
        tlc.write_ndjson(f, traces)
        cfg = w / f"trace_{ms}.cfg"
        _cfg(cfg, "TrSpec", "{}", "{}", ms, "INVARIANT DictMatchesList\nINVARIANT Bounded\nPROPERTY EvictsLRU\n")
        r = tlc.run("Trace_C18", str(cfg), env={"IN": str(f)}, workers=1)
        if not r.ok and not r.violated:
            tlc.require_ok(r, f"Trace_C18 size={ms}")
        v = tlc.verdicts(r, len(traces), f"Trace_C18 size={ms}") if not r.violated else {"accepted": set(), "rejected": {}}
        if r.violated:
            chk.violation({"kind": "lru-trace-invariant", "maxsize": ms, "file": str(f)},
                          {"violated": r.violated, "tlc_tail": r.out.splitlines()[-30:]})
        for tid, why in v["rejected"].items():
            t = traces[tid - 1]
            chk.violation({"kind": "lru-trace", "maxsize": ms, "events": t["events"][: why["event"]]}, why)
        total += len(traces)
        for t in traces:
            chk.count(t["events"])
        chk.sample({"lru_trace_head": {"max": ms, "events": traces[0]["events"][:4]}}, limit=5)
        chk.add("trace_states", r.distinct)
    chk.add("traces_validated_against_impl", total)


# ---------------------------------------------------------------- component classes sharing an import path
def class_src(s: int) -> str:
    """Inline template number s (pairwise different texts)."""
    return f"[t{s}:{{{{ x }}}}]"


def make_classes(table, tag: str):
    """Real component classes for a class table [{path, src}, ...]: classes of one path have the same __module__ and
    __qualname__ - odd paths come from ONE factory function called once per class, even paths from ONE module-level
    class statement executed once per class (as in a shell / notebook / reloaded module).  `tag` makes the paths
    distinct from (or equal to) those of other tables made in this process."""
    from django_components import Component
    from django_components.util.misc import get_import_path
    made, factories = [], {}
    for ent in table:
        path, markup = ent["path"], class_src(ent["src"])
        if path % 2:
            fn = f"make_{tag}_{path}"
            if fn not in factories:
                ns = {"Component": Component, "__name__": __name__}
                exec(f"def {fn}(markup):\n"
                     "    class Badge(Component):\n"
                     "        template = markup\n"
                     "        def get_context_data(self, x=None):\n"
                     "            return {'x': x}\n"
                     "    return Badge\n", ns)
                factories[fn] = ns[fn]
            cls = factories[fn](markup)
        else:
            ns = {"Component": Component, "__name__": __name__, "markup": markup}
            exec(f"class Badge_{tag}_{path}(Component):\n"
                 "    template = markup\n"
                 "    def get_context_data(self, x=None):\n"
                 "        return {'x': x}\n", ns)
            cls = ns[f"Badge_{tag}_{path}"]
        made.append(cls)
    for i, a in enumerate(made):
        for j, b in enumerate(made):
            if (get_import_path(a) == get_import_path(b)) != (table[i]["path"] == table[j]["path"]) or (i != j and a is b):
                raise MachineryError("class table not realised: import paths do not match the table")
    return made


def render_class(cls, x: int):
    """Render component class `cls`; returns (output without the bookkeeping comment, Template object used)."""
    import re
    import django_components.component as dcomp
    seen = []
    orig = dcomp.cached_template

    def spy(*a, **kw):
        t = orig(*a, **kw)
        seen.append(t)
        return t
    dcomp.cached_template = spy
    try:
        out = cls.render(kwargs={"x": x}, render_dependencies=False)
    finally:
        dcomp.cached_template = orig
    if len(seen) != 1:
        raise MachineryError(f"expected one cached_template call per render, saw {len(seen)}")
    return re.sub(r"<!--.*?-->", "", out), seen[0]


def _src_order(table) -> List[int]:
    """Forward walk of the real template cache, every entry mapped to the template number of its text."""
    import django_components.cache as dcache
    p = project(dcache.get_template_cache())
    if p["bad"]:
        return [-1]
    index = {class_src(ent["src"]): ent["src"] for ent in table}
    out = []
    for k in p["fwd"]:
        texts = [m for m in (k if isinstance(k, tuple) else (k,)) if isinstance(m, str) and m in index]
        out.append(index[texts[0]] if len(texts) == 1 else -2)
    return out


def replay_class_case(row, caseno: int) -> Optional[Dict[str, Any]]:
    """Replay one exported render sequence on fresh real classes; None if it conforms."""
    from django.conf import settings
    from django.template import Context, Template
    import django_components.cache as dcache
    old = settings.COMPONENTS
    table = row["classes"]
    try:
        settings.COMPONENTS = dict(old, template_cache_size=row["max"])
        dcache.template_cache = None
        classes = make_classes(table, f"q{row['max']}_{caseno}")
        ids: Dict[int, int] = {}
        keep = []
        for i, st in enumerate(row["steps"]):
            if st["op"] == "clear":
                dcache.get_template_cache().clear()
                fwd = _src_order(table)
                if fwd:
                    return {"step": i + 1, "what": "clear_left_entries", "observed": fwd}
                continue
            x = (caseno * 7 + i * 13) % 100
            try:
                out, t = render_class(classes[st["c"] - 1], x)
            except MachineryError:
                raise
            except Exception as e:  # noqa: BLE001 - the specification never raises
                return {"step": i + 1, "what": "exception", "observed": f"{type(e).__name__}: {e}"[:300]}
            keep.append(t)
            oid = ids.setdefault(id(t), len(ids) + 1)
            want_src = class_src(st["src"])                 # the template the specification's object was made from
            fresh = Template(want_src).render(Context({"x": x}))
            fwd = _src_order(table)
            failing = [c for c, bad in [("transparent", out != fresh or t.source != want_src),
                                        ("identity", oid != st["obj"]),
                                        ("lru_order", fwd != st["fwd"])] if bad]
            if failing:
                return {"step": i + 1, "what": failing,
                        "expected": {"out": fresh, "source": want_src, "obj": st["obj"], "fwd": st["fwd"]},
                        "observed": {"out": out[:200], "source": t.source[:200], "obj": oid, "fwd": fwd}}
        return None
    finally:
        settings.COMPONENTS = old
        dcache.template_cache = None


def component_classes(chk: Check, table: str, maxlen: int, sizes=(0, 1, 2, 128)) -> None:
    """All render/clear sequences of length `maxlen` over class table `table` (MC_C18T), every size: exported by TLC
    with the outcome the specification determines, replayed on real factory-made / re-defined classes."""
    from concurrent.futures import ThreadPoolExecutor
    w = workdir("c18cc")
    nclasses = len(TABLES[table])

    def one(ms):
        cfg = w / f"cc_{ms}.cfg"
        out = w / f"cc_{ms}.ndjson"
        _cfg(cfg, "CompSpec", "{}", "{}", ms,
             f"  MaxObjs = 0\n  ClassPaths <- {table}\n  MaxLen = {maxlen}\n"
             "INVARIANT Transparent\nINVARIANT Bounded\nINVARIANT DictMatchesList\nINVARIANT GotIsRight\n"
             "INVARIANT ClassOwn\nINVARIANT ClassNoSharing\nINVARIANT ExportComp\n"
             "PROPERTY Identity\nPROPERTY MissIsFresh\nPROPERTY EvictsLRU\n")
        r = tlc.require_ok(tlc.run("MC_C18T", str(cfg), env={"OUT": str(out)}, workers=1), f"MC_C18T CompSpec size={ms}")
        return r, tlc.read_ndjson(out)

    with ThreadPoolExecutor(max_workers=4) as ex:
        results = list(ex.map(one, sizes))
    total = 0
    for ms, (r, rows) in zip(sizes, results):
        if len(rows) != (nclasses + 1) ** maxlen or any(
                [e["path"] for e in row["classes"]] != TABLES[table] or row["max"] != ms for row in rows):
            raise MachineryError(f"export incomplete: {len(rows)} sequences for {nclasses} classes, length {maxlen}")
        chk.add("states", r.distinct)
        chk.add("transitions", r.generated)
        rows.sort(key=lambda row: json.dumps(row["steps"], sort_keys=True))
        for n, row in enumerate(rows):
            shared = {}
            for st in row["steps"]:
                if st["op"] == "render":
                    shared.setdefault(row["classes"][st["c"] - 1]["path"], set()).add(st["c"])
            chk.count(["class-sequence", row], nontrivial=any(len(v) > 1 for v in shared.values()))
            bad = replay_class_case(row, n)
            if bad:
                chk.violation({"kind": "class-sequence", "row": row, "caseno": n}, bad)
        total += len(rows)
        if rows:
            chk.sample({"class_sequence": rows[len(rows) // 3]}, limit=10)
    chk.add("class_sequences_replayed", total)


# ---------------------------------------------------------------- template cache
def record_template_traces(rnd: random.Random, size, ntraces: int, length: int, via_component: bool):
    """Histories of compile requests through cached_template() (or through rendering
    components with inline templates) under COMPONENTS.template_cache_size=size."""
    from django.conf import settings
    from django.template import Context, Template, engines
    import django_components.cache as dcache
    from django_components import cached_template

    class T2(Template):
        pass

    eng = engines["django"].engine
    traces = []
    old = settings.COMPONENTS
    try:
        settings.COMPONENTS = dict(old, template_cache_size=size)
        for i in range(ntraces):
            dcache.template_cache = None
            nkeys = rnd.choice([2, 3, 4, 5, 6])
            # key i -> (template string, class, engine)
            table = None
            if via_component:
                # class table: template number = class number, import paths shared by several classes; the path names
                # come from a pool of 6 that is reused by later traces (classes re-defined over time)
                npaths = rnd.randint(1, max(1, nkeys // 2))
                table = [{"path": rnd.randint(1, npaths), "src": j + 1} for j in range(nkeys)]
                comps = make_classes(table, f"r{rnd.randrange(6)}")
                keyspec = [(class_src(ent["src"]), Template, None) for ent in table]
            else:
                strings = [f"[s{j}:{{{{ x }}}}]" for j in range(max(2, nkeys // 2 + 1))]
                keyspec = []
                for j in range(nkeys):
                    keyspec.append((strings[j % len(strings)], [Template, T2][(j // len(strings)) % 2],
                                    eng if j >= 4 else None))
                keyspec = list(dict.fromkeys(keyspec))
                nkeys = len(keyspec)
            ids: Dict[int, int] = {}
            keep = []
            evs = []
            for _ in range(length):
                if rnd.random() < 0.04:
                    dcache.get_template_cache().clear()
                    evs.append({"op": "clear", "fwd": _src_order(table) if via_component else _tc_order(keyspec)})
                    continue
                k = rnd.randrange(nkeys)
                src, cls, engine = keyspec[k]
                x = rnd.randint(0, 99)
                try:
                    if via_component:
                        out, t = render_class(comps[k], x)
                    else:
                        t = cached_template(src, template_cls=cls, engine=engine)
                        out = t.render(Context({"x": x}))
                except Exception:  # noqa: BLE001 - the library under test raised: an observation (nothing is right), not a
                    # failure of the harness; the trace ends here and is rejected
                    ev = {"op": "compile", "k": k + 1, "obj": 0, "src_ok": False, "cls_ok": False, "eng_ok": False,
                          "out_ok": False, "fwd": [-1]}
                    if via_component:
                        ev.update({"op": "render", "c": k + 1})
                        del ev["k"]
                    evs.append(ev)
                    break
                keep.append(t)
                oid = ids.setdefault(id(t), len(ids) + 1)
                fresh = cls(src, engine=engine).render(Context({"x": x}))
                ev = {"op": "compile", "k": k + 1, "obj": oid, "src_ok": t.source == src,
                      "cls_ok": type(t) is cls,
                      "eng_ok": (engine is None) or (t.engine is engine),
                      "out_ok": out == fresh, "fwd": _tc_order(keyspec)}
                if via_component:
                    ev.update({"op": "render", "c": k + 1, "fwd": _src_order(table)})
                    del ev["k"]
                evs.append(ev)
            traces.append({"id": i + 1, "classes": table or [], "events": evs})
    finally:
        settings.COMPONENTS = old
        dcache.template_cache = None
    return traces


def _tc_order(keyspec) -> List[int]:
    """Forward walk of the real template cache, cache keys mapped back to key indices."""
    import django_components.cache as dcache
    from django_components.util.misc import get_import_path
    c = dcache.get_template_cache()
    p = project(c)
    if p["bad"]:
        return [-1]
    index = {}
    for j, (src, cls, engine) in enumerate(keyspec):
        index[(get_import_path(cls), src, get_import_path(engine.__class__) if engine else None)] = j + 1
    # (the key's first three members identify the compiled text; name / origin follow since the recorded fix)
    return [index.get(tuple(k[:3]), -2) for k in p["fwd"]]


def template_cache(chk: Check, ntraces: int, length: int) -> None:
    rnd = random.Random(chk.seed * 104729 + 181)
    w = workdir("c18tc")
    # the abstract machine first: exhaustive over 3 keys, every size
    for ms in [None, 0, 1, 2]:
        cfg = w / f"tc_{ms}.cfg"
        _cfg(cfg, "MCTSpec", "{1,2,3}", "{}", ms,
             "  MaxObjs = 5\n  ClassPaths <- P11\n  MaxLen = 0\nCONSTRAINT Limit\nINVARIANT Transparent\nINVARIANT Bounded\nINVARIANT DictMatchesList\n"
             "INVARIANT GotIsRight\nPROPERTY Identity\nPROPERTY MissIsFresh\nPROPERTY EvictsLRU\n")
        r = tlc.require_ok(tlc.run("MC_C18T", str(cfg), workers=4), f"MC_C18T size={ms}")
        chk.add("states", r.distinct)
        chk.add("transitions", r.generated)
    total = 0
    for size, ms in [(0, 0), (1, 1), (2, 2), (3, 3), (128, 128)]:
        for via in (False, True):
            traces = record_template_traces(rnd, size, ntraces, length, via)
            f = w / f"tc_{size}_{via}.ndjson"
            tlc.write_ndjson(f, traces)
            cfg = w / f"tctrace_{size}.cfg"
            _cfg(cfg, "TrSpec", "{}", "{}", ms, "INVARIANT Transparent\nINVARIANT Bounded\nINVARIANT DictMatchesList\nINVARIANT GotIsRight\n"
                 "PROPERTY Identity\n")
            r = tlc.run("Trace_C18T", str(cfg), env={"IN": str(f)}, workers=1)
            if r.violated:
                chk.violation({"kind": "template-trace-invariant", "size": size, "via_component": via},
                              {"violated": r.violated, "tlc_tail": r.out.splitlines()[-30:]})
                continue
            tlc.require_ok(r, f"Trace_C18T size={size}")
            v = tlc.verdicts(r, len(traces), f"Trace_C18T size={size}")
            for tid, why in v["rejected"].items():
                t = traces[tid - 1]
                chk.violation({"kind": "template-trace", "size": size, "via_component": via,
                               "events": t["events"][: why["event"]]}, why)
            total += len(traces)
            for t in traces:
                chk.count([size, via, t["events"]])
            chk.sample({"template_trace_head": {"size": size, "via_component": via, "events": traces[0]["events"][:3]}}, limit=8)
    chk.add("traces_validated_against_impl", total)


def file_templates(chk: Check, nseq: int, length: int) -> None:
    """Transparency (TemplateCache.tla: Transparent) for templates that components take from FILES next to their
    module: three directories hold a template of identical text with a relative {% include "./p.html" %} and an own
    p.html; a fourth component has an inline template of that same text shape.  Whatever was compiled before and
    whatever the cache size, each render must print what compiling afresh prints: the own directory's p.html."""
    import importlib
    import sys
    from django.test.utils import override_settings
    import django_components.cache as dcache
    root = workdir("c18ft")
    comps = root / "comps"
    comps.mkdir()
    text = '[{{ x }}|{% include "./p.html" %}]'
    for dname in ("fa", "fb", "fc"):
        dd = comps / dname
        dd.mkdir()
        (dd / "__init__.py").write_text("")
        (dd / f"mod_{dname}.py").write_text(
            "from django_components import Component\n\n\n"
            f"class C_{dname}(Component):\n    template_file = \"inc.html\"\n\n"
            "    def get_context_data(self, x=0):\n        return {\"x\": x}\n")
        (dd / "inc.html").write_text(text)
        (dd / "p.html").write_text("own:" + dname)
    sys.path.insert(0, str(comps))
    rnd = random.Random(chk.seed * 7919 + 23)
    total = 0
    try:
        for size in [None, 0, 1, 2, 3]:
            cfg = {"autodiscover": False, "dirs": [str(comps)]}
            if size is not None:
                cfg["template_cache_size"] = size
            templates = [{"BACKEND": "django.template.backends.django.DjangoTemplates", "DIRS": [],
                          "OPTIONS": {"builtins": ["django_components.templatetags.component_tags"],
                                      "loaders": ["django_components.template_loader.Loader"]}}]
            with override_settings(COMPONENTS=cfg, TEMPLATES=templates):
                for s in range(nseq):
                    dcache.template_cache = None
                    # fresh classes per sequence: the class-level resolution of template_file is part of the history
                    classes = {}
                    for dname in ("fa", "fb", "fc"):
                        name = f"{dname}.mod_{dname}"
                        sys.modules.pop(name, None)
                        classes[dname] = getattr(importlib.import_module(name), "C_" + dname)
                    evs = []
                    for _ in range(length):
                        if rnd.random() < 0.1:
                            dcache.get_template_cache().clear()
                            evs.append(["clear"])
                            continue
                        dname = rnd.choice(["fa", "fb", "fc"])
                        x = rnd.randint(0, 99)
                        try:
                            out = classes[dname].render(kwargs={"x": x}, render_dependencies=False)
                        except Exception as e:  # noqa: BLE001
                            out = f"{type(e).__name__}: {e}"
                        import re
                        out = re.sub(r"<!--.*?-->", "", out)
                        evs.append(["render", dname, x])
                        total += 1
                        chk.count(["file-template", size, evs], nontrivial=len(evs) > 1)
                        want = f"[{x}|own:{dname}]"
                        if out != want:
                            chk.violation({"kind": "file-template", "size": size, "events": list(evs)},
                                          {"what": "not-transparent", "expected": want, "observed": out[:200]})
                            break
    finally:
        sys.path.remove(str(comps))
        dcache.template_cache = None
    chk.add("file_template_renders", total)


def run(tier: str) -> int:
    from . import boot
    boot.setup()
    chk = Check(PID, tier, "model_checking")
    quick = tier == "quick"
    file_templates(chk, nseq=12 if quick else 120, length=14 if quick else 30)
    model_check_and_replay(chk, nkeys=3 if quick else 4, nvals=2)
    validate_lru_traces(chk, ntraces=60 if quick else 600, length=60 if quick else 120)
    component_classes(chk, "P1112", 4)
    template_cache(chk, ntraces=25 if quick else 200, length=40 if quick else 80)
    if not quick:
        component_classes(chk, "P11122", 5, sizes=(0, 1, 2, 3, 128))
    chk.cov["exhaustive"] = True
    chk.cov["rule"] = ("every transition of the TLC state graph of LRUCache (all sizes) replayed on the real "
                       "LRUCache; random histories validated by Trace_C18/Trace_C18T; every render/clear sequence "
                       "(length 4 over 4 classes, 3 of them with one import path; thorough also length 5 over 5 "
                       "classes) exported by MC_C18T CompSpec and replayed on real factory-made / re-defined "
                       "classes for every cache size. Non-trivial = source state non-empty or a set / a sequence "
                       "that renders two classes of one import path; distinct by hash of the case")
    chk.assumptions += ["projection = dict items + forward/backward list walk + sentinels captures all "
                        "behaviour-relevant state of LRUCache",
                        "template_cache_size=None (documented: unbounded; code: 128) is not exercised as unbounded",
                        "classes of one class table have pairwise different inline templates (sharing of a cache "
                        "entry between classes with equal template text is not determined by the property); the "
                        "LRU order of the component-level cache is compared by template text only",
                        "component renders use render_dependencies=False (JS/CSS dependency handling is out of scope)"]
    return chk.finish()


def selftest(tier: str) -> int:
    """In-process mutation probes (never touch /repo)."""
    from contextlib import contextmanager
    from . import boot
    from .core import run_probes
    boot.setup()
    import django_components.util.cache as uc
    import django_components.template as dt

    @contextmanager
    def patch(obj, name, new):
        old = getattr(obj, name)
        setattr(obj, name, new)
        try:
            yield
        finally:
            setattr(obj, name, old)

    def evict_mru():
        orig = uc.LRUCache.set

        def set_(self, key, value):
            if key not in self.cache and self.maxsize is not None and self.maxsize > 0 \
                    and len(self.cache) >= self.maxsize:
                n = self.head.next
                self._remove(n)
                del self.cache[n.key]
            return orig(self, key, value)
        return patch(uc.LRUCache, "set", set_)

    def get_no_touch():
        return patch(uc.LRUCache, "get", lambda self, k: self.cache[k].value if k in self.cache else None)

    def off_by_one():
        orig = uc.LRUCache.set

        def set_(self, key, value):
            ms = self.maxsize
            if ms:
                self.maxsize = ms + 1
            try:
                return orig(self, key, value)
            finally:
                self.maxsize = ms
        return patch(uc.LRUCache, "set", set_)

    def stale_backpointer():
        def rem(self, node):
            if node.prev is not None:
                node.prev.next = node.next
        return patch(uc.LRUCache, "_remove", rem)

    def key_without_class():
        orig = dt.cached_template

        def ct(template_string, template_cls=None, origin=None, name=None, engine=None):
            from django.template import Template
            cache = dt.get_template_cache()
            t = cache.get(template_string)
            if t is None:
                t = (template_cls or Template)(template_string, origin=origin, name=name, engine=engine)
                cache.set(template_string, t)
            return t
        import django_components
        from contextlib import ExitStack

        @contextmanager
        def both():
            with ExitStack() as st:
                st.enter_context(patch(dt, "cached_template", ct))
                st.enter_context(patch(django_components, "cached_template", ct))
                yield
        return both()

    def memo_by_import_path():
        """Component._get_template remembers the template text per class import path (not per class)."""
        import django_components.component as dcomp
        from django.template import Origin
        from django_components.util.misc import get_import_path
        orig = dcomp.Component._get_template
        memo: Dict[str, str] = {}

        def gt(self, context, component_id):
            path = get_import_path(type(self))
            src = memo.setdefault(path, self.template)
            if src is self.template or not isinstance(self.template, str):
                return orig(self, context, component_id)
            return dcomp.cached_template(template_string=src, name=self.name,
                                         origin=Origin(name=path, template_name=self.name))
        return patch(dcomp.Component, "_get_template", gt)

    def body(chk):
        w = workdir("c18st")
        from django_components.util.cache import LRUCache  # noqa
        model_check_and_replay(chk, 3, 2)
        validate_lru_traces(chk, 10, 40)
        template_cache(chk, 6, 30)
        component_classes(chk, "P1112", 3, sizes=(0, 2))

    return run_probes(PID, [("evict-MRU", evict_mru), ("get-does-not-touch", get_no_touch),
                            ("size-off-by-one", off_by_one), ("stale-back-pointer", stale_backpointer),
                            ("template-key-without-class", key_without_class),
                            ("component-template-memo-by-import-path", memo_by_import_path)], body)


def replay(path: str) -> int:
    from . import boot
    boot.setup()
    d = json.load(open(path))
    case = d["case"]
    if case.get("kind") == "lru-transition":
        bad = replay_transition(case["row"])
        print(json.dumps(bad, indent=1, default=repr))
        return 1 if bad else 0
    if case.get("kind") == "class-sequence":
        bad = replay_class_case(case["row"], case["caseno"])
        print(json.dumps(bad, indent=1, default=repr))
        return 1 if bad else 0
    print("replay of trace cases: re-run the check with the same VERIF_SEED")
    return 2
