"""C18 - template caching is transparent and behaves as a bounded LRU.

spec -> code: TLC enumerates the complete state graph of specs/LRUCache.tla for every
              cache size and exports every transition; each is replayed on the real
              LRUCache with the projected state compared before and after.
code -> spec: long random histories on the real LRUCache, and compile histories through
              cached_template() / Component rendering under several template_cache_size
              settings, are validated by TLC against Trace_C18 / Trace_C18T.
"""
from __future__ import annotations

import json
import random
from pathlib import Path
from typing import Any, Dict, List, Optional

from . import tlc
from .core import Check, MachineryError, workdir

PID = "C18"
SIZES = [None, 0, 1, 2, 3]


def _cfg(path: Path, spec: str, keys: str, vals: str, maxsize: Optional[int], extra: str = "") -> None:
    ms = "MaxSize <- Unbounded" if maxsize is None else f"MaxSize = {maxsize}"
    path.write_text(f"SPECIFICATION {spec}\nCONSTANTS\n  Keys = {keys}\n  Vals = {vals}\n  None = 0\n  {ms}\n{extra}")


# ---------------------------------------------------------------- projection
def project(cache) -> Dict[str, Any]:
    """Abstract state of a real LRUCache: dict contents plus both walks of the list."""
    fwd, bwd, vals = [], [], []
    n, limit = cache.head.next, len(cache.cache) + 3
    bad = None
    while n is not cache.tail and n is not None and limit:
        fwd.append(n.key)
        vals.append(n.value)
        n = n.next
        limit -= 1
    if n is not cache.tail:
        bad = "forward walk does not reach tail"
    n, limit = cache.tail.prev, len(cache.cache) + 3
    while n is not cache.head and n is not None and limit:
        bwd.append(n.key)
        n = n.prev
        limit -= 1
    if n is not cache.head:
        bad = "backward walk does not reach head"
    if cache.head.prev is not None or cache.tail.next is not None:
        bad = "sentinel has outward pointer"
    for k, node in cache.cache.items():
        if node.key != k:
            bad = "dict key maps to node of another key"
    return {"fwd": fwd, "bwd": bwd, "vals": vals, "dkeys": sorted(cache.cache.keys(), key=repr), "bad": bad}


def _enc_ret(r) -> Dict[str, Any]:
    if r is None:
        return {"rt": "none", "ret": 0}
    if isinstance(r, bool):
        return {"rt": "bool", "ret": r}
    if isinstance(r, int):
        return {"rt": "int", "ret": r}
    return {"rt": "other", "ret": 0}


def _call(cache, ev):
    op = ev["op"]
    if op == "get":
        return cache.get(ev["k"])
    if op == "has":
        return cache.has(ev["k"])
    if op == "set":
        return cache.set(ev["k"], ev["v"])
    if op == "clear":
        return cache.clear()
    raise MachineryError(f"unknown op {op}")


# ---------------------------------------------------------------- spec -> code
def replay_transition(row) -> Optional[Dict[str, Any]]:
    """Replay one exported transition on a fresh real cache; None if it conforms."""
    from django_components.util.cache import LRUCache
    ms = None if row["max"] == -1 else row["max"]
    c = LRUCache(maxsize=ms)
    for k, v in reversed(row["pre"]):
        c.set(k, v)
    p = project(c)
    want_pre = [k for k, _ in row["pre"]]
    if p["bad"] or p["fwd"] != want_pre or p["bwd"] != want_pre[::-1] or p["vals"] != [v for _, v in row["pre"]] \
            or p["dkeys"] != sorted(want_pre, key=repr):
        return {"stage": "construct-source-state", "expected": row["pre"], "observed": p}
    try:
        r = _call(c, row["call"])
    except Exception as e:  # the specification never raises
        return {"stage": "call", "exception": repr(e)}
    p = project(c)
    want = [k for k, _ in row["post"]]
    exp_ret = row["ret"]
    ok_ret = (r is None and exp_ret == 0) or (r is not None and type(r) is type(exp_ret) and r == exp_ret)
    if p["bad"] or p["fwd"] != want or p["bwd"] != want[::-1] or p["vals"] != [v for _, v in row["post"]] \
            or p["dkeys"] != sorted(want, key=repr) or not ok_ret:
        return {"stage": "post-state", "expected": {"post": row["post"], "ret": exp_ret},
                "observed": {"state": p, "ret": repr(r)}}
    return None


def model_check_and_replay(chk: Check, nkeys: int, nvals: int) -> None:
    w = workdir("c18mc")
    keys = "{" + ",".join(str(i) for i in range(1, nkeys + 1)) + "}"
    vals = "{" + ",".join(str(10 * i) for i in range(1, nvals + 1)) + "}"
    states = trans = 0
    rows_all = 0
    for ms in SIZES:
        cfg = w / f"mc_{ms}.cfg"
        out = w / f"tr_{ms}.ndjson"
        _cfg(cfg, "MCSpec", keys, vals, ms,
             "INVARIANT TypeOK\nINVARIANT Bounded\nINVARIANT DictMatchesList\nINVARIANT Export\n"
             "PROPERTY EvictsLRU\nPROPERTY GetSemantics\nPROPERTY SetThenGet\n")
        r = tlc.require_ok(tlc.run("MC_C18", str(cfg), env={"OUT": str(out)}, workers=1), f"MC_C18 size={ms}")
        rows = tlc.read_ndjson(out)
        if len(rows) != r.distinct - 1:
            raise MachineryError(f"export incomplete: {len(rows)} rows for {r.distinct} states")
        states += r.distinct
        trans += r.generated
        rows_all += len(rows)
        for row in rows:
            chk.count(row, nontrivial=bool(row["pre"]) or row["call"]["op"] == "set")
            bad = replay_transition(row)
            if bad:
                chk.violation({"kind": "lru-transition", "row": row}, bad)
        if rows:
            chk.sample({"lru_transition": rows[len(rows) // 2]}, limit=3)
    chk.add("states", states)
    chk.add("transitions", trans)
    chk.add("lru_transitions_replayed", rows_all)


# ---------------------------------------------------------------- code -> spec (LRU)
def record_lru_trace(rnd: random.Random, ms: Optional[int], nkeys: int, length: int) -> List[Dict[str, Any]]:
    from django_components.util.cache import LRUCache
    c = LRUCache(maxsize=ms)
    evs = []
    for _ in range(length):
        x = rnd.random()
        k = rnd.randint(1, nkeys)
        if x < 0.45:
            ev = {"op": "set", "k": k, "v": rnd.randint(1, 50)}
        elif x < 0.80:
            ev = {"op": "get", "k": k}
        elif x < 0.95:
            ev = {"op": "has", "k": k}
        else:
            ev = {"op": "clear"}
        try:
            r = _call(c, ev)
            ev.update(_enc_ret(r))
        except Exception as e:
            ev.update({"rt": "exception:" + type(e).__name__, "ret": 0})
        p = project(c)
        if p["bad"]:
            ev["rt"] = "malformed:" + p["bad"]
        ev.update({"fwd": p["fwd"], "bwd": p["bwd"], "vals": p["vals"], "dkeys": p["dkeys"]})
        evs.append(ev)
    return evs


def validate_lru_traces(chk: Check, ntraces: int, length: int) -> None:
    rnd = random.Random(chk.seed * 7919 + 18)
    w = workdir("c18tr")
    total = 0
    for ms in SIZES + [5]:
        traces = []
        for i in range(ntraces):
            nkeys = rnd.choice([2, 3, 4, 6, 8])
            traces.append({"id": i + 1, "max": -1 if ms is None else ms,
                           "events": record_lru_trace(rnd, ms, nkeys, length)})
        f = w / f"lru_{ms}.ndjson"
        tlc.write_ndjson(f, traces)
        cfg = w / f"trace_{ms}.cfg"
        _cfg(cfg, "TrSpec", "{}", "{}", ms, "INVARIANT DictMatchesList\nINVARIANT Bounded\nPROPERTY EvictsLRU\n")
        r = tlc.run("Trace_C18", str(cfg), env={"IN": str(f)}, workers=1)
        if not r.ok and not r.violated:
            tlc.require_ok(r, f"Trace_C18 size={ms}")
        v = tlc.verdicts(r, len(traces), f"Trace_C18 size={ms}") if not r.violated else {"accepted": set(), "rejected": {}}
        if r.violated:
            chk.violation({"kind": "lru-trace-invariant", "maxsize": ms, "file": str(f)},
                          {"violated": r.violated, "tlc_tail": r.out.splitlines()[-30:]})
        for tid, why in v["rejected"].items():
            t = traces[tid - 1]
            chk.violation({"kind": "lru-trace", "maxsize": ms, "events": t["events"][: why["event"]]}, why)
        total += len(traces)
        for t in traces:
            chk.count(t["events"])
        chk.sample({"lru_trace_head": {"max": ms, "events": traces[0]["events"][:4]}}, limit=5)
        chk.add("trace_states", r.distinct)
    chk.add("traces_validated_against_impl", total)


# ---------------------------------------------------------------- template cache
def record_template_traces(rnd: random.Random, size, ntraces: int, length: int, via_component: bool):
    """Histories of compile requests through cached_template() (or through rendering
    components with inline templates) under COMPONENTS.template_cache_size=size."""
    from django.conf import settings
    from django.template import Context, Template, engines
    import django_components.cache as dcache
    from django_components import Component, cached_template

    class T2(Template):
        pass

    eng = engines["django"].engine
    traces = []
    old = settings.COMPONENTS
    try:
        settings.COMPONENTS = dict(old, template_cache_size=size)
        for i in range(ntraces):
            dcache.template_cache = None
            nkeys = rnd.choice([2, 3, 4, 5, 6])
            # key i -> (template string, class, engine)
            if via_component:
                keyspec = [(f"[k{j}:{{{{ x }}}}]", Template, None) for j in range(nkeys)]
                comps = []
                for j, (src, _, _) in enumerate(keyspec):
                    comps.append(type(f"VfTc{j}", (Component,), {"template": src,
                                 "get_context_data": lambda self, x=None: {"x": x}}))
            else:
                strings = [f"[s{j}:{{{{ x }}}}]" for j in range(max(2, nkeys // 2 + 1))]
                keyspec = []
                for j in range(nkeys):
                    keyspec.append((strings[j % len(strings)], [Template, T2][(j // len(strings)) % 2],
                                    eng if j >= 4 else None))
                keyspec = list(dict.fromkeys(keyspec))
                nkeys = len(keyspec)
            ids: Dict[int, int] = {}
            keep = []
            evs = []
            for _ in range(length):
                if rnd.random() < 0.04:
                    dcache.get_template_cache().clear()
                    evs.append({"op": "clear", "fwd": _tc_order(keyspec)})
                    continue
                k = rnd.randrange(nkeys)
                src, cls, engine = keyspec[k]
                x = rnd.randint(0, 99)
                if via_component:
                    seen = []
                    import django_components.component as dcomp
                    orig = dcomp.cached_template

                    def spy(*a, **kw):
                        t = orig(*a, **kw)
                        seen.append(t)
                        return t
                    dcomp.cached_template = spy
                    try:
                        out = comps[k].render(kwargs={"x": x})
                    finally:
                        dcomp.cached_template = orig
                    if len(seen) != 1:
                        raise MachineryError(f"expected one cached_template call per render, saw {len(seen)}")
                    t = seen[0]
                    import re
                    out = re.sub(r"<!-- _RENDERED [^>]*-->", "", out)
                else:
                    t = cached_template(src, template_cls=cls, engine=engine)
                    out = t.render(Context({"x": x}))
                keep.append(t)
                oid = ids.setdefault(id(t), len(ids) + 1)
                fresh = cls(src, engine=engine).render(Context({"x": x}))
                evs.append({"op": "compile", "k": k + 1, "obj": oid, "src_ok": t.source == src,
                            "cls_ok": type(t) is cls,
                            "eng_ok": (engine is None) or (t.engine is engine),
                            "out_ok": out == fresh, "fwd": _tc_order(keyspec)})
            traces.append({"id": i + 1, "events": evs})
    finally:
        settings.COMPONENTS = old
        dcache.template_cache = None
    return traces


def _tc_order(keyspec) -> List[int]:
    """Forward walk of the real template cache, cache keys mapped back to key indices."""
    import django_components.cache as dcache
    from django_components.util.misc import get_import_path
    c = dcache.get_template_cache()
    p = project(c)
    if p["bad"]:
        return [-1]
    index = {}
    for j, (src, cls, engine) in enumerate(keyspec):
        index[(get_import_path(cls), src, get_import_path(engine.__class__) if engine else None)] = j + 1
    # (the key's first three members identify the compiled text; name / origin follow since the recorded fix)
    return [index.get(tuple(k[:3]), -2) for k in p["fwd"]]


def template_cache(chk: Check, ntraces: int, length: int) -> None:
    rnd = random.Random(chk.seed * 104729 + 181)
    w = workdir("c18tc")
    # the abstract machine first: exhaustive over 3 keys, every size
    for ms in [None, 0, 1, 2]:
        cfg = w / f"tc_{ms}.cfg"
        _cfg(cfg, "TCSpec", "{1,2,3}", "{}", ms,
             "  MaxObjs = 5\nCONSTRAINT Limit\nINVARIANT Transparent\nINVARIANT Bounded\nINVARIANT DictMatchesList\n"
             "INVARIANT GotIsRight\nPROPERTY Identity\nPROPERTY MissIsFresh\nPROPERTY EvictsLRU\n")
        r = tlc.require_ok(tlc.run("MC_C18T", str(cfg), workers=4), f"MC_C18T size={ms}")
        chk.add("states", r.distinct)
        chk.add("transitions", r.generated)
    total = 0
    for size, ms in [(0, 0), (1, 1), (2, 2), (3, 3), (128, 128)]:
        for via in (False, True):
            traces = record_template_traces(rnd, size, ntraces, length, via)
            f = w / f"tc_{size}_{via}.ndjson"
            tlc.write_ndjson(f, traces)
            cfg = w / f"tctrace_{size}.cfg"
            _cfg(cfg, "TrSpec", "{}", "{}", ms, "INVARIANT Transparent\nINVARIANT Bounded\nINVARIANT DictMatchesList\nPROPERTY Identity\n")
            r = tlc.run("Trace_C18T", str(cfg), env={"IN": str(f)}, workers=1)
            if r.violated:
                chk.violation({"kind": "template-trace-invariant", "size": size, "via_component": via},
                              {"violated": r.violated, "tlc_tail": r.out.splitlines()[-30:]})
                continue
            tlc.require_ok(r, f"Trace_C18T size={size}")
            v = tlc.verdicts(r, len(traces), f"Trace_C18T size={size}")
            for tid, why in v["rejected"].items():
                t = traces[tid - 1]
                chk.violation({"kind": "template-trace", "size": size, "via_component": via,
                               "events": t["events"][: why["event"]]}, why)
            total += len(traces)
            for t in traces:
                chk.count([size, via, t["events"]])
            chk.sample({"template_trace_head": {"size": size, "via_component": via, "events": traces[0]["events"][:3]}}, limit=8)
    chk.add("traces_validated_against_impl", total)


def file_templates(chk: Check, nseq: int, length: int) -> None:
    """Transparency (TemplateCache.tla: Transparent) for templates that components take from FILES next to their
    module: three directories hold a template of identical text with a relative {% include "./p.html" %} and an own
    p.html; a fourth component has an inline template of that same text shape.  Whatever was compiled before and
    whatever the cache size, each render must print what compiling afresh prints: the own directory's p.html."""
    import importlib
    import sys
    from django.test.utils import override_settings
    import django_components.cache as dcache
    root = workdir("c18ft")
    comps = root / "comps"
    comps.mkdir()
    text = '[{{ x }}|{% include "./p.html" %}]'
    for dname in ("fa", "fb", "fc"):
        dd = comps / dname
        dd.mkdir()
        (dd / "__init__.py").write_text("")
        (dd / f"mod_{dname}.py").write_text(
            "from django_components import Component\n\n\n"
            f"class C_{dname}(Component):\n    template_file = \"inc.html\"\n\n"
            "    def get_context_data(self, x=0):\n        return {\"x\": x}\n")
        (dd / "inc.html").write_text(text)
        (dd / "p.html").write_text("own:" + dname)
    sys.path.insert(0, str(comps))
    rnd = random.Random(chk.seed * 7919 + 23)
    total = 0
    try:
        for size in [None, 0, 1, 2, 3]:
            cfg = {"autodiscover": False, "dirs": [str(comps)]}
            if size is not None:
                cfg["template_cache_size"] = size
            templates = [{"BACKEND": "django.template.backends.django.DjangoTemplates", "DIRS": [],
                          "OPTIONS": {"builtins": ["django_components.templatetags.component_tags"],
                                      "loaders": ["django_components.template_loader.Loader"]}}]
            with override_settings(COMPONENTS=cfg, TEMPLATES=templates):
                for s in range(nseq):
                    dcache.template_cache = None
                    # fresh classes per sequence: the class-level resolution of template_file is part of the history
                    classes = {}
                    for dname in ("fa", "fb", "fc"):
                        name = f"{dname}.mod_{dname}"
                        sys.modules.pop(name, None)
                        classes[dname] = getattr(importlib.import_module(name), "C_" + dname)
                    evs = []
                    for _ in range(length):
                        if rnd.random() < 0.1:
                            dcache.get_template_cache().clear()
                            evs.append(["clear"])
                            continue
                        dname = rnd.choice(["fa", "fb", "fc"])
                        x = rnd.randint(0, 99)
                        try:
                            out = classes[dname].render(kwargs={"x": x}, render_dependencies=False)
                        except Exception as e:  # noqa: BLE001
                            out = f"{type(e).__name__}: {e}"
                        import re
                        out = re.sub(r"<!--.*?-->", "", out)
                        evs.append(["render", dname, x])
                        total += 1
                        chk.count(["file-template", size, evs], nontrivial=len(evs) > 1)
                        want = f"[{x}|own:{dname}]"
                        if out != want:
                            chk.violation({"kind": "file-template", "size": size, "events": list(evs)},
                                          {"what": "not-transparent", "expected": want, "observed": out[:200]})
                            break
    finally:
        sys.path.remove(str(comps))
        dcache.template_cache = None
    chk.add("file_template_renders", total)


def run(tier: str) -> int:
    from . import boot
    boot.setup()
    chk = Check(PID, tier, "model_checking")
    quick = tier == "quick"
    file_templates(chk, nseq=12 if quick else 120, length=14 if quick else 30)
    model_check_and_replay(chk, nkeys=3 if quick else 4, nvals=2)
    validate_lru_traces(chk, ntraces=60 if quick else 600, length=60 if quick else 120)
    template_cache(chk, ntraces=25 if quick else 200, length=40 if quick else 80)
    chk.cov["exhaustive"] = True
    chk.cov["rule"] = ("every transition of the TLC state graph of LRUCache (all sizes) replayed on the real "
                       "LRUCache; random histories validated by Trace_C18/Trace_C18T. Non-trivial = source state "
                       "non-empty or a set; distinct by hash of the case")
    chk.assumptions += ["projection = dict items + forward/backward list walk + sentinels captures all "
                        "behaviour-relevant state of LRUCache",
                        "template_cache_size=None (documented: unbounded; code: 128) is not exercised as unbounded"]
    return chk.finish()


def selftest(tier: str) -> int:
    """In-process mutation probes (never touch /repo)."""
    from contextlib import contextmanager
    from . import boot
    from .core import run_probes
    boot.setup()
    import django_components.util.cache as uc
    import django_components.template as dt

    @contextmanager
    def patch(obj, name, new):
        old = getattr(obj, name)
        setattr(obj, name, new)
        try:
            yield
        finally:
            setattr(obj, name, old)

    def evict_mru():
        orig = uc.LRUCache.set

        def set_(self, key, value):
            if key not in self.cache and self.maxsize is not None and self.maxsize > 0 \
                    and len(self.cache) >= self.maxsize:
                n = self.head.next
                self._remove(n)
                del self.cache[n.key]
            return orig(self, key, value)
        return patch(uc.LRUCache, "set", set_)

    def get_no_touch():
        return patch(uc.LRUCache, "get", lambda self, k: self.cache[k].value if k in self.cache else None)

    def off_by_one():
        orig = uc.LRUCache.set

        def set_(self, key, value):
            ms = self.maxsize
            if ms:
                self.maxsize = ms + 1
            try:
                return orig(self, key, value)
            finally:
                self.maxsize = ms
        return patch(uc.LRUCache, "set", set_)

    def stale_backpointer():
        def rem(self, node):
            if node.prev is not None:
                node.prev.next = node.next
        return patch(uc.LRUCache, "_remove", rem)

    def key_without_class():
        orig = dt.cached_template

        def ct(template_string, template_cls=None, origin=None, name=None, engine=None):
            from django.template import Template
            cache = dt.get_template_cache()
            t = cache.get(template_string)
            if t is None:
                t = (template_cls or Template)(template_string, origin=origin, name=name, engine=engine)
                cache.set(template_string, t)
            return t
        import django_components
        from contextlib import ExitStack

        @contextmanager
        def both():
            with ExitStack() as st:
                st.enter_context(patch(dt, "cached_template", ct))
                st.enter_context(patch(django_components, "cached_template", ct))
                yield
        return both()

    def body(chk):
        w = workdir("c18st")
        from django_components.util.cache import LRUCache  # noqa
        model_check_and_replay(chk, 3, 2)
        validate_lru_traces(chk, 10, 40)
        template_cache(chk, 6, 30)

    return run_probes(PID, [("evict-MRU", evict_mru), ("get-does-not-touch", get_no_touch),
                            ("size-off-by-one", off_by_one), ("stale-back-pointer", stale_backpointer),
                            ("template-key-without-class", key_without_class)], body)


def replay(path: str) -> int:
    from . import boot
    boot.setup()
    d = json.load(open(path))
    case = d["case"]
    if case.get("kind") == "lru-transition":
        bad = replay_transition(case["row"])
        print(json.dumps(bad, indent=1, default=repr))
        return 1 if bad else 0
    print("replay of trace cases: re-run the check with the same VERIF_SEED")
    return 2
